//! C15 — reading a frame consumes exactly one line; writing delivers the whole frame.

use std::io;

use flipdot_core::{Address, Data, Frame, FrameError, MsgType};

use crate::doubles::{FragReader, FragWriter, ReadFault, WriteAct};
use crate::refs;
use crate::util::{Ctx, J, Outcome, Report, Rng, catch, floor, fnv, hex, run_sharded, short_loc, show_bytes};

const MON_R: &str = "read_one_line";
const MON_W: &str = "write_whole_frame";

fn summarize(r: &Result<Frame<'_>, FrameError>) -> String {
    match r {
        Ok(f) => format!("Ok({:04X}:{:02X}:{})", f.address().0, f.message_type().0, hex(f.data())),
        Err(FrameError::Io { source }) if !crate::doubles::payload_intact(source) => format!("Io({:?}) that no longer carries what the stream put into it: {:?}", source.kind(), source.get_ref().map(|x| x.to_string())),
        Err(FrameError::Io { source }) => format!("Io({:?})", source.kind()),
        Err(FrameError::InvalidFrame { data }) => format!("InvalidFrame({})", hex(data)),
        Err(FrameError::FrameDataMismatch { data, expected, actual }) => format!("FrameDataMismatch({},{},{})", hex(data), expected, actual),
        Err(FrameError::BadChecksum { data, expected, actual }) => format!("BadChecksum({},{:02X},{:02X})", hex(data), expected, actual),
        Err(e) => format!("Other({:?})", e),
    }
}

#[derive(Clone, Debug)]
struct ReadCase {
    tape: Vec<u8>,
    boundaries: Vec<usize>,
    faults: Vec<(usize, ReadFault, usize)>,
    /// number of Frame::read calls to make
    reads: usize,
    label: &'static str,
}

impl ReadCase {
    fn sig(&self) -> String {
        format!("{}|b{:?}|f{:?}|{}", hex(&self.tape), self.boundaries, self.faults, self.reads)
    }
    fn json(&self) -> J {
        J::obj(vec![
            ("workload", J::s("read")),
            ("label", J::s(self.label)),
            ("tape", J::hex(&self.tape)),
            ("tape_text", J::s(show_bytes(&self.tape))),
            ("boundaries", J::Arr(self.boundaries.iter().map(|b| J::us(*b)).collect())),
            ("faults", J::Arr(self.faults.iter().map(|f| J::s(format!("{:?}@{}x{}", f.1, f.0, if f.2 == usize::MAX { "inf".to_string() } else { f.2.to_string() }))).collect())),
            ("reads", J::us(self.reads)),
        ])
    }
}

/// Runs the reads of one case and checks conservation on the tape after every call.
fn run_read_case(c: &ReadCase, rep: &mut Report) {
    rep.case(Some(fnv(c.sig().as_bytes())));
    rep.count(&format!("read_cases/{}", c.label));
    let mut reader = FragReader::new(c.tape.clone(), c.boundaries.clone(), c.faults.clone());
    let fail = |rep: &mut Report, class: &str, call: usize, what: String| {
        let mut d = c.json();
        if let J::Obj(v) = &mut d {
            v.push(("call".into(), J::us(call)));
            v.push(("observed".into(), J::s(what.clone())));
        }
        rep.violation(MON_R, class, &c.sig(), format!("read #{} of [{}] ({}): {}", call, show_bytes(&c.tape), c.label, what), d);
    };
    for call in 0..c.reads {
        let start = reader.pos;
        let log_before = reader.log.len();
        let r = catch(|| Frame::read(&mut reader));
        let got = match r {
            Ok(res) => summarize(&res),
            Err(p) => {
                fail(rep, "panic", call, format!("panic {} at {}", p.msg, short_loc(&p.loc)));
                return;
            }
        };
        // what the double actually did during this call
        let evs = &reader.log[log_before..];
        for e in evs {
            rep.seen("request_sizes", e.requested as u64);
        }
        let mut fired_fail: Option<(usize, io::ErrorKind)> = None;
        let mut fired_eof: Option<usize> = None;
        for e in evs {
            match e.returned {
                Err(io::ErrorKind::Interrupted) => rep.count("faults_fired/interrupted"),
                Err(k) => {
                    fired_fail.get_or_insert((e.at, k));
                    rep.count("faults_fired/hard_error");
                }
                Ok(0) if e.at < c.tape.len() && e.requested > 0 => {
                    fired_eof.get_or_insert(e.at);
                    rep.count("faults_fired/eof");
                }
                _ => {}
            }
        }
        // the line this call must consume
        let rest = &c.tape[start..];
        let line_end = match rest.iter().position(|b| *b == b'\n') {
            Some(i) => start + i + 1,
            None => c.tape.len(),
        };
        if rest.contains(&b'\n') {
            rep.count("reads_of_terminated_lines");
        } else {
            rep.count("reads_hitting_end_of_stream");
        }
        let (want_end, want): (usize, String) = if let Some((at, kind)) = fired_fail {
            (at, format!("Io({:?})", kind))
        } else if let Some(at) = fired_eof {
            (at, summarize(&Frame::from_bytes(&c.tape[start..at])))
        } else {
            (line_end, summarize(&Frame::from_bytes(&c.tape[start..line_end])))
        };
        if want.starts_with("Ok(") {
            rep.count("frames_read_ok");
        }
        if reader.pos > line_end {
            fail(rep, "over_consumed", call, format!("stream position {} after the call, the line ends at {} ({} bytes too many)", reader.pos, line_end, reader.pos - line_end));
            return;
        }
        if reader.pos != want_end {
            fail(rep, "wrong_position", call, format!("stream position {} after the call, expected {}", reader.pos, want_end));
            return;
        }
        if got != want {
            let class = if got.contains("Interrupted") {
                "interrupted_surfaced"
            } else if want.starts_with("Io(") {
                "io_error_not_surfaced"
            } else {
                "wrong_result"
            };
            fail(rep, class, call, format!("returned {} expected {}", got, want));
            return;
        }
        if fired_fail.is_some() {
            // the caller would stop here; what was consumed of this line is gone, so later lines are not comparable
            break;
        }
    }
    if reader.remaining() != &c.tape[reader.pos..] {
        fail(rep, "tape_corrupted", c.reads, "remaining bytes differ".into());
    }
    if rep.wants_sample() {
        rep.sample(|| c.json());
    }
}

fn rand_frame(rng: &mut Rng) -> (u16, u8, Vec<u8>) {
    let len = match rng.below(12) {
        0 | 1 => 0,
        2 | 3 => 1,
        4 | 5 => 16,
        6 => 253 + rng.usize(3), // the longest lines the format allows (519..523 bytes)
        _ => rng.usize(40),
    };
    (rng.edgy_u16(), rng.edgy_u8(), rng.bytes(len))
}

/// A stream of 1..=4 lines followed by trailing bytes; returns (tape, number of lines incl. an unterminated tail).
fn rand_stream(rng: &mut Rng, rep: &mut Report) -> (Vec<u8>, usize) {
    let k = 1 + rng.usize(4);
    let mut tape = vec![];
    let mut prev: Option<(u16, u8, Vec<u8>)> = None;
    for _ in 0..k {
        // a third of the lines carry the SAME frame as the line before, usually in another spelling (right terminator,
        // wrong terminator, lower case): a reader that remembers the previous line must not let it stand in for this one
        let (a, t, d) = match &prev {
            Some(p) if rng.chance(1, 3) => {
                rep.count("lines/same_frame_as_previous_line");
                p.clone()
            }
            _ => rand_frame(rng),
        };
        prev = Some((a, t, d.clone()));
        match rng.below(12) {
            0 => {
                tape.extend(refs::enc(a, t, &d));
                tape.push(b'\n'); // bare LF: not a valid terminator
                rep.count("lines/bare_lf");
            }
            1 => {
                tape.extend_from_slice(if rng.bool() { b"\n" } else { b"\r\n" });
                rep.count("lines/empty");
            }
            2 => {
                let n = rng.usize(12);
                tape.extend(rng.bytes(n).into_iter().filter(|b| *b != b'\n'));
                tape.push(b'\n');
                rep.count("lines/garbage");
            }
            3 => {
                tape.extend(refs::enc_crlf(a, t, &d).to_ascii_lowercase());
                rep.count("lines/lower_case");
            }
            7 if rng.chance(1, 2) => {
                // noise in front of an otherwise perfect frame, on the same line (what a listener sees who joined mid-frame)
                let noise: &[u8] = *rng.pick(&[&b"\x00\x00"[..], b"F7F", b" ", b"::", b"\xFF", b"0", b"\r"]);
                tape.extend_from_slice(noise);
                tape.extend(refs::enc_crlf(a, t, &d));
                rep.count("lines/leading_noise");
            }
            8 if rng.chance(1, 2) => {
                // a line whose LENGTH FIELD alone is wrong (off by 1, 2, 16, 64, 128, 255 — modulo 256) while its checksum is
                // right for the bytes as sent: a length mismatch, for `read` as for `from_bytes`
                let off = *rng.pick(&[1u8, 2, 0x10, 0x40, 0x80, 0xFF, 0xFE]);
                let mut fields = vec![(d.len() as u8).wrapping_add(off), (a >> 8) as u8, a as u8, t];
                fields.extend_from_slice(&d);
                let sum = fields.iter().fold(0u8, |x, y| x.wrapping_add(*y));
                fields.push(sum.wrapping_neg());
                tape.push(b':');
                tape.extend(hex(&fields).to_ascii_uppercase().into_bytes());
                tape.extend_from_slice(b"\r\n");
                rep.count("lines/wrong_length_field_right_checksum");
            }
            5 => {
                tape.extend(refs::enc(a, t, &d));
                tape.extend_from_slice(b"\r\r\n"); // doubled CR
                rep.count("lines/doubled_cr");
            }
            6 => {
                tape.extend(refs::enc(a, t, &d));
                tape.extend_from_slice(*rng.pick(&[&b" \r\n"[..], &b"\t\r\n"[..], &b" \n"[..], &b"\r \n"[..]])); // blanks around the terminator
                rep.count("lines/blank_near_terminator");
            }
            4 => {
                let mut w = refs::enc(a, t, &d);
                let n = w.len();
                w[n - 1] = if w[n - 1] == b'0' { b'1' } else { b'0' };
                tape.extend(w);
                tape.extend_from_slice(b"\r\n");
                rep.count("lines/bad_checksum");
            }
            _ => {
                tape.extend(refs::enc_crlf(a, t, &d));
                rep.count("lines/valid");
            }
        }
    }
    if k >= 2 {
        rep.count("multi_frame_streams");
    }
    let mut lines = k;
    match rng.below(6) {
        0 => {}
        1 => {
            tape.push(b':');
            lines += 1;
        }
        2 => {
            let n = 1 + rng.usize(6);
            tape.extend(rng.bytes(n).into_iter().map(|b| if b == b'\n' { 0 } else { b }));
            lines += 1;
        }
        3 => {
            // an unterminated but otherwise valid frame at the end of the stream
            let (a, t, d) = rand_frame(rng);
            tape.extend(refs::enc(a, t, &d));
            lines += 1;
            rep.count("lines/unterminated_valid_tail");
        }
        4 => {
            tape.extend_from_slice(b"\r");
            lines += 1;
        }
        _ => {}
    }
    (tape, lines)
}

fn random_read_case(rng: &mut Rng, rep: &mut Report) {
    let (tape, lines) = rand_stream(rng, rep);
    let n = tape.len();
    let mut boundaries = vec![];
    let density = rng.below(4);
    for p in 1..n {
        if match density {
            0 => false,
            1 => rng.chance(1, 8),
            2 => rng.chance(1, 2),
            _ => true,
        } {
            boundaries.push(p);
        }
    }
    let mut faults = vec![];
    let mode = rng.below(6);
    let label = match mode {
        0 => "fragmentation_only",
        1 | 2 => {
            for _ in 0..1 + rng.usize(6) {
                faults.push((rng.usize(n + 1), ReadFault::Interrupted, 1 + rng.usize(3)));
            }
            "interrupted_subset"
        }
        3 => {
            let kind = *rng.pick(&crate::doubles::HARD_KINDS);
            faults.push((rng.usize(n + 1), ReadFault::Fail(kind), usize::MAX));
            if rng.bool() {
                faults.insert(0, (rng.usize(n + 1), ReadFault::Interrupted, 1));
            }
            "hard_error"
        }
        4 => {
            faults.push((rng.usize(n + 1), ReadFault::Eof, 1));
            "premature_eof"
        }
        _ => {
            faults.push((rng.usize(n + 1), ReadFault::Interrupted, 2));
            faults.push((rng.usize(n + 1), ReadFault::Eof, 1));
            "mixed"
        }
    };
    run_read_case(&ReadCase { tape, boundaries, faults, reads: lines + 1, label }, rep);
}

/// Exhaustive: every composition of a short stream into deliveries, and a fault of each kind at every position.
fn exhaustive_read(which: usize, rep: &mut Report) {
    let mut tape = refs::enc_crlf(0x0003, 0x02, &[]);
    match which {
        0 => tape.push(b':'),                                 // 14 bytes: frame + first byte of the next one
        1 => tape = [refs::enc(0, 1, &[]), b"\n:".to_vec()].concat(), // bare-LF line + trailing colon (13 bytes)
        _ => tape = b"\r\n:0A\n\xFF\n".to_vec(),               // empty line, garbage lines
    }
    let n = tape.len();
    let reads = tape.iter().filter(|b| **b == b'\n').count() + 2;
    for mask in 0u32..(1 << (n - 1)) {
        let boundaries: Vec<usize> = (1..n).filter(|p| mask >> (p - 1) & 1 == 1).collect();
        run_read_case(&ReadCase { tape: tape.clone(), boundaries, faults: vec![], reads, label: "every_composition" }, rep);
    }
    rep.add("compositions_enumerated", 1 << (n - 1));
    for pos in 0..=n {
        for (fault, times, label) in [
            (ReadFault::Interrupted, 1, "interrupted_each_position"),
            (ReadFault::Interrupted, 3, "interrupted_each_position"),
            (ReadFault::Fail(io::ErrorKind::Other), usize::MAX, "hard_error_each_position"),
            (ReadFault::Fail(io::ErrorKind::TimedOut), usize::MAX, "hard_error_each_position"),
            (ReadFault::Fail(io::ErrorKind::UnexpectedEof), usize::MAX, "hard_error_each_position"),
            (ReadFault::Eof, 1, "eof_each_position"),
        ] {
            for frag in [vec![], (1..n).collect::<Vec<usize>>()] {
                run_read_case(&ReadCase { tape: tape.clone(), boundaries: frag, faults: vec![(pos, fault, times)], reads, label }, rep);
            }
        }
    }
    // multi-frame: 4 back-to-back frames, every position interrupted once
    let mut four = vec![];
    for i in 0..4u8 {
        four.extend(refs::enc_crlf(u16::from(i) << 8 | 0x7F, i, &vec![i; i as usize]));
    }
    for pos in 0..four.len() {
        run_read_case(&ReadCase { tape: four.clone(), boundaries: vec![], faults: vec![(pos, ReadFault::Interrupted, 1)], reads: 5, label: "four_frames_interrupted_each_position" }, rep);
        run_read_case(&ReadCase { tape: four.clone(), boundaries: vec![pos], faults: vec![(pos, ReadFault::Fail(io::ErrorKind::BrokenPipe), usize::MAX)], reads: 5, label: "four_frames_error_each_position" }, rep);
    }
    // the longest possible lines back to back: 255 / 254 / 255 data bytes, then a short frame and a trailing byte
    let mut long = vec![];
    for (i, n) in [255usize, 254, 255, 1].into_iter().enumerate() {
        long.extend(refs::enc_crlf(0x0100 + i as u16, 0, &vec![0xA0 + i as u8; n]));
    }
    long.push(b':');
    for frag in [vec![], vec![521usize, 523, 1044], (1..long.len()).step_by(7).collect::<Vec<usize>>()] {
        run_read_case(&ReadCase { tape: long.clone(), boundaries: frag, faults: vec![], reads: 6, label: "maximum_length_frames_back_to_back" }, rep);
    }
    // ... and the same with interrupted reads: one to six interrupts (each position fires once or several times) spread
    // over the first maximum-length line, then further ones in the later lines — a reader that budgets its read calls
    // by the line length runs out exactly here
    for k in 1..=if which == 0 { 6usize } else { 0 } {
        for start in [0usize, 1, 260, 516, 520, 521, 522] {
            let mut faults = vec![];
            for j in 0..k {
                let pos = (start + j * 3).min(522);
                if faults.iter().all(|f: &(usize, ReadFault, usize)| f.0 != pos) {
                    faults.push((pos, ReadFault::Interrupted, 1));
                }
            }
            run_read_case(&ReadCase { tape: long.clone(), boundaries: vec![], faults: faults.clone(), reads: 6, label: "maximum_length_frames_interrupted" }, rep);
            // the same number of interrupts at ONE position, and a copy of the pattern in the third line
            run_read_case(&ReadCase { tape: long.clone(), boundaries: vec![start], faults: vec![(start, ReadFault::Interrupted, k), (523 + 521 + start.min(500), ReadFault::Interrupted, k)], reads: 6, label: "maximum_length_frames_interrupted" }, rep);
        }
    }
    // thousands of interrupted reads during ONE line (a short one and the longest one): "however often"
    if which == 0 {
        for times in [300usize, 4_000, 5_000, 70_000] {
            let short = [refs::enc_crlf(0x0003, 0x04, &[0x0F]), refs::enc_crlf(0x0004, 0x04, &[0x10]), b":".to_vec()].concat();
            run_read_case(&ReadCase { tape: short.clone(), boundaries: vec![], faults: vec![(7, ReadFault::Interrupted, times)], reads: 3, label: "thousands_of_interrupts_in_one_line" }, rep);
            run_read_case(&ReadCase { tape: short, boundaries: vec![], faults: vec![(0, ReadFault::Interrupted, times / 2), (14, ReadFault::Interrupted, times / 2), (15, ReadFault::Interrupted, 3)], reads: 3, label: "thousands_of_interrupts_in_one_line" }, rep);
            run_read_case(&ReadCase { tape: long.clone(), boundaries: vec![], faults: vec![(100, ReadFault::Interrupted, times / 3), (400, ReadFault::Interrupted, times / 3), (522, ReadFault::Interrupted, times / 3), (523 + 10, ReadFault::Interrupted, times)], reads: 6, label: "thousands_of_interrupts_in_one_line" }, rep);
        }
    }
    // a line far longer than any frame (no LF for 524 .. 70 000 bytes), then two good frames: one read takes the whole
    // line and not a byte more, however long it is
    if which == 0 {
        let good = refs::enc_crlf(0x0003, 0x04, &[0x07]);
        // (.. and around a mebibyte and two: a reader that caps what one call may take leaves the rest of the line behind)
        for n in [524usize, 599, 600, 601, 1023, 1024, 4095, 4096, 4097, 65_535, 65_536, 70_000, (1 << 20) - 3, (1 << 20) - 2, (1 << 20) - 1, 1 << 20, (1 << 20) + 1, (1 << 20) + 523, (1 << 21) + 5, (1 << 22) + 1] {
            if n > 70_000 {
                rep.count("read_cases/overlong_line_of_a_mebibyte_or_more");
            }
            for filler in [b'A', b':', 0xFF] {
                let mut tape = vec![b':'];
                tape.extend(std::iter::repeat(filler).take(n - 1));
                tape.extend_from_slice(b"\r\n");
                tape.extend_from_slice(&good);
                tape.extend_from_slice(&good);
                // (interrupts also right behind the 523rd and the 1046th byte: where a line buffer sized for the longest frame is full)
                run_read_case(&ReadCase { tape, boundaries: vec![n / 2], faults: vec![(n / 3, ReadFault::Interrupted, 2), (523, ReadFault::Interrupted, 1), (522, ReadFault::Interrupted, 1), (524, ReadFault::Interrupted, 2), (1046, ReadFault::Interrupted, 1)], reads: 4, label: "overlong_line_then_good_frames" }, rep);
            }
        }
    }
    // junk lines of EVERY length from 3 to 4400 bytes (terminator included), and of every multiple of the longest frame's
    // line (523 bytes) up to forty times that, one byte less and one more: whatever reservation a reader works with, some
    // line fills it exactly
    if which == 0 {
        let good = refs::enc_crlf(0x0003, 0x04, &[0x07]);
        let mut totals: Vec<usize> = (3..=4400).collect();
        for k in 9..=40usize {
            totals.extend([523 * k - 1, 523 * k, 523 * k + 1]);
        }
        for total in totals {
            let mut tape = vec![b':'];
            tape.extend(std::iter::repeat(b'5').take(total - 3));
            tape.extend_from_slice(b"\r\n");
            tape.extend_from_slice(&good);
            tape.extend_from_slice(&good);
            run_read_case(&ReadCase { tape, boundaries: vec![], faults: vec![], reads: 3, label: "junk_line_of_every_length" }, rep);
        }
    }
    // junk lines whose length is AROUND that of the longest frame (515 .. 530 bytes, terminator included — the longest
    // frame's line has 523), then two good frames: the failing read takes that line and nothing of the next one
    if which == 0 {
        let good = refs::enc_crlf(0x0003, 0x04, &[0x07]);
        for total in 515usize..=530 {
            for (filler, term) in [(b'A', &b"\r\n"[..]), (b':', &b"\r\n"[..]), (b'0', &b"\n"[..]), (0xFF, &b"\r\n"[..])] {
                let mut tape = vec![b':'];
                tape.extend(std::iter::repeat(filler).take(total - 1 - term.len()));
                tape.extend_from_slice(term);
                tape.extend_from_slice(&good);
                tape.extend_from_slice(&good);
                run_read_case(&ReadCase { tape, boundaries: vec![], faults: vec![], reads: 4, label: "junk_line_about_as_long_as_the_longest_frame" }, rep);
            }
        }
    }
    // exactly k undecodable lines of one kind in a row, then two good frames: each read is judged as ever
    if which == 0 {
        let good = refs::enc_crlf(0x0003, 0x04, &[0x07]);
        let bad_kinds: [Vec<u8>; 5] = [
            [refs::enc(0x0003, 0x04, &[0x07]), b"\n".to_vec()].concat(), // bare LF
            b":0100030407F2\r\n".to_vec(),                               // wrong checksum
            b"garbage\r\n".to_vec(),
            b"\r\n".to_vec(),
            b":0200030407F0\r\n".to_vec(), // wrong length
        ];
        for k in [1usize, 2, 63, 64, 65, 255, 256, 257] {
            for bad in &bad_kinds {
                let mut tape = vec![];
                for _ in 0..k {
                    tape.extend_from_slice(bad);
                }
                tape.extend_from_slice(&good);
                tape.extend_from_slice(&good);
                tape.push(b':');
                run_read_case(&ReadCase { tape, boundaries: vec![], faults: vec![], reads: k + 3, label: "k_undecodable_lines_then_good_ones" }, rep);
            }
        }
        // ... and exactly k reads that fail with a hard error at the same place (the error is not persistent: the k+1-th
        // read goes through)
        for k in [1usize, 2, 63, 64, 65, 255, 256, 257] {
            let tape = [good.clone(), good.clone(), b":".to_vec()].concat();
            run_read_case_after_failures(&tape, k, rep);
        }
    }
    rep.count("exhaustive_read_sets_done");
}

/// k reads in a row fail with a hard error before a single byte is delivered; then the stream works: the next two reads
/// return the two frames. (`run_read_case` stops at the first hard error, as a caller would; this is the caller who
/// tries again.)
fn run_read_case_after_failures(tape: &[u8], k: usize, rep: &mut Report) {
    rep.case(Some(fnv(format!("after-{}-failures", k).as_bytes())));
    rep.count("read_cases/k_failing_reads_then_good_ones");
    let mut reader = FragReader::new(tape.to_vec(), vec![], vec![(0, ReadFault::Fail(io::ErrorKind::TimedOut), k)]);
    for call in 0..k + 2 {
        let r = catch(|| Frame::read(&mut reader));
        let got = match r {
            Ok(res) => summarize(&res),
            Err(p) => format!("panic {} at {}", p.msg, short_loc(&p.loc)),
        };
        let want = if call < k { "Io(TimedOut)".to_string() } else { "Ok(0003:04:07)".to_string() };
        let want_pos = if call < k { 0 } else { (call - k + 1) * 15 };
        if got != want || reader.pos != want_pos {
            rep.violation(MON_R, "wrong_result", &format!("after-{}-failures-{}", k, call), format!("read #{} on a stream whose first {} reads fail with TimedOut before delivering anything: returned {} with the stream at {}, expected {} at {}", call, k, got, reader.pos, want, want_pos), J::obj(vec![("workload", J::s("k failing reads")), ("k", J::us(k)), ("call", J::us(call)), ("observed", J::s(got.clone()))]));
            return;
        }
    }
}

// ------------------------------------------------------------------------------------------------

#[derive(Clone, Debug)]
struct WriteCase {
    frame: (u16, u8, Vec<u8>),
    script: Vec<WriteAct>,
    default: WriteAct,
    label: &'static str,
}

fn run_write_case(c: &WriteCase, rep: &mut Report) {
    let sig = format!("{:04X}:{:02X}:{}|{:?}|{:?}", c.frame.0, c.frame.1, hex(&c.frame.2), c.script, c.default);
    rep.case(Some(fnv(sig.as_bytes())));
    rep.count(&format!("write_cases/{}", c.label));
    let want = refs::enc_crlf(c.frame.0, c.frame.1, &c.frame.2);
    // every second sink gathers: offered several slices at once it takes them as one run of bytes (and may stop anywhere)
    let gather = fnv(sig.as_bytes()) % 2 == 1;
    let mut w = FragWriter::new(c.script.clone(), c.default).gathering(gather);
    rep.count(if gather { "sinks/gathering" } else { "sinks/first_slice_only" });
    let r = catch(|| {
        let f = Frame::new(Address(c.frame.0), MsgType(c.frame.1), Data::try_new(c.frame.2.clone()).expect("<=255"));
        f.write(&mut w).map_err(|e| match e {
            FrameError::Io { ref source } if std::error::Error::source(&e).map(|x| x.to_string()) != Some(source.to_string()) => format!("Other(Io error whose Error::source() is {:?})", std::error::Error::source(&e).map(|x| x.to_string())),
            FrameError::Io { source } if !crate::doubles::payload_intact(&source) => format!("Other(an i/o error of kind {:?} that no longer carries what the stream put into it: {:?})", source.kind(), source.get_ref().map(|x| x.to_string())),
            FrameError::Io { source } => format!("Io({:?})", source.kind()),
            other => format!("Other({:?})", other),
        })
    });
    let fail = |rep: &mut Report, class: &str, what: String| {
        rep.violation(
            MON_W,
            class,
            &sig,
            format!("write of {:04X}:{:02X}:{} ({}): {}", c.frame.0, c.frame.1, hex(&c.frame.2), c.label, what),
            J::obj(vec![
                ("workload", J::s("write")),
                ("frame", J::s(format!("{:04X}:{:02X}:{}", c.frame.0, c.frame.1, hex(&c.frame.2)))),
                ("script", J::s(format!("{:?} then {:?}", c.script, c.default))),
                ("accepted", J::s(show_bytes(&w.accepted))),
                ("expected_bytes", J::s(show_bytes(&want))),
                ("observed", J::s(what.clone())),
            ]),
        );
    };
    let hard: Vec<String> = w
        .log
        .iter()
        .filter_map(|e| match e.returned {
            Err(io::ErrorKind::Interrupted) => None,
            Err(k) => Some(format!("{:?}", k)),
            Ok(0) if e.offered > 0 => Some("WriteZero".to_string()),
            _ => None,
        })
        .collect();
    if w.log.iter().any(|e| matches!(e.returned, Ok(n) if n > 0 && n < e.offered)) {
        rep.count("short_writes_observed");
    }
    if w.log.iter().any(|e| e.returned == Err(io::ErrorKind::Interrupted)) {
        rep.count("write_interrupts_fired");
    }
    match r {
        Err(p) => fail(rep, "panic", format!("panic {} at {}", p.msg, short_loc(&p.loc))),
        Ok(Ok(())) => {
            if !hard.is_empty() {
                fail(rep, "sink_failure_not_surfaced", format!("the sink failed with {:?} but write returned Ok", hard));
            } else if w.accepted != want {
                fail(rep, "incomplete_or_wrong_bytes", format!("Ok but the sink holds [{}]", show_bytes(&w.accepted)));
            } else {
                rep.count("writes_ok_complete");
            }
        }
        Ok(Err(e)) => {
            // once the sink has failed hard, the write is over: nothing more is offered to it (not by the call, and not by
            // anything the call leaves behind to run when it returns)
            let first_hard = w.log.iter().position(|ev| matches!(ev.returned, Err(k) if k != io::ErrorKind::Interrupted) || (ev.returned == Ok(0) && ev.offered > 0));
            if let Some(i) = first_hard {
                if w.log.len() > i + 1 {
                    fail(rep, "sink_used_again_after_it_failed", format!("the sink failed at call #{}, yet {} more call(s) offered it data ({} bytes reached it after the failure)", i, w.log.len() - i - 1, w.log[i + 1..].iter().map(|ev| ev.returned.unwrap_or(0)).sum::<usize>()));
                }
            }
            if hard.is_empty() {
                fail(rep, "error_without_sink_failure", format!("returned {} although the sink never failed", e));
            } else {
                rep.count("write_failures_surfaced");
                if !e.starts_with("Io(") {
                    fail(rep, "failure_not_io_error", format!("sink failure surfaced as {}", e));
                } else if e != format!("Io({})", hard[0]) {
                    fail(rep, "io_error_kind_changed", format!("sink failed with {} but the error says {}", hard[0], e));
                }
                if !want.starts_with(&w.accepted) {
                    fail(rep, "garbage_before_failure", format!("sink holds [{}], not a prefix of the encoding", show_bytes(&w.accepted)));
                }
            }
        }
    }
    if rep.wants_sample() {
        rep.sample(|| J::obj(vec![("workload", J::s("write")), ("label", J::s(c.label)), ("frame_len", J::us(c.frame.2.len())), ("calls", J::us(w.calls)), ("accepted_bytes", J::us(w.accepted.len()))]));
    }
}

/// The standard library's own sinks, each with room for 0 .. (line length + 2) bytes: a byte slice, a cursor over a byte
/// slice, a cursor over a vector, a vector, a buffered writer with a tiny buffer over a slice. A sink with room for the
/// whole line ends up holding exactly the line and the write succeeds; a smaller one is filled with a prefix of the line
/// and the write fails with an I/O error (the library's `WriteZero`).
fn std_sinks(rep: &mut Report) {
    use std::io::{Cursor, Write as _};
    let frames = [(0x0003u16, 0x02u8, vec![0xFFu8]), (0, 1, vec![]), (0xABCD, 0x00, (0..16).collect::<Vec<u8>>()), (0xFFFF, 0xFF, vec![0xA5; 255])];
    for f in frames {
        let want = refs::enc_crlf(f.0, f.1, &f.2);
        let n = want.len();
        let rooms: Vec<usize> = if n > 100 { vec![0, 1, n / 2, n - 3, n - 2, n - 1, n, n + 1, n + 2] } else { (0..=n + 2).collect() };
        for room in rooms {
            for sink in 0..5usize {
                let sig = format!("std-sink{}|{:04X}:{:02X}:{}|room{}", sink, f.0, f.1, hex(&f.2), room);
                rep.case(Some(fnv(sig.as_bytes())));
                let r = catch(|| {
                    let fr = Frame::new(Address(f.0), MsgType(f.1), Data::try_new(f.2.clone()).expect("<=255"));
                    let mut store = vec![0xEEu8; room];
                    let (res, held): (Result<(), FrameError>, Vec<u8>) = match sink {
                        0 => {
                            let mut slice: &mut [u8] = &mut store[..];
                            let res = fr.write(&mut slice);
                            let left = slice.len();
                            (res, store[..room - left].to_vec())
                        }
                        1 => {
                            let mut c = Cursor::new(&mut store[..]);
                            let res = fr.write(&mut c);
                            let at = c.position() as usize;
                            (res, store[..at].to_vec())
                        }
                        2 => {
                            // a growable sink never runs out of room: `room` bytes are already in it
                            let mut c = Cursor::new(store.clone());
                            c.set_position(room as u64);
                            let res = fr.write(&mut c);
                            let v = c.into_inner();
                            (res, if v.len() >= room { v[room..].to_vec() } else { vec![] })
                        }
                        3 => {
                            let mut v = store.clone();
                            let res = fr.write(&mut v);
                            (res, if v.len() >= room { v[room..].to_vec() } else { vec![] })
                        }
                        _ => {
                            let mut slice: &mut [u8] = &mut store[..];
                            let res = {
                                let mut b = std::io::BufWriter::with_capacity(3, &mut slice);
                                let res = fr.write(&mut b);
                                match res {
                                    Ok(()) => b.flush().map_err(FrameError::from),
                                    e => {
                                        let _ = b.flush();
                                        e
                                    }
                                }
                            };
                            let left = slice.len();
                            (res, store[..room - left].to_vec())
                        }
                    };
                    (res.map_err(|e| match e {
                        FrameError::Io { ref source } if std::error::Error::source(&e).map(|x| x.to_string()) != Some(source.to_string()) => format!("Other(Io error whose Error::source() is {:?})", std::error::Error::source(&e).map(|x| x.to_string())),
            FrameError::Io { source } if !crate::doubles::payload_intact(&source) => format!("Other(an i/o error of kind {:?} that no longer carries what the stream put into it: {:?})", source.kind(), source.get_ref().map(|x| x.to_string())),
            FrameError::Io { source } => format!("Io({:?})", source.kind()),
                        other => format!("Other({:?})", other),
                    }), held)
                });
                let fail = |rep: &mut Report, class: &str, what: String| {
                    rep.violation(MON_W, class, &sig, format!("{}: {}", sig, what), J::obj(vec![("workload", J::s("std sinks")), ("sink", J::us(sink)), ("room", J::us(room)), ("frame", J::s(format!("{:04X}:{:02X}:{}", f.0, f.1, hex(&f.2)))), ("observed", J::s(what.clone()))]));
                };
                let bounded = matches!(sink, 0 | 1 | 4);
                match r {
                    Err(p) => fail(rep, "panic", format!("panic {} at {}", p.msg, short_loc(&p.loc))),
                    Ok((res, held)) => {
                        let fits = !bounded || room >= n;
                        match (res, fits) {
                            (Ok(()), true) => {
                                if held != want {
                                    fail(rep, "incomplete_or_wrong_bytes", format!("Ok but the sink holds [{}], the line is [{}]", show_bytes(&held), show_bytes(&want)));
                                } else {
                                    rep.count("std_sink_writes_ok");
                                }
                            }
                            (Ok(()), false) => fail(rep, "sink_failure_not_surfaced", format!("a sink with room for {} of the line's {} bytes, yet write returned Ok (it holds [{}])", room, n, show_bytes(&held))),
                            (Err(e), true) => fail(rep, "error_without_sink_failure", format!("the sink has room for the whole line, yet write returned {}", e)),
                            (Err(e), false) => {
                                if !e.starts_with("Io(") {
                                    fail(rep, "failure_not_io_error", format!("a full sink surfaced as {}", e));
                                } else if !want.starts_with(&held) {
                                    fail(rep, "garbage_before_failure", format!("sink holds [{}], not a prefix of the line", show_bytes(&held)));
                                } else {
                                    rep.count("std_sink_writes_failed");
                                }
                            }
                        }
                    }
                }
            }
        }
    }
}

/// A sink and a stream that themselves talk frames while they are being used: a port object that logs every call as a frame
/// to a journal, a link that serves the device at the other end on the caller's thread (the reply is written while the
/// request's write call is still running). `Frame::write` into such a sink and `Frame::read` from such a stream must
/// behave as with any other: whole line written, next line read, nothing mixed up with the inner traffic.
struct Chatty {
    tape: Vec<u8>,
    pos: usize,
    accepted: Vec<u8>,
    journal: Vec<u8>,
    side_tape: io::Cursor<Vec<u8>>,
    side_frames_read: usize,
    side_errors: usize,
    step: usize,
}

impl Chatty {
    fn side_traffic(&mut self, n: usize) {
        let f = Frame::new(Address(0x7E00 | (n as u16 & 0xFF)), MsgType(9), Data::try_new(vec![n as u8; n % 3]).expect("<=255"));
        if f.write(&mut self.journal).is_err() {
            self.side_errors += 1;
        }
        match Frame::read(&mut self.side_tape) {
            Ok(g) if g.address() == Address(0x0042) => self.side_frames_read += 1,
            _ => self.side_errors += 1,
        }
    }
}

impl io::Write for Chatty {
    fn write(&mut self, buf: &[u8]) -> io::Result<usize> {
        self.side_traffic(buf.len());
        let n = buf.len().min(self.step);
        self.accepted.extend_from_slice(&buf[..n]);
        Ok(n)
    }
    fn flush(&mut self) -> io::Result<()> {
        Ok(())
    }
}

impl io::Read for Chatty {
    fn read(&mut self, buf: &mut [u8]) -> io::Result<usize> {
        self.side_traffic(buf.len());
        let n = buf.len().min(self.step).min(self.tape.len() - self.pos);
        buf[..n].copy_from_slice(&self.tape[self.pos..self.pos + n]);
        self.pos += n;
        Ok(n)
    }
}

fn chatty_io(rng: &mut Rng, rep: &mut Report) {
    for round in 0..24usize {
        let frames: Vec<(u16, u8, Vec<u8>)> = (0..6).map(|i| if i == 3 { (0x0003, 4, vec![0x0F]) } else { rand_frame(rng) }).collect();
        let side_line = refs::enc_crlf(0x0042, 1, &[]);
        let mut c = Chatty { tape: frames.iter().flat_map(|f| refs::enc_crlf(f.0, f.1, &f.2)).collect(), pos: 0, accepted: vec![], journal: vec![], side_tape: io::Cursor::new(side_line.repeat(20_000)), side_frames_read: 0, side_errors: 0, step: [1usize, 2, 5, 64, usize::MAX][round % 5] };
        let sig = format!("chatty|{}|step{}", frames.iter().map(|f| format!("{:04X}:{:02X}:{}", f.0, f.1, hex(&f.2))).collect::<Vec<_>>().join(","), c.step);
        rep.case(Some(fnv(sig.as_bytes())));
        let r = catch(|| {
            let mut bad: Vec<String> = vec![];
            // writes and reads take turns on the one object
            for (i, f) in frames.iter().enumerate() {
                let before = c.accepted.len();
                let fr = Frame::new(Address(f.0), MsgType(f.1), Data::try_new(f.2.clone()).expect("<=255"));
                if let Err(e) = fr.write(&mut c) {
                    bad.push(format!("write #{} failed: {:?}", i, e));
                }
                let want = refs::enc_crlf(f.0, f.1, &f.2);
                if c.accepted[before..] != want[..] {
                    bad.push(format!("write #{} put [{}] into the sink, the line is [{}]", i, show_bytes(&c.accepted[before..]), show_bytes(&want)));
                }
                match Frame::read(&mut c) {
                    Ok(g) if g.address().0 == f.0 && g.message_type().0 == f.1 && g.data().as_ref() == &f.2[..] => {}
                    other => bad.push(format!("read #{} gave {:?}, the line holds {:04X}:{:02X}:{}", i, other, f.0, f.1, hex(&f.2))),
                }
            }
            bad
        });
        let fail = |rep: &mut Report, class: &str, what: String| {
            rep.violation(MON_W, class, &sig, format!("a sink / stream that writes and reads frames of its own during every call: {}", what), J::obj(vec![("workload", J::s("chatty io")), ("observed", J::s(what.clone()))]));
        };
        match r {
            Err(p) => fail(rep, "panic", format!("panic {} at {}", p.msg, short_loc(&p.loc))),
            Ok(bad) => {
                for b in bad {
                    fail(rep, "reentrant_use_goes_wrong", b);
                }
                if c.side_errors > 0 {
                    fail(rep, "reentrant_use_goes_wrong", format!("{} of the inner writes / reads failed or gave a wrong frame", c.side_errors));
                } else if c.side_frames_read > 0 {
                    rep.count("chatty_sessions_ok");
                }
            }
        }
    }
}

/// The standard library's own readers and adaptors around a stream of k lines (+ an unterminated tail): a byte slice, a
/// cursor, buffered readers of capacity 1 / 3 / 8192 (kept for the whole stream), a chain of two halves cut at every
/// position of a line, `take(n)` with n at the end of each line. Frame i comes back on read i; where the stream is cut
/// short inside a frame the read fails; nothing panics.
fn std_readers(rng: &mut Rng, rep: &mut Report) {
    use std::io::{BufReader, Cursor, Read};
    for round in 0..12usize {
        let k = 2 + round % 4;
        let frames: Vec<(u16, u8, Vec<u8>)> = (0..k).map(|i| if round % 3 == 0 && i == 1 { (0x00FF, 0x01, rng.bytes(255)) } else { rand_frame(rng) }).collect();
        let lines: Vec<Vec<u8>> = frames.iter().map(|f| refs::enc_crlf(f.0, f.1, &f.2)).collect();
        let tape: Vec<u8> = lines.concat();
        let sig = format!("std-readers|{}", frames.iter().map(|f| format!("{:04X}:{:02X}:{}", f.0, f.1, hex(&f.2))).collect::<Vec<_>>().join(","));
        let same = |g: &Frame<'_>, f: &(u16, u8, Vec<u8>)| g.address().0 == f.0 && g.message_type().0 == f.1 && g.data().as_ref() == &f.2[..];
        // reads all k frames and then expects a failing read
        let drain = |r: &mut dyn Read, upto: usize, what: &str| -> Vec<String> {
            let mut bad = vec![];
            let mut r = r;
            for (i, f) in frames.iter().enumerate().take(upto) {
                match Frame::read(&mut r) {
                    Ok(g) if same(&g, f) => {}
                    other => bad.push(format!("{}: read #{} gave {:?}", what, i, other.map_err(|e| e.to_string()))),
                }
            }
            if let Ok(g) = Frame::read(&mut r) {
                bad.push(format!("{}: read #{} past the last complete line gave Ok({:?})", what, upto, g));
            }
            bad
        };
        let r = catch(|| {
            let mut bad: Vec<String> = vec![];
            bad.extend(drain(&mut &tape[..], k, "byte slice"));
            bad.extend(drain(&mut Cursor::new(tape.clone()), k, "cursor over a vector"));
            bad.extend(drain(&mut Cursor::new(&tape[..]), k, "cursor over a slice"));
            for cap in [1usize, 3, 8192] {
                bad.extend(drain(&mut BufReader::with_capacity(cap, &tape[..]), k, "buffered reader"));
            }
            // a chain of two halves, cut at every position of the second line (and at both its ends)
            let (a, b) = (lines[0].len(), lines[0].len() + lines[1].len());
            let cuts: Vec<usize> = if b - a > 100 { vec![a, a + 1, a + 9, (a + b) / 2, b - 2, b - 1, b] } else { (a..=b).collect() };
            for cut in cuts {
                bad.extend(drain(&mut (&tape[..cut]).chain(&tape[cut..]), k, "chain"));
                bad.extend(drain(&mut (&tape[..cut]).chain(&b""[..]).chain(&tape[cut..]), k, "chain with an empty middle"));
            }
            // take(n): the stream ends after line j (all of it, or all but its last byte / last two bytes)
            let mut end = 0usize;
            for j in 0..k {
                end += lines[j].len();
                bad.extend(drain(&mut (&tape[..]).take(end as u64), j + 1, "take up to a line end"));
                // without its CR LF the last line is still a whole frame (the terminator is optional at the end of a stream);
                // without its last checksum digit it is not
                bad.extend(drain(&mut (&tape[..]).take(end as u64 - 2), j + 1, "take up to a line's CR"));
                bad.extend(drain(&mut (&tape[..]).take(end as u64 - 3), j, "take up to a line's last digit"));
            }
            bad
        });
        rep.case(Some(fnv(sig.as_bytes())));
        match r {
            Err(p) => rep.violation(MON_R, "panic", &sig, format!("standard-library readers around a stream of {} lines: panic {} at {}", k, p.msg, short_loc(&p.loc)), J::obj(vec![("workload", J::s("std readers"))])),
            Ok(bad) => {
                if bad.is_empty() {
                    rep.count("std_reader_rounds_ok");
                }
                for b in bad.into_iter().take(3) {
                    rep.violation(MON_R, "wrong_result", &sig, format!("standard-library readers around a stream of {} lines: {}", k, b), J::obj(vec![("workload", J::s("std readers")), ("observed", J::s(b.clone()))]));
                }
            }
        }
    }
}

/// A caller-supplied sink or stream that PANICS in the middle of a call (the application catches the panic and goes on):
/// the next write on that thread — to another sink, and to the same one — still delivers exactly its own line, and the
/// next read still returns the next line of its stream.
struct Bomb {
    held: Vec<u8>,
    tape: Vec<u8>,
    pos: usize,
    calls: usize,
    explode_at: usize,
    step: usize,
}

impl io::Write for Bomb {
    fn write(&mut self, buf: &[u8]) -> io::Result<usize> {
        self.calls += 1;
        if self.calls == self.explode_at {
            panic!("the application's sink panicked");
        }
        let n = buf.len().min(self.step);
        self.held.extend_from_slice(&buf[..n]);
        Ok(n)
    }
    fn flush(&mut self) -> io::Result<()> {
        Ok(())
    }
}

impl io::Read for Bomb {
    fn read(&mut self, buf: &mut [u8]) -> io::Result<usize> {
        self.calls += 1;
        if self.calls == self.explode_at {
            panic!("the application's stream panicked");
        }
        let n = buf.len().min(self.step).min(self.tape.len() - self.pos);
        buf[..n].copy_from_slice(&self.tape[self.pos..self.pos + n]);
        self.pos += n;
        Ok(n)
    }
}

fn panicking_io(rng: &mut Rng, rep: &mut Report) {
    for round in 0..40usize {
        let a = if round % 4 == 0 { (0x1234u16, 0xA5u8, rng.bytes(255)) } else { rand_frame(rng) };
        let b = if round % 5 == 0 { (0x0003u16, 0x04u8, vec![0x0F]) } else { rand_frame(rng) };
        let (line_a, line_b) = (refs::enc_crlf(a.0, a.1, &a.2), refs::enc_crlf(b.0, b.1, &b.2));
        let step = [1usize, 3, 64, usize::MAX][round % 4];
        // (a sink that takes everything offered sees one call per line: it can only go off at the first)
        let explode_at = if step <= 3 { 1 + round % 3 } else { 1 };
        let sig = format!("panicking-io|{:04X}:{:02X}:{}|{:04X}:{:02X}:{}|step{}|at{}", a.0, a.1, hex(&a.2), b.0, b.1, hex(&b.2), step, explode_at);
        rep.case(Some(fnv(sig.as_bytes())));
        let fa = Frame::new(Address(a.0), MsgType(a.1), Data::try_new(a.2.clone()).expect("<=255"));
        let fb = Frame::new(Address(b.0), MsgType(b.1), Data::try_new(b.2.clone()).expect("<=255"));
        let mut bad: Vec<String> = vec![];
        // --- writes
        let mut bomb = Bomb { held: vec![], tape: vec![], pos: 0, calls: 0, explode_at, step };
        let exploded = catch(|| fa.write(&mut bomb).is_ok()).is_err();
        bomb.explode_at = 0; // it goes off once
        let mut fresh: Vec<u8> = vec![];
        match catch(|| fb.write(&mut fresh).is_ok()) {
            Ok(true) if fresh == line_b => {}
            other => bad.push(format!("after a sink panicked during a write, the next write (to a plain vector) gave {:?} and put [{}] there instead of [{}]", other.map_err(|p| p.msg), show_bytes(&fresh), show_bytes(&line_b))),
        }
        let before = bomb.held.len();
        match catch(|| fb.write(&mut bomb).is_ok()) {
            Ok(true) if bomb.held[before..] == line_b[..] => {}
            other => bad.push(format!("after a sink panicked during a write, the next write to the same sink gave {:?} and put [{}] there instead of [{}]", other.map_err(|p| p.msg), show_bytes(&bomb.held[before..]), show_bytes(&line_b))),
        }
        // --- reads
        let mut tape = line_a.clone();
        tape.extend_from_slice(&line_b);
        let mut bomb_r = Bomb { held: vec![], tape: tape.clone(), pos: 0, calls: 0, explode_at: explode_at + 1, step };
        let exploded_r = catch(|| Frame::read(&mut bomb_r).is_ok()).is_err();
        bomb_r.explode_at = 0;
        match catch(|| Frame::read(&mut &line_b[..]).map(|g| g == fb).map_err(|e| e.to_string())) {
            Ok(Ok(true)) => {}
            other => bad.push(format!("after a stream panicked during a read, the next read (from a plain slice holding one line) gave {:?}", other.map_err(|p| p.msg))),
        }
        // the same stream goes on where it stood: what is left of line A is one (probably undecodable) line, then line B
        if exploded_r {
            let _ = catch(|| Frame::read(&mut bomb_r).is_ok());
            let at_line_b = bomb_r.pos == line_a.len();
            match catch(|| Frame::read(&mut bomb_r).map(|g| g == fb).map_err(|e| e.to_string())) {
                Ok(Ok(true)) => {}
                other if at_line_b => bad.push(format!("after a stream panicked during a read and the rest of that line was read off, the next read gave {:?} instead of the next line's frame", other.map_err(|p| p.msg))),
                _ => {}
            }
        }
        if exploded && exploded_r {
            rep.count("sinks_and_streams_that_panicked");
        }
        for b in bad {
            rep.violation(MON_W, "state_left_behind_by_a_panicking_sink_or_stream", &sig, b.clone(), J::obj(vec![("workload", J::s("panicking io")), ("observed", J::s(b))]));
        }
    }
}

/// A frame is read (from a line with or without its CR LF, the latter at the end of a stream), and right afterwards a frame
/// whose data is one or two bytes shorter or longer, or of the same length, is written on the same thread: what reaches
/// the sink is that frame's encoding with CR LF, whatever the line just read looked like.
fn read_then_write_neighbours(rng: &mut Rng, rep: &mut Report) {
    for d in 0..=255usize {
        for with_crlf in [false, true] {
            let read_data = rng.bytes(d);
            let mut line = refs::enc(0x0102, 0x30, &read_data);
            if with_crlf {
                line.extend_from_slice(b"\r\n");
            }
            for delta in [-2i64, -1, 0, 1, 2] {
                let n = d as i64 + delta;
                if !(0..=255).contains(&n) {
                    continue;
                }
                let out_data = rng.bytes(n as usize);
                let sig = format!("read-then-write|{}|{}|{}", d, with_crlf, delta);
                rep.case(Some(fnv(sig.as_bytes())));
                let r = catch(|| {
                    let mut stream = &line[..];
                    let got = Frame::read(&mut stream).map_err(|e| e.to_string())?;
                    let ok = got.data().as_ref() == &read_data[..];
                    let mut sink: Vec<u8> = vec![];
                    Frame::new(Address(0x0304), MsgType(0x31), Data::try_new(out_data.clone()).expect("<=255")).write(&mut sink).map_err(|e| e.to_string())?;
                    Ok::<(bool, Vec<u8>), String>((ok, sink))
                });
                let want = refs::enc_crlf(0x0304, 0x31, &out_data);
                let what = match r {
                    Err(p) => Some(format!("panic {} at {}", p.msg, short_loc(&p.loc))),
                    Ok(Err(e)) => Some(format!("failed: {}", e)),
                    Ok(Ok((false, _))) => Some("the frame read does not carry the line's data".into()),
                    Ok(Ok((_, sink))) if sink != want => Some(format!("the sink holds [{}], the frame's encoding is [{}]", show_bytes(&sink), show_bytes(&want))),
                    Ok(Ok(_)) => None,
                };
                match what {
                    None => rep.count("writes_right_after_a_read_of_a_neighbouring_length"),
                    Some(w) => rep.violation(MON_W, "write_after_read_not_the_frames_encoding", &sig, format!("a frame of {} data bytes read from a line {} CR LF, then a frame of {} data bytes written on the same thread: {}", d, if with_crlf { "with" } else { "without" }, n, w), J::obj(vec![("workload", J::s("read then write")), ("read_line", J::hex(&line)), ("written_data", J::hex(&out_data)), ("observed", J::s(w.clone()))])),
                }
            }
        }
    }
}

/// A relay: every frame read from one stream is at once written to a sink on the same thread. Lines arrive in every
/// spelling the decoder accepts (upper case, lower case, mixed; CR LF, or no terminator at the end of the stream); what
/// goes out is the frame's own encoding — upper case, CR LF — whatever the line it came from looked like.
fn relay_io(rng: &mut Rng, rep: &mut Report) {
    for round in 0..60usize {
        let f = if round % 6 == 0 { (0x0003u16, 0x04u8, vec![0x0F]) } else if round % 6 == 1 { (0xABCD, 0xEF, rng.bytes(255)) } else { rand_frame(rng) };
        let canonical = refs::enc_crlf(f.0, f.1, &f.2);
        let body = refs::enc(f.0, f.1, &f.2);
        let spelled: Vec<u8> = match round % 3 {
            0 => body.to_ascii_lowercase(),
            1 => body.iter().enumerate().map(|(i, b)| if i % 2 == 0 { b.to_ascii_lowercase() } else { *b }).collect(),
            _ => body.clone(),
        };
        for with_crlf in [true, false] {
            let mut line = spelled.clone();
            if with_crlf {
                line.extend_from_slice(b"\r\n");
            }
            let sig = format!("relay|{}|{}", show_bytes(&line[..line.len().min(40)]), with_crlf);
            rep.case(Some(fnv(&line) ^ 0x7E1A));
            let r = catch(|| {
                let mut stream = &line[..];
                let got = Frame::read(&mut stream).map_err(|e| e.to_string())?;
                let mut sink: Vec<u8> = vec![];
                // written twice: as the object that was read, and as an equal frame built from scratch
                got.write(&mut sink).map_err(|e| e.to_string())?;
                let rebuilt = Frame::new(Address(f.0), MsgType(f.1), Data::try_new(f.2.clone()).expect("<=255"));
                rebuilt.write(&mut sink).map_err(|e| e.to_string())?;
                Ok::<(bool, Vec<u8>), String>((got == rebuilt, sink))
            });
            let want = [canonical.clone(), canonical.clone()].concat();
            let what = match r {
                Err(p) => Some(format!("panic {} at {}", p.msg, short_loc(&p.loc))),
                Ok(Err(e)) => Some(format!("failed: {}", e)),
                Ok(Ok((same, _))) if !same => Some("the frame read is not the frame the line spells".into()),
                Ok(Ok((_, sink))) if sink != want => Some(format!("the sink holds [{}], two encodings of the frame are [{}]", show_bytes(&sink), show_bytes(&want))),
                Ok(Ok(_)) => None,
            };
            match what {
                None => rep.count("frames_relayed"),
                Some(w) => rep.violation(MON_W, "relayed_frame_not_written_as_its_encoding", &sig, format!("a frame read from the line [{}] and written out again on the same thread: {}", show_bytes(&line), w), J::obj(vec![("workload", J::s("relay")), ("line", J::hex(&line)), ("observed", J::s(w.clone()))])),
            }
        }
    }
}

fn exhaustive_write(rep: &mut Report) {
    let frames = [(0x0003u16, 0x02u8, vec![0xFFu8]), (0xABCD, 0x00, (0..16).collect::<Vec<u8>>()), (0, 1, vec![])];
    for f in frames {
        let total = refs::enc_crlf(f.0, f.1, &f.2).len();
        for size in [1usize, 2, 3, 7, usize::MAX] {
            run_write_case(&WriteCase { frame: f.clone(), script: vec![], default: WriteAct::Accept(size), label: "fixed_chunk_size" }, rep);
            let calls = if size == usize::MAX { 1 } else { total.div_ceil(size) };
            for j in 0..=calls {
                for (act, label) in [
                    (WriteAct::Fail(io::ErrorKind::Other), "hard_error_each_call"),
                    (WriteAct::Fail(io::ErrorKind::BrokenPipe), "hard_error_each_call"),
                    (WriteAct::Fail(io::ErrorKind::UnexpectedEof), "hard_error_each_call"),
                    (WriteAct::Fail(io::ErrorKind::WriteZero), "hard_error_each_call"),
                    (WriteAct::Zero, "zero_each_call"),
                    (WriteAct::Interrupted, "interrupted_each_call"),
                ] {
                    let mut script = vec![WriteAct::Accept(size); j];
                    script.push(act);
                    run_write_case(&WriteCase { frame: f.clone(), script, default: WriteAct::Accept(size), label }, rep);
                }
            }
        }
    }
    rep.count("exhaustive_write_sets_done");
}

fn random_write_case(rng: &mut Rng, rep: &mut Report) {
    let (a, t, mut d) = rand_frame(rng);
    if rng.chance(1, 10) {
        d = rng.bytes(255);
    }
    let n = 1 + rng.usize(40);
    let mut script = vec![];
    for _ in 0..n {
        script.push(match rng.below(12) {
            0 => WriteAct::Interrupted,
            1 if rng.chance(1, 3) => WriteAct::Zero,
            2 if rng.chance(1, 3) => WriteAct::Fail(*rng.pick(&crate::doubles::HARD_KINDS)),
            _ => WriteAct::Accept(1 + rng.usize(9)),
        });
    }
    run_write_case(&WriteCase { frame: (a, t, d), script, default: WriteAct::Accept(1 + rng.usize(600)), label: "random_script" }, rep);
}

/// Several frames written one after the other to ONE sink (some of the writes failing part-way): every write is judged
/// on the bytes the sink accepted during that call — complete encoding on Ok, a prefix of it on Err — so nothing a
/// write leaves behind (a staging buffer, a remembered position) may show up in the next one.
fn random_write_session(rng: &mut Rng, rep: &mut Report) {
    let k = 2 + rng.usize(4);
    let frames: Vec<(u16, u8, Vec<u8>)> = (0..k)
        .map(|_| {
            let (a, t, mut d) = rand_frame(rng);
            if rng.chance(1, 12) {
                d = rng.bytes(255);
            }
            (a, t, d)
        })
        .collect();
    let mut script = vec![];
    for _ in 0..rng.usize(60) {
        script.push(match rng.below(14) {
            0 => WriteAct::Interrupted,
            1 if rng.chance(1, 2) => WriteAct::Zero,
            2 if rng.chance(1, 2) => WriteAct::Fail(*rng.pick(&crate::doubles::HARD_KINDS)),
            _ => WriteAct::Accept(1 + rng.usize(40)),
        });
    }
    let default = WriteAct::Accept(1 + rng.usize(600));
    write_session(frames, script, default, rep);
}

/// Sessions of frames that are each other's near twins — same address and type with no data / one 00 byte / one other
/// byte / the same byte followed by more, the same data under a neighbouring address or type — written back to back in
/// every order: whatever a write remembers of the previous frame must not leak into the next one.
fn twin_write_sessions(rng: &mut Rng, rep: &mut Report) {
    for (a, t, b) in [(0x0003u16, 0x04u8, 0x00u8), (0x0010, 0x00, 0x00), (0x0000, 0x00, 0x00), (0xFFFF, 0x02, 0xFF), (0x0003, 0x03, 0xA2), (0x0100, 0x01, 0x01)] {
        let family: Vec<(u16, u8, Vec<u8>)> = vec![
            (a, t, vec![]),
            (a, t, vec![0x00]),
            (a, t, vec![b]),
            (a, t, vec![b.wrapping_add(1)]),
            (a, t, vec![b, 0x00]),
            (a, t, vec![b, b]),
            (a, t, vec![b; 16]),
            (a, t, vec![b; 17]),
            (a, t.wrapping_add(1), vec![b]),
            (a, t ^ 0x80, vec![b]),
            (a.wrapping_add(1), t, vec![b]),
            (a ^ 0x0100, t, vec![b]),
            (a ^ 0x8000, t, vec![b]),
            (a.rotate_left(8), t, vec![b]),
            (u16::from(t) << 8 | u16::from(b), a as u8, vec![(a >> 8) as u8]),
        ];
        for i in 0..family.len() {
            for j in 0..family.len() {
                if i == j {
                    continue;
                }
                // x, y, x again, y again: a twin directly after its twin, and after its twin's twin
                let frames = vec![family[i].clone(), family[j].clone(), family[i].clone(), family[j].clone()];
                let default = if (i + j) % 3 == 0 { WriteAct::Accept(1 + rng.usize(7)) } else { WriteAct::Accept(usize::MAX) };
                write_session(frames, vec![], default, rep);
                rep.count("twin_write_sessions");
            }
        }
    }
}

fn write_session(frames: Vec<(u16, u8, Vec<u8>)>, script: Vec<WriteAct>, default: WriteAct, rep: &mut Report) {
    let k = frames.len();
    let sig = format!("session|{}|{:?}|{:?}", frames.iter().map(|f| format!("{:04X}:{:02X}:{}", f.0, f.1, hex(&f.2))).collect::<Vec<_>>().join(","), script, default);
    rep.case(Some(fnv(sig.as_bytes())));
    rep.count("write_sessions");
    let gather = fnv(sig.as_bytes()) % 2 == 1;
    let mut w = FragWriter::new(script.clone(), default).gathering(gather);
    let r = catch(|| {
        let mut marks = vec![];
        for f in &frames {
            let before = (w.accepted.len(), w.log.len());
            let fr = Frame::new(Address(f.0), MsgType(f.1), Data::try_new(f.2.clone()).expect("<=255"));
            let ok = fr.write(&mut w).is_ok();
            marks.push((before, ok));
        }
        marks
    });
    let fail = |rep: &mut Report, class: &str, what: String| {
        rep.violation(MON_W, class, &sig, format!("{} frames written to one sink: {}", k, what), J::obj(vec![("workload", J::s("write session")), ("frames", J::Arr(frames.iter().map(|f| J::s(format!("{:04X}:{:02X}:{}", f.0, f.1, hex(&f.2)))).collect())), ("script", J::s(format!("{:?} then {:?}", script, default))), ("observed", J::s(what.clone()))]));
    };
    let marks = match r {
        Ok(m) => m,
        Err(p) => {
            fail(rep, "panic", format!("panic {} at {}", p.msg, short_loc(&p.loc)));
            return;
        }
    };
    for (i, ((a0, l0), ok)) in marks.iter().enumerate() {
        let (a1, l1) = if i + 1 < k { marks[i + 1].0 } else { (w.accepted.len(), w.log.len()) };
        let got = &w.accepted[*a0..a1];
        let want = refs::enc_crlf(frames[i].0, frames[i].1, &frames[i].2);
        let sink_failed = w.log[*l0..l1].iter().any(|e| matches!(e.returned, Err(kind) if kind != io::ErrorKind::Interrupted) || (e.returned == Ok(0) && e.offered > 0));
        if *ok {
            if sink_failed {
                fail(rep, "sink_failure_not_surfaced", format!("write #{} returned Ok although the sink failed during it", i));
            } else if got != &want[..] {
                fail(rep, "incomplete_or_wrong_bytes", format!("write #{} returned Ok; during it the sink accepted [{}], the frame encodes as [{}]", i, show_bytes(got), show_bytes(&want)));
            } else {
                rep.count("session_writes_ok");
            }
        } else {
            if !sink_failed {
                fail(rep, "error_without_sink_failure", format!("write #{} failed although the sink never failed during it", i));
            } else if !want.starts_with(got) {
                fail(rep, "garbage_before_failure", format!("write #{} failed; during it the sink accepted [{}], not a prefix of [{}]", i, show_bytes(got), show_bytes(&want)));
            } else {
                rep.count("session_writes_failed");
                if i + 1 < k {
                    rep.count("session_writes_after_a_failed_one");
                }
            }
        }
    }
}

/// `n` frames of 255 data bytes (523 bytes each on the wire) written to a sink that only counts.
fn volume_of_writes(n: usize, shard: usize, rep: &mut Report) {
    struct Counting(u64);
    impl std::io::Write for Counting {
        fn write(&mut self, buf: &[u8]) -> std::io::Result<usize> {
            self.0 += buf.len() as u64;
            Ok(buf.len())
        }
        fn flush(&mut self) -> std::io::Result<()> {
            Ok(())
        }
    }
    let data: Vec<u8> = (0..255usize).map(|i| (i * 7 + shard) as u8).collect();
    let frame = Frame::new(Address(shard as u16), MsgType(0x7D), Data::try_new(data).expect("255"));
    let mut sink = Counting(0);
    let mut trouble: Option<String> = None;
    for i in 0..n {
        let before = sink.0;
        match catch(std::panic::AssertUnwindSafe(|| frame.write(&mut sink).map_err(|e| e.to_string()))) {
            Ok(Ok(())) if sink.0 - before == 523 => {}
            Ok(Ok(())) => trouble = Some(format!("write #{} of the shard delivered {} bytes, the line has 523", i, sink.0 - before)),
            Ok(Err(e)) => trouble = Some(format!("write #{} of the shard failed: {}", i, e)),
            Err(p) => trouble = Some(format!("write #{} of the shard panicked: {} at {}", i, p.msg, short_loc(&p.loc))),
        }
        if trouble.is_some() {
            break;
        }
    }
    rep.add("bytes_written_in_the_volume_run", sink.0);
    if let Some(t) = trouble {
        rep.violation(MON_W, "write_goes_wrong_after_a_large_volume", "volume", format!("more than 2^32 bytes through Frame::write in one process (64 shards x {} frames of 523 bytes): {}", n, t), J::obj(vec![("workload", J::s("volume of writes")), ("shard", J::us(shard)), ("observed", J::s(t.clone()))]));
    }
}

/// One reader, one sink, one thread, and far more frames than any counter narrower than 32 bits can count: line i of the
/// stream must come back as frame i, with the stream exactly at the end of line i, for all 70 000 (more than 2^16) lines;
/// and the i-th write must put exactly the encoding of frame i into the sink.
fn marathon(rep: &mut Report) {
    const N: usize = 70_000;
    let frame = |i: usize| -> (u16, u8, Vec<u8>) { (i as u16, (i >> 16) as u8 ^ (i as u8), (0..(i % 4)).map(|k| (i + k) as u8).collect()) };
    let mut tape = vec![];
    let mut ends = Vec::with_capacity(N);
    for i in 0..N {
        let (a, t, d) = frame(i);
        tape.extend(refs::enc_crlf(a, t, &d));
        ends.push(tape.len());
    }
    tape.extend_from_slice(b":trailing");
    let faults = vec![(ends[255] + 3, ReadFault::Interrupted, 2), (ends[256], ReadFault::Interrupted, 1), (ends[65_535] + 1, ReadFault::Interrupted, 3), (ends[65_536], ReadFault::Interrupted, 1)];
    let mut reader = FragReader::new(tape.clone(), vec![], faults);
    rep.case(Some(0xC15_0001));
    for i in 0..N {
        if i % 256 == 0 && crate::util::soft_deadline_passed() {
            rep.count("loops_cut_short_at_the_soft_deadline");
            break;
        }
        let r = catch(|| Frame::read(&mut reader));
        let got = match r {
            Ok(res) => summarize(&res),
            Err(p) => format!("panic {} at {}", p.msg, short_loc(&p.loc)),
        };
        let (a, t, d) = frame(i);
        let want = format!("Ok({:04X}:{:02X}:{})", a, t, hex(&d));
        if got != want || reader.pos != ends[i] {
            rep.violation(MON_R, "long_stream", &format!("marathon-read-{}", i), format!("line #{} of a stream of {} lines read with one reader: returned {} with the stream at {}, expected {} at {}", i, N, got, reader.pos, want, ends[i]), J::obj(vec![("workload", J::s("marathon read")), ("line", J::us(i)), ("observed", J::s(got.clone())), ("expected", J::s(want.clone()))]));
            break;
        }
        reader.log.clear();
        rep.count("marathon_lines_read");
    }
    let mut w = FragWriter::new(vec![], WriteAct::Accept(usize::MAX));
    rep.case(Some(0xC15_0002));
    for i in 0..N {
        if i % 256 == 0 && crate::util::soft_deadline_passed() {
            rep.count("loops_cut_short_at_the_soft_deadline");
            break;
        }
        let (a, t, d) = frame(i);
        let before = w.accepted.len();
        let r = catch(|| Frame::new(Address(a), MsgType(t), Data::try_new(d.clone()).expect("<=255")).write(&mut w).is_ok());
        let want = refs::enc_crlf(a, t, &d);
        let ok = matches!(r, Ok(true)) && w.accepted[before..] == want[..];
        if !ok {
            rep.violation(MON_W, "long_stream", &format!("marathon-write-{}", i), format!("frame #{} of {} written to one sink: result {:?}, the sink received [{}], expected [{}]", i, N, r.map_err(|p| p.msg), show_bytes(&w.accepted[before..]), show_bytes(&want)), J::obj(vec![("workload", J::s("marathon write")), ("frame", J::us(i))]));
            break;
        }
        w.log.clear();
        if w.accepted.len() > 1 << 20 {
            w.accepted.clear();
        }
        rep.count("marathon_frames_written");
    }
}

pub fn run(ctx: &Ctx) -> Outcome {
    let n_rand = ctx.size(1_200_000, 15_000_000);
    let n_write = ctx.size(400_000, 5_000_000);
    let shards = 64usize;
    let mut report = run_sharded(ctx, 3 + 1 + shards, |shard, rep| {
        if shard < 3 {
            exhaustive_read(shard, rep);
        } else if shard == 3 {
            exhaustive_write(rep);
            std_sinks(rep);
            chatty_io(&mut ctx.rng("chatty", 0), rep);
            std_readers(&mut ctx.rng("std_readers", 0), rep);
            panicking_io(&mut ctx.rng("panicking", 0), rep);
            relay_io(&mut ctx.rng("relay", 0), rep);
            read_then_write_neighbours(&mut ctx.rng("read-then-write", 0), rep);
            twin_write_sessions(&mut ctx.rng("twins", 0), rep);
            marathon(rep);
        } else {
            let mut rng = ctx.rng("rand", (shard - 4) as u64);
            if !ctx.quick() {
                // volume (thorough tier): the 64 shards together push more than 2^32 bytes through Frame::write in this one
                // process — whatever the library may tally per process, per thread or per sink, the last frame is written
                // like the first
                volume_of_writes(135_000, shard, rep);
            }
            for _ in 0..n_rand / shards as u64 {
                random_read_case(&mut rng, rep);
            }
            for _ in 0..n_write / shards as u64 {
                random_write_case(&mut rng, rep);
            }
            for _ in 0..n_write / 4 / shards as u64 {
                random_write_session(&mut rng, rep);
            }
        }
    });
    {
        // the same calls from a thread-local destructor while a thread exits (see exitprobe.rs)
        let mut at_exit = Report::new();
        crate::exitprobe::check("codec", MON_W, &mut at_exit);
        crate::exitprobe::check_migration("codec", MON_W, &mut at_exit);
        report.merge(at_exit);
    }
    let floors = vec![
        floor("exhaustive read sets (every composition, every fault position)", report.get("exhaustive_read_sets_done") == 3, report.get("exhaustive_read_sets_done")),
        floor("compositions of a 14-byte stream all enumerated (8192)", report.get("compositions_enumerated") >= 8192, report.get("compositions_enumerated")),
        floor("exhaustive write set", report.get("exhaustive_write_sets_done") == 1, report.get("exhaustive_write_sets_done")),
        floor("the same frame on consecutive lines; wrong terminators made of CR / blank / tab", report.get("lines/same_frame_as_previous_line") > 1000 && report.get("lines/doubled_cr") > 100 && report.get("lines/blank_near_terminator") > 100, report.get("lines/same_frame_as_previous_line")),
        floor("good frames after exactly k undecodable lines / k failing reads (k = 1..257)", report.get("read_cases/k_undecodable_lines_then_good_ones") == 40 && report.get("read_cases/k_failing_reads_then_good_ones") == 8, report.get("read_cases/k_undecodable_lines_then_good_ones")),
        floor("junk lines of every length 3 ..= 4400 and around every multiple of 523 up to 40 x, each followed by two good frames", report.get("read_cases/junk_line_of_every_length") == 4398 + 96, report.get("read_cases/junk_line_of_every_length")),
        floor("lines of 524 .. 70 000 bytes without a line feed, then good frames; noise in front of a frame on the same line", report.get("read_cases/overlong_line_then_good_frames") == 60 && report.get("lines/leading_noise") > 100, report.get("lines/leading_noise")),
        floor("junk lines of 515 .. 530 bytes (around the longest frame's 523), then good frames", report.get("read_cases/junk_line_about_as_long_as_the_longest_frame") == 64, report.get("read_cases/junk_line_about_as_long_as_the_longest_frame")),
        floor("lines whose length field alone is wrong (off by 1 .. 255) with a checksum that is right for the bytes as sent", report.get("lines/wrong_length_field_right_checksum") > 1000, report.get("lines/wrong_length_field_right_checksum")),
        floor("300 to 70 000 interrupted reads during one line", report.get("read_cases/thousands_of_interrupts_in_one_line") == 12, report.get("read_cases/thousands_of_interrupts_in_one_line")),
        floor("maximum-length lines read through 1..6 interrupted reads", report.get("read_cases/maximum_length_frames_interrupted") == 84, report.get("read_cases/maximum_length_frames_interrupted")),
        floor("lines of 2^20 - 3 .. 2^22 + 1 bytes without a line feed (8 lengths), each followed by two good frames", report.get("read_cases/overlong_line_of_a_mebibyte_or_more") == 8, report.get("read_cases/overlong_line_of_a_mebibyte_or_more")),
        floor("70 000 lines through one reader and 70 000 frames into one sink", report.get("marathon_lines_read") == 70_000 && report.get("marathon_frames_written") == 70_000, format!("{} / {}", report.get("marathon_lines_read"), report.get("marathon_frames_written"))),
        floor("multi-frame streams", report.get("multi_frame_streams") > 0, report.get("multi_frame_streams")),
        floor("read faults of each kind fired", ["faults_fired/interrupted", "faults_fired/hard_error", "faults_fired/eof"].iter().all(|k| report.get(k) > 0), report.get("faults_fired/hard_error")),
        floor("frames read successfully", report.get("frames_read_ok") > 1000, report.get("frames_read_ok")),
        floor("reads hitting end of stream", report.get("reads_hitting_end_of_stream") > 0, report.get("reads_hitting_end_of_stream")),
        floor("short writes and write interrupts observed", report.get("short_writes_observed") > 0 && report.get("write_interrupts_fired") > 0, report.get("short_writes_observed")),
        floor("several frames to one sink: complete writes, failed writes, and writes after a failed one", report.get("session_writes_ok") > 1000 && report.get("session_writes_failed") > 100 && report.get("session_writes_after_a_failed_one") > 100, format!("{} ok, {} failed, {} after a failed one", report.get("session_writes_ok"), report.get("session_writes_failed"), report.get("session_writes_after_a_failed_one"))),
        floor("near-twin frames written back to back to one sink (no data / 00 / one byte / longer, neighbouring address or type), every ordered pair", report.get("twin_write_sessions") == 6 * 15 * 14, report.get("twin_write_sessions")),
        floor("the standard library's sinks (slice, cursors, vector, buffered writer) with room for every number of bytes up to the line and two more", report.get("std_sink_writes_ok") > 100 && report.get("std_sink_writes_failed") > 100, format!("{} ok, {} failed", report.get("std_sink_writes_ok"), report.get("std_sink_writes_failed"))),
        floor("sinks and streams that write and read frames of their own during every call", report.get("chatty_sessions_ok") >= 20, report.get("chatty_sessions_ok")),
        floor("the standard library's readers and adaptors (slice, cursors, buffered readers, chains cut at every position, take) around streams of 2..5 lines", report.get("std_reader_rounds_ok") == 12, report.get("std_reader_rounds_ok")),
        floor("sinks and streams that panic in the middle of a call, then ordinary writes and reads on the same thread", report.get("sinks_and_streams_that_panicked") >= 30, report.get("sinks_and_streams_that_panicked")),
        floor("a frame of every data length read (line with and without CR LF), then a frame one or two bytes shorter / longer / as long written on the same thread", report.get("writes_right_after_a_read_of_a_neighbouring_length") == 2 * (256 * 5 - 6), report.get("writes_right_after_a_read_of_a_neighbouring_length")),
        floor("thorough tier: more than 2^32 bytes through Frame::write in one process", ctx.quick() || report.get("bytes_written_in_the_volume_run") > (1u64 << 32), report.get("bytes_written_in_the_volume_run")),
        floor("frames read from lines in every accepted spelling and written out again at once on the same thread", report.get("frames_relayed") == 120, report.get("frames_relayed")),
        floor("gathering sinks and first-slice-only sinks", report.get("sinks/gathering") > 1000 && report.get("sinks/first_slice_only") > 1000, report.get("sinks/gathering")),
        floor("write failures surfaced and complete writes both observed", report.get("write_failures_surfaced") > 0 && report.get("writes_ok_complete") > 0, report.get("write_failures_surfaced")),
    ];
    let sizes: Vec<J> = {
        let mut v: Vec<u64> = report.sets.get("request_sizes").map(|s| s.iter().copied().collect()).unwrap_or_default();
        v.sort_unstable();
        v.into_iter().map(|x| J::Int(x as i128)).collect()
    };
    Outcome {
        report,
        level: "fault_enumeration",
        rule: "read: streams of 1..4 lines (valid, bare-LF, doubled CR, blanks around the terminator, empty, garbage, lower-case, bad checksum, unterminated tail; a third of the lines repeat the previous line's frame in another spelling) + trailing bytes through a position-scripted reader — EVERY composition of three short streams into deliveries (8192 for the 14-byte one), an interrupt / hard error / premature EOF at EVERY stream position, plus seeded random fragmentations and fault subsets; write: every chunk size in {1,2,3,7,all} with a hard error / Ok(0) / interrupt at EVERY call index, plus random scripts, and sessions of 2..5 frames written to one sink with faults in between (each write judged on the bytes accepted during it); distinct by (tape, boundaries, faults) hash; all non-trivial".into(),
        exhaustive: false,
        floors,
        assumptions: vec![
            "the reader double's behaviour depends only on the stream position, so the oracle is independent of how the code sizes its requests; it always offers as many bytes as requested".into(),
            "expected result of a read = Frame::from_bytes of exactly the bytes of the line (C03 checks from_bytes itself)".into(),
        ],
        extra: vec![("read_request_sizes_seen".into(), J::Arr(sizes))],
    }
}
