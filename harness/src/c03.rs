//! C03 — the frame decoder is total, strict and agrees with an independent Intel-HEX parser.

use flipdot_core::{Frame, FrameError};

use crate::refs::{self, Dec};
use crate::util::{self, Ctx, J, Outcome, Report, Rng, catch, floor, fnv, hex, run_sharded, short_loc, show_bytes};

const MON: &str = "decoder_vs_reference";

const ALPHA13: [u8; 13] = [b':', b'0', b'9', b'A', b'F', b'a', b'f', b'G', b'\r', b'\n', b' ', 0x00, 0xFF];
const ALPHA5: [u8; 5] = [b':', b'0', b'F', b'\r', b'\n'];

/// What the library returned, reduced to comparable data.
#[derive(Debug, PartialEq, Eq)]
enum Got {
    Ok { addr: u16, ty: u8, data: Vec<u8>, reenc: Vec<u8> },
    Invalid { data_is_input: bool },
    Mismatch { data_is_input: bool, expected: usize, actual: usize },
    Checksum { data_is_input: bool, expected: u8, actual: u8 },
    Other(String),
}

/// The oracle for one byte string.
pub fn check_string(input: &[u8], workload: &'static str, rep: &mut Report) {
    // WHERE the bytes lie in memory is not part of the string: longer strings are decoded from a slice that starts at an odd
    // (1..7 bytes past an 8-aligned) address — the middle of a receive buffer — instead of the start of an allocation
    let shifted: Vec<u8>;
    let input: &[u8] = if input.len() >= 24 && fnv(input) % 3 == 0 {
        let mut buf = vec![0xA5u8; input.len() + 16];
        let base = buf.as_ptr() as usize;
        let off = (8 - base % 8) % 8 + 1 + (fnv(input) >> 8) as usize % 7;
        buf[off..off + input.len()].copy_from_slice(input);
        shifted = buf;
        rep.count("strings_decoded_from_an_unaligned_slice");
        &shifted[off..off + input.len()]
    } else {
        input
    };
    let want = refs::dec(input);
    let r = catch(|| match Frame::from_bytes(input) {
        Ok(f) => Got::Ok {
            addr: f.address().0,
            ty: f.message_type().0,
            data: f.data().to_vec(),
            reenc: f.to_bytes(),
        },
        Err(FrameError::InvalidFrame { data }) => Got::Invalid { data_is_input: data == input },
        Err(FrameError::FrameDataMismatch { data, expected, actual }) => Got::Mismatch {
            data_is_input: data == input,
            expected,
            actual,
        },
        Err(FrameError::BadChecksum { data, expected, actual }) => Got::Checksum {
            data_is_input: data == input,
            expected,
            actual,
        },
        Err(e) => Got::Other(format!("{:?}", e)),
    });

    // bookkeeping of what was observed
    let class = want.class();
    rep.count(match class {
        "ok" => "class/ok",
        "malformed" => "class/malformed",
        "length" => "class/length",
        _ => "class/checksum",
    });
    let nontrivial = input.first() == Some(&b':');
    rep.case(nontrivial.then(|| fnv(input)));
    match &want {
        Dec::Ok { .. } => {
            if input.iter().any(|c| c.is_ascii_lowercase()) {
                rep.count("accepted_with_lower_case");
            }
            if !input.ends_with(b"\r\n") {
                rep.count("accepted_without_crlf");
            } else {
                rep.count("accepted_with_crlf");
            }
        }
        Dec::Length { .. } => {
            if let Some(f) = refs::fields(input) {
                if refs::lrc(&f[..f.len() - 1]) != f[f.len() - 1] {
                    rep.count("precedence_both_errors_present");
                }
                if f.len() - 5 > 255 {
                    rep.count("more_than_255_data_pairs");
                }
            }
        }
        _ => {}
    }

    let verdict: Result<(), (&'static str, String)> = match (&want, &r) {
        (_, Err(p)) => Err(("panic", format!("panic {} at {}", p.msg, short_loc(&p.loc)))),
        (Dec::Ok { addr, ty, data }, Ok(Got::Ok { addr: a, ty: t, data: d, reenc })) => {
            if (a, t, d) != (addr, ty, data) {
                Err(("decoded_fields_differ", format!("Ok({:04X}:{:02X}:{})", a, t, hex(d))))
            } else if *reenc != refs::normalise(input) {
                Err(("reencoding_differs", format!("re-encoded as [{}]", show_bytes(reenc))))
            } else {
                Ok(())
            }
        }
        (Dec::Malformed, Ok(Got::Invalid { data_is_input })) => {
            if *data_is_input { Ok(()) } else { Err(("error_payload", "InvalidFrame.data != input".into())) }
        }
        (Dec::Length { declared, actual }, Ok(Got::Mismatch { data_is_input, expected, actual: a })) => {
            if !*data_is_input {
                Err(("error_payload", "FrameDataMismatch.data != input".into()))
            } else if expected != declared || a != actual {
                Err(("mismatch_fields", format!("FrameDataMismatch{{expected:{},actual:{}}}", expected, a)))
            } else {
                Ok(())
            }
        }
        (Dec::Checksum { declared, computed }, Ok(Got::Checksum { data_is_input, expected, actual })) => {
            if !*data_is_input {
                Err(("error_payload", "BadChecksum.data != input".into()))
            } else if expected != declared || actual != computed {
                Err(("checksum_fields", format!("BadChecksum{{expected:{:02X},actual:{:02X}}}", expected, actual)))
            } else {
                Ok(())
            }
        }
        (_, Ok(got)) => Err((
            match (&want, got) {
                (Dec::Ok { .. }, _) => "valid_string_rejected",
                (_, Got::Ok { .. }) => "invalid_string_accepted",
                _ => "wrong_error_class",
            },
            format!("{:?}", got),
        )),
    };
    if let Err((cls, obs)) = verdict {
        rep.violation(
            MON,
            cls,
            &hex(&input[..input.len().min(700)]),
            format!("[{}]: reference says {:?}, library gives {}", show_bytes(input), want, obs),
            J::obj(vec![
                ("workload", J::s(workload)),
                ("input", J::hex(input)),
                ("input_text", J::s(show_bytes(input))),
                ("expected", J::s(format!("{:?}", want))),
                ("observed", J::s(obs)),
            ]),
        );
    }
    if nontrivial && rep.wants_sample() {
        rep.sample(|| J::obj(vec![("workload", J::s(workload)), ("input", J::s(show_bytes(input))), ("reference", J::s(class))]));
    }
}

/// The same verdicts through the STREAM entry point: `Frame::read` over a fragmenting reader must classify the line it
/// consumed (up to the first LF, or the whole input) exactly as the reference classifies that line. Cases run back to
/// back on one thread, so anything a read leaves behind for the next one (a stale buffer) shows up on the next case.
pub fn check_via_read(input: &[u8], rng: &mut Rng, rep: &mut Report) {
    use crate::doubles::{FragReader, ReadFault};
    let line_end = input.iter().position(|b| *b == b'\n').map(|i| i + 1).unwrap_or(input.len());
    let line = &input[..line_end];
    let n = input.len();
    let density = rng.below(4);
    let boundaries: Vec<usize> = (1..n).filter(|_| match density {
        0 => false,
        1 => rng.chance(1, 6),
        2 => rng.chance(1, 2),
        _ => true,
    }).collect();
    // one case in twelve: the stream fails hard in the middle of the line
    let fail_at = if n > 2 && rng.chance(1, 12) { Some(1 + rng.usize(line_end.saturating_sub(1).max(1))) } else { None };
    let mut faults = vec![];
    if let Some(p) = fail_at {
        faults.push((p.min(line_end.saturating_sub(1)), ReadFault::Fail(std::io::ErrorKind::TimedOut), usize::MAX));
    } else if rng.chance(1, 6) {
        faults.push((rng.usize(n + 1), ReadFault::Interrupted, 1 + rng.usize(2)));
    }
    let mut reader = FragReader::new(input.to_vec(), boundaries.clone(), faults.clone());
    let r = catch(|| match Frame::read(&mut reader) {
        Ok(f) => format!("Ok({:04X}:{:02X}:{})", f.address().0, f.message_type().0, hex(f.data())),
        Err(FrameError::Io { source }) => format!("Io({:?})", source.kind()),
        Err(FrameError::InvalidFrame { data }) => format!("Malformed({})", hex(&data)),
        Err(FrameError::FrameDataMismatch { data, expected, actual }) => format!("Length({},{},{})", hex(&data), expected, actual),
        Err(FrameError::BadChecksum { data, expected, actual }) => format!("Checksum({},{:02X},{:02X})", hex(&data), expected, actual),
        Err(e) => format!("Other({:?})", e),
    });
    rep.count("stream_reads");
    let hard = reader.log.iter().any(|e| matches!(e.returned, Err(k) if k != std::io::ErrorKind::Interrupted));
    let want = if hard {
        rep.count("stream_reads_with_hard_error");
        "Io(TimedOut)".to_string()
    } else {
        match refs::dec(line) {
            Dec::Ok { addr, ty, data } => format!("Ok({:04X}:{:02X}:{})", addr, ty, hex(&data)),
            Dec::Malformed => format!("Malformed({})", hex(line)),
            Dec::Length { declared, actual } => format!("Length({},{},{})", hex(line), declared, actual),
            Dec::Checksum { declared, computed } => format!("Checksum({},{:02X},{:02X})", hex(line), declared, computed),
        }
    };
    let got = match r {
        Ok(g) => g,
        Err(p) => format!("panic {} at {}", p.msg, short_loc(&p.loc)),
    };
    let consumed_ok = hard || reader.pos == line_end;
    if got != want || !consumed_ok {
        rep.violation(
            "stream_decoder_vs_reference",
            if got != want { "read_result_differs" } else { "read_consumed_wrong_amount" },
            &format!("{}|b{:?}|f{:?}", hex(&input[..input.len().min(300)]), boundaries.len(), faults),
            format!("Frame::read over [{}] ({} delivery boundaries, faults {:?}): returned {} (consumed {} bytes), the reference says {} for the {}-byte line", show_bytes(input), boundaries.len(), faults, got, reader.pos, want, line_end),
            J::obj(vec![("workload", J::s("stream")), ("input", J::hex(input)), ("boundaries", J::s(format!("{:?}", boundaries))), ("faults", J::s(format!("{:?}", faults))), ("expected", J::s(want.clone())), ("observed", J::s(got.clone()))]),
        );
    }
}

/// All strings over `alpha` with the given prefix and total length `len` (prefix included).
fn enumerate(alpha: &[u8], prefix: &[u8], len: usize, workload: &'static str, rep: &mut Report) {
    let k = prefix.len();
    debug_assert!(len >= k);
    let free = len - k;
    let mut idx = vec![0usize; free];
    let mut buf = prefix.to_vec();
    buf.resize(len, alpha[0]);
    loop {
        check_string(&buf, workload, rep);
        // odometer increment
        let mut p = free;
        loop {
            if p == 0 {
                return;
            }
            p -= 1;
            idx[p] += 1;
            if idx[p] < alpha.len() {
                buf[k + p] = alpha[idx[p]];
                break;
            }
            idx[p] = 0;
            buf[k + p] = alpha[0];
        }
    }
}

fn templates() -> Vec<Vec<u8>> {
    vec![
        refs::enc(0x0003, 0x02, &[]),
        refs::enc(0x00FF, 0x04, &[0x0F]),
        refs::enc(0xABCD, 0x00, &[0xFA, 0x00]),
        refs::enc(0x0010, 0x00, &[0x01, 0x10, 0, 0, 0xFF, 0x7F, 0x80, 0xAA, 0x55, 0x0D, 0x0A, 0x3A, 1, 2, 3, 0xEF]),
    ]
}

fn perturb_templates(t: &[u8], rep: &mut Report) {
    const W: &str = "template_perturbation";
    let n = t.len();
    // terminator and framing variants
    let mut variants: Vec<Vec<u8>> = vec![];
    for term in [&b""[..], b"\r\n", b"\n", b"\r", b"\n\r", b"\r\n\r\n", b"\r\r\n", b" \r\n", b"\r\n "] {
        let mut v = t.to_vec();
        v.extend_from_slice(term);
        variants.push(v);
    }
    let mut v = t.to_vec();
    v.extend_from_slice(b"\r\n");
    v.extend_from_slice(t);
    variants.push(v.clone()); // two frames in one string
    v.extend_from_slice(b"\r\n");
    variants.push(v);
    for lead in [&b" "[..], b"\r\n", b":", b"\n", b"\x00"] {
        let mut v = lead.to_vec();
        v.extend_from_slice(t);
        variants.push(v);
    }
    variants.push(t.to_ascii_lowercase());
    variants.push(t.iter().enumerate().map(|(i, c)| if i % 2 == 0 { c.to_ascii_lowercase() } else { *c }).collect());
    for v in &variants {
        check_string(v, W, rep);
        let mut w = v.clone();
        w.extend_from_slice(b"\r\n");
        check_string(&w, W, rep);
    }
    for crlf in [false, true] {
        let mut base = t.to_vec();
        if crlf {
            base.extend_from_slice(b"\r\n");
        }
        let m = base.len();
        // every single position x every symbol, every insertion
        for p in 0..m {
            for &s in &ALPHA13 {
                let mut b = base.clone();
                b[p] = s;
                check_string(&b, W, rep);
            }
        }
        for p in 0..=m {
            for &s in &ALPHA13 {
                let mut b = base.clone();
                b.insert(p, s);
                check_string(&b, W, rep);
            }
        }
        // every pair of positions x every pair of symbols
        for p in 0..m {
            for q in p + 1..m {
                for &s in &ALPHA13 {
                    for &u in &ALPHA13 {
                        let mut b = base.clone();
                        b[p] = s;
                        b[q] = u;
                        check_string(&b, W, rep);
                    }
                }
            }
        }
    }
    // every position x EVERY byte value (the thirteen structural symbols above cover the grammar; this covers whatever a
    // decoder might let stand in for them: '+', '-', control characters that alias digits after a bit trick, 0x80 | digit ...)
    for crlf in [false, true] {
        let mut base = t.to_vec();
        if crlf {
            base.extend_from_slice(b"\r\n");
        }
        for p in 0..base.len() {
            for v in 0..=255u8 {
                let mut b = base.clone();
                b[p] = v;
                check_string(&b, "every_byte_at_every_position", rep);
            }
            for v in [b'+', b'-', b'x', 0x10, 0x19, 0x7F, 0x80, 0xB0] {
                let mut b = base.clone();
                b.insert(p, v);
                check_string(&b, "every_byte_at_every_position", rep);
            }
        }
        rep.add("positions_swept_with_every_byte", base.len() as u64);
    }
    // every position replaced by (and every gap filled with) a multi-byte sequence that some Unicode-aware notion of
    // "digit", "letter", "space" or "line end" would accept: the format is ASCII, so every one of these is malformed
    for crlf in [false, true] {
        let mut base = t.to_vec();
        if crlf {
            base.extend_from_slice(b"\r\n");
        }
        for p in 0..base.len() {
            for s in MULTIBYTE {
                let mut b = base[..p].to_vec();
                b.extend_from_slice(s);
                b.extend_from_slice(&base[p + 1..]);
                check_string(&b, "multibyte_substitution", rep);
                let mut b = base[..p].to_vec();
                b.extend_from_slice(s);
                b.extend_from_slice(&base[p..]);
                check_string(&b, "multibyte_substitution", rep);
                rep.add("multibyte_substitutions", 2);
            }
        }
        // every hex digit replaced at once
        for s in MULTIBYTE {
            let mut b = vec![];
            for (i, c) in base.iter().enumerate() {
                if i > 0 && c.is_ascii_hexdigit() {
                    b.extend_from_slice(s);
                } else {
                    b.push(*c);
                }
            }
            check_string(&b, "multibyte_substitution", rep);
        }
    }
    let _ = n;
}

/// UTF-8 encodings of non-ASCII decimal digits, digit-like and letter-like characters, case-folding partners, spaces
/// and line separators; plus a few ill-formed sequences.
pub const MULTIBYTE: [&[u8]; 26] = [
    b"\xD9\xA0",         // U+0660 ARABIC-INDIC DIGIT ZERO
    b"\xD9\xA9",         // U+0669 ARABIC-INDIC DIGIT NINE
    b"\xDB\xB1",         // U+06F1 EXTENDED ARABIC-INDIC DIGIT ONE
    b"\xE0\xA5\xA6",     // U+0966 DEVANAGARI DIGIT ZERO
    b"\xEF\xBC\x90",     // U+FF10 FULLWIDTH DIGIT ZERO
    b"\xEF\xBC\x99",     // U+FF19 FULLWIDTH DIGIT NINE
    b"\xEF\xBC\xA1",     // U+FF21 FULLWIDTH LATIN CAPITAL LETTER A
    b"\xEF\xBD\x86",     // U+FF46 FULLWIDTH LATIN SMALL LETTER F
    b"\xF0\x9D\x9F\x8E", // U+1D7CE MATHEMATICAL BOLD DIGIT ZERO
    b"\xC2\xB2",         // U+00B2 SUPERSCRIPT TWO
    b"\xE2\x85\xA0",     // U+2160 ROMAN NUMERAL ONE
    b"\xD0\x90",         // U+0410 CYRILLIC CAPITAL LETTER A
    b"\xCE\x91",         // U+0391 GREEK CAPITAL LETTER ALPHA
    b"\xE2\x84\xAA",     // U+212A KELVIN SIGN
    b"\xC5\xBF",         // U+017F LATIN SMALL LETTER LONG S
    b"\xEF\xBC\x9A",     // U+FF1A FULLWIDTH COLON
    b"\xE2\x80\xA8",     // U+2028 LINE SEPARATOR
    b"\xE2\x80\xA9",     // U+2029 PARAGRAPH SEPARATOR
    b"\xC2\x85",         // U+0085 NEXT LINE
    b"\xC2\xA0",         // U+00A0 NO-BREAK SPACE
    b"\xE3\x80\x80",     // U+3000 IDEOGRAPHIC SPACE
    b"\xEF\xBB\xBF",     // U+FEFF BYTE ORDER MARK
    b"\xC0\xB0",         // overlong encoding of '0'
    b"\xED\xA0\x80",     // encoded surrogate
    b"\xF4\x90\x80\x80", // beyond U+10FFFF
    b"\xD9",             // truncated sequence
];

fn hexpair(b: u8, rng: &mut Rng) -> [u8; 2] {
    let up = b"0123456789ABCDEF";
    let lo = b"0123456789abcdef";
    let mut out = [0u8; 2];
    for (i, n) in [b >> 4, b & 15].into_iter().enumerate() {
        out[i] = if rng.bool() { up[n as usize] } else { lo[n as usize] };
    }
    out
}

/// One generated / mutated string over all 256 byte values.
fn generated_string(rng: &mut Rng, max_len: usize) -> Vec<u8> {
    let mode = rng.below(12);
    let mut s: Vec<u8> = vec![];
    let build = |rng: &mut Rng, declared: Option<u8>, nd: usize, good_sum: bool| -> Vec<u8> {
        let data = rng.bytes(nd);
        let addr = rng.edgy_u16();
        let mut f = vec![declared.unwrap_or(nd as u8), (addr >> 8) as u8, addr as u8, rng.edgy_u8()];
        f.extend_from_slice(&data);
        let c = refs::lrc(&f);
        f.push(if good_sum { c } else { c.wrapping_add(1 + rng.below(255) as u8) });
        let mut w = vec![b':'];
        for b in f {
            w.extend_from_slice(&hexpair(b, rng));
        }
        w
    };
    match mode {
        0 => {
            let n = rng.usize(max_len.min(64));
            s = rng.bytes(n);
        }
        1 => {
            // valid frame, mixed case, random terminator choice
            let nd = rng.usize(256.min(max_len / 2));
            s = build(rng, None, nd, true);
            if rng.bool() {
                s.extend_from_slice(b"\r\n");
            }
        }
        2 => {
            // declared length wrong AND checksum wrong (precedence)
            let nd = rng.usize(40);
            let dl = rng.u8();
            s = build(rng, Some(dl), nd, false);
            if rng.bool() {
                s.extend_from_slice(b"\r\n");
            }
        }
        3 => {
            // declared length wrong, checksum consistent
            let nd = rng.usize(40);
            let dl = rng.u8();
            s = build(rng, Some(dl), nd, true);
        }
        4 => {
            let nd = rng.usize(40);
            s = build(rng, None, nd, false);
            if rng.bool() {
                s.extend_from_slice(b"\r\n");
            }
        }
        5 => {
            // more than 255 data pairs
            let nd = 256 + rng.usize(45);
            let dl = rng.u8();
            let gs = rng.bool();
            s = build(rng, Some(dl), nd, gs);
        }
        6 | 7 | 8 => {
            // mutate a valid frame: a few random byte-level edits
            let nd = rng.usize(24);
            s = build(rng, None, nd, true);
            if rng.bool() {
                s.extend_from_slice(b"\r\n");
            }
            for _ in 0..1 + rng.usize(3) {
                if s.is_empty() {
                    break;
                }
                let p = rng.usize(s.len());
                match rng.below(5) {
                    0 => s[p] = rng.u8(),
                    1 => {
                        s.remove(p);
                    }
                    2 => s.insert(p, rng.u8()),
                    3 => s[p] = *rng.pick(&ALPHA13),
                    _ => s.insert(p, *rng.pick(&ALPHA13)),
                }
            }
        }
        9 => {
            // hex soup of odd/even length behind a colon
            let n = rng.usize(max_len.min(600));
            s.push(b':');
            for _ in 0..n {
                s.push(*rng.pick(b"0123456789abcdefABCDEF"));
            }
            if rng.chance(1, 3) {
                s.extend_from_slice(b"\r\n");
            }
        }
        10 => {
            // symbols from the structural alphabet
            let n = rng.usize(30);
            for _ in 0..n {
                s.push(*rng.pick(&ALPHA13));
            }
        }
        _ => {
            // valid frame embedded in noise
            let nd = rng.usize(8);
            let f = build(rng, None, nd, true);
            let pre = rng.usize(3);
            s = rng.bytes(pre);
            s.extend_from_slice(&f);
            let post = rng.usize(3);
            s.extend_from_slice(&rng.bytes(post));
        }
    }
    s
}

/// One generated / mutated string over all 256 byte values, checked through `from_bytes`.
fn generated(rng: &mut Rng, rep: &mut Report, max_len: usize) {
    let s = generated_string(rng, max_len);
    check_string(&s, "generated", rep);
}

pub fn run(ctx: &Ctx) -> Outcome {
    if ctx.miri {
        return run_small(ctx);
    }
    let l13 = if ctx.quick() { 6 } else { 7 };
    let l5 = if ctx.quick() { 11 } else { 13 };
    let n_gen = ctx.size(300_000, 10_000_000);
    let gen_shards = 64usize;
    let tpl = templates();

    // shard plan
    enum Job {
        Short13,           // all strings of length 0 and 1 over ALPHA13 (too short for a 2-symbol prefix)
        A13(u8, u8),       // lengths 2..=l13 with this 2-symbol prefix
        Short5,            // lengths 0..=2 over ALPHA5
        A5(u8, u8, u8),    // lengths 3..=l5 with this 3-symbol prefix
        Template(usize),
        Gen(u64),
        Huge,
    }
    let mut jobs = vec![Job::Short13, Job::Short5, Job::Huge];
    for &a in &ALPHA13 {
        for &b in &ALPHA13 {
            jobs.push(Job::A13(a, b));
        }
    }
    for &a in &ALPHA5 {
        for &b in &ALPHA5 {
            for &c in &ALPHA5 {
                jobs.push(Job::A5(a, b, c));
            }
        }
    }
    for i in 0..tpl.len() {
        jobs.push(Job::Template(i));
    }
    for i in 0..gen_shards {
        jobs.push(Job::Gen(i as u64));
    }
    // the heavy ALPHA5 jobs first so the tail of the run is short
    jobs.sort_by_key(|j| match j {
        Job::A5(b':', ..) => 0,
        Job::A5(..) => 1,
        Job::Template(_) => 2,
        Job::A13(..) => 3,
        _ => 4,
    });

    let mut report = run_sharded(ctx, jobs.len(), |shard, rep| match &jobs[shard] {
        Job::Short13 => {
            enumerate(&ALPHA13, &[], 0, "exhaustive13", rep);
            enumerate(&ALPHA13, &[], 1, "exhaustive13", rep);
        }
        Job::A13(a, b) => {
            for len in 2..=l13 {
                enumerate(&ALPHA13, &[*a, *b], len, "exhaustive13", rep);
            }
            rep.count("alpha13_prefixes_completed");
        }
        Job::Short5 => {
            for len in 0..=2 {
                enumerate(&ALPHA5, &[], len, "exhaustive5", rep);
            }
        }
        Job::A5(a, b, c) => {
            for len in 3..=l5 {
                enumerate(&ALPHA5, &[*a, *b, *c], len, "exhaustive5", rep);
            }
            rep.count("alpha5_prefixes_completed");
        }
        Job::Template(i) => {
            perturb_templates(&tpl[*i], rep);
            rep.count("templates_completed");
            if *i == 1 {
                // lines longer than any frame can be (a valid header, 256..400 data pairs, a checksum): whatever else is
                // wrong with them is classified as for a short line — one symbol substituted or inserted at positions
                // spread over the whole line, with and without CRLF, odd and even lengths
                for pairs in [256usize, 257, 300, 400] {
                    for declared in [0x10u8, 0xFF, (pairs % 256) as u8] {
                        let mut base = format!(":{:02X}000000", declared).into_bytes();
                        for k in 0..pairs {
                            base.extend_from_slice(format!("{:02X}", (k * 7 + 3) as u8).as_bytes());
                        }
                        base.extend_from_slice(b"00");
                        for crlf in [false, true] {
                            let mut line = base.clone();
                            if crlf {
                                line.extend_from_slice(b"\r\n");
                            }
                            check_string(&line, "overlong_lines", rep);
                            let n = line.len();
                            for p in [0usize, 1, 2, 8, 9, 10, 11, n / 3, n / 2, n / 2 + 1, n - 5, n - 4, n - 3, n - 2, n - 1] {
                                for s in [b'G', b'g', b':', b' ', b'\r', b'\n', 0x00, 0xFF, b'+'] {
                                    let mut l = line.clone();
                                    l[p] = s;
                                    check_string(&l, "overlong_lines", rep);
                                    let mut l = line.clone();
                                    l.insert(p, s);
                                    check_string(&l, "overlong_lines", rep);
                                    let mut l = line.clone();
                                    l.remove(p);
                                    let q = p.min(l.len() - 1);
                                    l[q] = s;
                                    check_string(&l, "overlong_lines", rep);
                                }
                            }
                            rep.count("overlong_line_bases");
                        }
                    }
                }
            }
            if *i == 0 {
                // lines whose byte sum is as large as it gets, with the right checksum, with every neighbouring wrong one,
                // and with 00 / 01 / FF in its place
                for len in 250..=255usize {
                    for (addr, ty) in [(0xFFFFu16, 0xFFu8), (0xFFFE, 0xFF), (0xFF00, 0xFE), (0x0000, 0x00)] {
                        let good = refs::enc(addr, ty, &vec![0xFFu8; len]);
                        check_string(&good, "largest_byte_sums", rep);
                        let n = good.len();
                        for tail in [&b"00"[..], b"01", b"02", b"FF", b"FE", b"80"] {
                            let mut bad = good.clone();
                            bad[n - 2..].copy_from_slice(tail);
                            check_string(&bad, "largest_byte_sums", rep);
                            let mut with_crlf = bad.clone();
                            with_crlf.extend_from_slice(b"\r\n");
                            check_string(&with_crlf, "largest_byte_sums", rep);
                        }
                        rep.count("largest_byte_sum_lines");
                    }
                }
            }
        }
        Job::Gen(i) => {
            let mut rng = ctx.rng("gen", *i);
            let mut r2 = ctx.rng("gen-stream", *i);
            for k in 0..n_gen / gen_shards as u64 {
                generated(&mut rng, rep, 600);
                // every fourth generated string also goes through the stream entry point
                if k % 4 == 0 {
                    let mut g = ctx.rng("gen-stream-input", *i * 1_000_003 + k);
                    let s = generated_string(&mut g, 600);
                    check_via_read(&s, &mut r2, rep);
                }
            }
        }
        Job::Huge => {
            for (a, t, d) in refs::coincidence_frames() {
                let good = refs::enc(a, t, &d);
                check_string(&good, "coincidences", rep);
                check_string(&refs::enc_crlf(a, t, &d), "coincidences", rep);
                // the same line with its checksum digits replaced by its length digits / type digits (equal to the true
                // checksum for some of these frames, wrong for the others — the reference decoder knows which)
                let n = good.len();
                for (from, what) in [(1usize, "len"), (7, "type")] {
                    let mut s = good.clone();
                    let (x, y) = (good[from], good[from + 1]);
                    s[n - 2] = x;
                    s[n - 1] = y;
                    check_string(&s, "coincidences", rep);
                    let _ = what;
                }
                rep.count("coincidence_frames");
            }
            // very long inputs: 100 kB of hex behind a colon, of garbage, and a valid frame followed by 100 kB
            let mut rng = ctx.rng("huge", 0);
            for k in 0..6 {
                let mut s = vec![b':'];
                match k % 3 {
                    0 => {
                        for _ in 0..100_000 {
                            s.push(*rng.pick(b"0123456789ABCDEFabcdef"));
                        }
                    }
                    1 => s = rng.bytes(100_000),
                    _ => {
                        s = refs::enc(1, 2, &[3]);
                        s.extend(rng.bytes(100_000));
                    }
                }
                check_string(&s, "huge", rep);
                rep.count("huge_inputs");
            }
        }
    });
    {
        // the same calls from a thread-local destructor while a thread exits (see exitprobe.rs)
        let mut at_exit = Report::new();
        crate::exitprobe::check("codec", MON, &mut at_exit);
        crate::exitprobe::check_migration("codec", MON, &mut at_exit);
        report.merge(at_exit);
    }

    let floors = vec![
        floor("alphabet-13 enumeration complete (169 prefixes)", report.get("alpha13_prefixes_completed") == 169, report.get("alpha13_prefixes_completed")),
        floor("alphabet-5 enumeration complete (125 prefixes)", report.get("alpha5_prefixes_completed") == 125, report.get("alpha5_prefixes_completed")),
        floor("multi-byte (non-ASCII) sequences substituted and inserted at every position of every template", report.get("multibyte_substitutions") >= 4 * 2 * 26 * 20, report.get("multibyte_substitutions")),
        floor("over-long lines (256..400 data pairs) with one defect at positions spread over the line", report.get("overlong_line_bases") == 24, report.get("overlong_line_bases")),
        floor("lines with the largest possible byte sums (right and wrong checksums)", report.get("largest_byte_sum_lines") == 24, report.get("largest_byte_sum_lines")),
        floor("every byte value at every position of every template", report.get("positions_swept_with_every_byte") > 150, report.get("positions_swept_with_every_byte")),
        floor("all templates perturbed", report.get("templates_completed") == tpl.len() as u64, report.get("templates_completed")),
        floor("class ok observed >= 1000x", report.get("class/ok") >= 1000, report.get("class/ok")),
        floor("class malformed observed >= 1000x", report.get("class/malformed") >= 1000, report.get("class/malformed")),
        floor("class length-mismatch observed >= 1000x", report.get("class/length") >= 1000, report.get("class/length")),
        floor("class bad-checksum observed >= 1000x", report.get("class/checksum") >= 1000, report.get("class/checksum")),
        floor("inputs with both errors present (precedence)", report.get("precedence_both_errors_present") > 0, report.get("precedence_both_errors_present")),
        floor("accepted lower-case inputs", report.get("accepted_with_lower_case") > 0, report.get("accepted_with_lower_case")),
        floor("accepted inputs without CRLF", report.get("accepted_without_crlf") > 0, report.get("accepted_without_crlf")),
        floor("accepted inputs with CRLF", report.get("accepted_with_crlf") > 0, report.get("accepted_with_crlf")),
        floor("inputs with more than 255 data pairs", report.get("more_than_255_data_pairs") > 0, report.get("more_than_255_data_pairs")),
        floor("frames whose fields coincide (all fields one value, for every value; checksum equal to another field or to a syntax byte)", report.get("coincidence_frames") == 2240, report.get("coincidence_frames")),
        floor("longer strings decoded from a slice that starts at an odd address", report.get("strings_decoded_from_an_unaligned_slice") > 10_000, report.get("strings_decoded_from_an_unaligned_slice")),
        floor("100 kB inputs", report.get("huge_inputs") == 6, report.get("huge_inputs")),
        floor("strings also decoded through the stream entry point (Frame::read), some with a hard error mid-line", report.get("stream_reads") > 10_000 && report.get("stream_reads_with_hard_error") > 100, report.get("stream_reads")),
    ];
    Outcome {
        report,
        level: "exploration",
        rule: format!(
            "ALL strings of length <= {} over the 13-symbol structural alphabet, ALL strings of length <= {} over {{':','0','F',CR,LF}}, every single/pair substitution and insertion on 4 templates with 13 symbols, terminator variants, and seeded generated/mutated strings over all 256 byte values up to 600 bytes (plus 100 kB inputs); every fourth generated string also goes through Frame::read over a fragmenting reader (back to back on one thread, some with a hard error mid-line); distinct by hash of the string; non-trivial = starts with ':' (anything else is rejected on the first byte)",
            l13, l5
        ),
        exhaustive: false,
        floors,
        assumptions: vec![
            "oracle: independent parser refs::dec (no regex, no shared code); precedence malformed > length > checksum".into(),
            "the two exhaustive enumerations are complete for their alphabets and lengths; longer strings are sampled".into(),
        ],
        extra: vec![("exhaustive_alpha13_max_len".into(), J::us(l13)), ("exhaustive_alpha5_max_len".into(), J::us(l5))],
    }
}

/// Small deterministic workload for the interpreter / sanitizer legs: the decoder on hostile inputs only.
fn run_small(ctx: &Ctx) -> Outcome {
    let n = ctx.size(120, 120);
    let mut rep = Report::new();
    let mut rng = ctx.rng("miri", 0);
    for t in templates().iter().take(2) {
        check_string(t, "miri", &mut rep);
        let mut u = t.clone();
        u.extend_from_slice(b"\r\n");
        check_string(&u, "miri", &mut rep);
    }
    for _ in 0..n {
        generated(&mut rng, &mut rep, 80);
    }
    Outcome {
        report: rep,
        level: "exploration",
        rule: "interpreter leg: seeded generated strings through Frame::from_bytes under Miri".into(),
        exhaustive: false,
        floors: vec![],
        assumptions: vec![],
        extra: vec![],
    }
}

pub fn replay(d: &J, rep: &mut Report) -> bool {
    let Some(input) = d.get("input").and_then(|x| x.as_str()).and_then(util::unhex) else {
        return false;
    };
    check_string(&input, "replay", rep);
    true
}
