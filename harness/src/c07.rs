//! C07 — page bytes follow the sign's native layout for every size.

use flipdot_core::{Page, PageError, PageId};

use crate::refs::{self, RefPage};
use crate::util::{Ctx, J, Outcome, Report, Rng, catch, floor, hex, mix, run_sharded, short_loc};

const MON: &str = "page_layout";

fn fail(rep: &mut Report, class: &str, w: u32, h: u32, case: &str, what: String) {
    rep.violation(
        MON,
        class,
        &format!("{}x{}:{}", w, h, case),
        format!("{}x{} page, {}: {}", w, h, case, what),
        J::obj(vec![("width", J::u(w)), ("height", J::u(h)), ("case", J::s(case)), ("observed", J::s(what))]),
    );
}

/// New-page image, every requested pixel's exact byte/bit, and from_bytes acceptance around the expected length.
fn check_size(id: u8, w: u32, h: u32, pixels: &[(u32, u32)], rng: &mut Rng, rep: &mut Report) {
    rep.case(Some(mix(u64::from(w) << 32 | u64::from(h), u64::from(id))));
    rep.seen("sizes", u64::from(w) << 32 | u64::from(h));
    rep.seen("column_bytes", refs::col_bytes(h) as u64);
    let model = RefPage::new(id, w, h);
    let want = model.image();
    let expected_len = refs::padded_len(w, h);
    if (4 + w as usize * refs::col_bytes(h)) % 16 == 0 {
        rep.count("sizes_ending_on_16_byte_boundary");
    }

    // 1. the blank page
    let r = catch(|| {
        let p = Page::new(PageId(id), w, h);
        (p.as_bytes().to_vec(), p.id(), p.width(), p.height())
    });
    let blank = match r {
        Ok((b, pid, pw, ph)) => {
            if b != want {
                fail(rep, "new_page_image", w, h, &format!("new(id={})", id), format!("bytes {} expected {}", hex(&b[..b.len().min(64)]), hex(&want[..want.len().min(64)])));
            }
            if pid != PageId(id) || pw != w || ph != h {
                fail(rep, "new_page_accessors", w, h, &format!("new(id={})", id), format!("id {:?} dims {}x{}", pid, pw, ph));
            }
            b
        }
        Err(p) => {
            fail(rep, "panic", w, h, "new", format!("{} at {}", p.msg, short_loc(&p.loc)));
            return;
        }
    };

    // 2. each pixel alone on a blank page: exactly one bit, at the documented place
    let cb = refs::col_bytes(h);
    for &(x, y) in pixels {
        rep.count("pixels_checked");
        let r = catch(|| {
            let mut p = Page::new(PageId(id), w, h);
            p.set_pixel(x, y, true);
            p.as_bytes().to_vec()
        });
        match r {
            Ok(b) => {
                let mut expect = want.clone();
                expect[4 + (x as usize) * cb + (y as usize) / 8] |= 1 << (y % 8);
                if b != expect {
                    let diff: Vec<String> = b.iter().zip(blank.iter()).enumerate().filter(|(_, (a, b))| a != b).map(|(i, (a, b))| format!("byte {} {:02x}->{:02x}", i, b, a)).collect();
                    fail(rep, "pixel_position", w, h, &format!("set({},{})", x, y), format!("changed [{}], expected byte {} bit {}", diff.join(", "), 4 + (x as usize) * cb + (y as usize) / 8, y % 8));
                }
            }
            Err(p) => fail(rep, "panic", w, h, &format!("set({},{})", x, y), format!("{} at {}", p.msg, short_loc(&p.loc))),
        }
    }

    // 2b. the same placement rule on a page built over BORROWED bytes that already hold a picture: setting or clearing
    //     pixel (x, y) changes exactly that bit of exactly that byte, whatever else is lit in the byte
    if !pixels.is_empty() {
        let backing: Vec<u8> = {
            let mut b = rng.bytes(expected_len);
            b[0] = id;
            b
        };
        for &(x, y) in pixels.iter().step_by((pixels.len() / 64).max(1)) {
            for value in [true, false] {
                rep.count("pixels_checked_on_borrowed_pages");
                let r = catch(|| {
                    let mut p = Page::from_bytes(w, h, &backing[..]).expect("padded length");
                    p.set_pixel(x, y, value);
                    (p.as_bytes().to_vec(), p.get_pixel(x, y))
                });
                let idx = 4 + (x as usize) * cb + (y as usize) / 8;
                let mut expect = backing.clone();
                if value {
                    expect[idx] |= 1 << (y % 8);
                } else {
                    expect[idx] &= !(1 << (y % 8));
                }
                match r {
                    Ok((b, got)) => {
                        if b != expect || got != value {
                            fail(rep, "pixel_position_on_borrowed_page", w, h, &format!("set({},{},{}) over bytes {}", x, y, value, hex(&backing[..backing.len().min(24)])), format!("byte {} is {:02x}, expected {:02x}; pixel reads {}", idx, b.get(idx).copied().unwrap_or(0), expect[idx], got));
                        }
                    }
                    Err(p) => fail(rep, "panic", w, h, &format!("set({},{}) on a borrowed page", x, y), format!("{} at {}", p.msg, short_loc(&p.loc))),
                }
            }
        }
    }

    // 3. from_bytes: every candidate length around the expected one, from Vec and from slice
    let mut lens: Vec<usize> = (expected_len.saturating_sub(17)..=expected_len + 17).collect();
    lens.push(0);
    lens.push(4 + w as usize * cb); // the unpadded size
    // lengths that equal the padded size only after being narrowed to 8 / 16 (/ 24) bits
    lens.push(expected_len + 256);
    if (w + 7 * h) % 16 == 3 || w * h == 0 {
        lens.push(expected_len + 65_536);
    }
    if (w, h) == (90, 7) {
        lens.push(expected_len + (1 << 24));
    }
    for len in lens {
        rep.count("from_bytes_lengths_tried");
        let content: Vec<u8> = rng.bytes(len);
        let r = catch(|| {
            let a = Page::from_bytes(w, h, refs::owned_with_slack(&content, len)).map(|p| (p.as_bytes().to_vec(), p.width(), p.height(), p.id()));
            let b = Page::from_bytes(w, h, &content[..]).map(|p| (p.as_bytes().to_vec(), p.width(), p.height(), p.id()));
            (a, b)
        });
        let case = format!("from_bytes(len={})", len);
        match r {
            Ok((a, b)) => {
                for (label, res) in [("vec", a), ("slice", b)] {
                    match res {
                        Ok((bytes, pw, ph, pid)) => {
                            if len != expected_len {
                                fail(rep, "from_bytes_accepts_wrong_length", w, h, &case, format!("accepted {} bytes, padded size is {} ({})", len, expected_len, label));
                            } else if bytes != content || pw != w || ph != h || pid != PageId(content[0]) {
                                fail(rep, "from_bytes_exposes_other_bytes", w, h, &case, format!("page differs from the bytes given ({})", label));
                            } else {
                                rep.count("from_bytes_accepted");
                            }
                        }
                        Err(PageError::WrongPageLength { width, height, expected, actual }) => {
                            if len == expected_len {
                                fail(rep, "from_bytes_rejects_right_length", w, h, &case, format!("rejected the padded size {} ({})", len, label));
                            } else if width != w || height != h || expected != expected_len || actual != len {
                                fail(rep, "wrong_page_length_fields", w, h, &case, format!("error says {}x{} expected {} actual {} ({})", width, height, expected, actual, label));
                            } else {
                                rep.count("from_bytes_rejected");
                            }
                        }
                        Err(e) => fail(rep, "from_bytes_error_kind", w, h, &case, format!("{:?}", e)),
                    }
                }
            }
            Err(p) => fail(rep, "panic", w, h, &case, format!("{} at {}", p.msg, short_loc(&p.loc))),
        }
    }

    // 4. round trip after random pixel sets: from_bytes(as_bytes()) equals the page that produced the bytes
    if w > 0 && h > 0 {
        let r = catch(|| {
            let mut p = Page::new(PageId(id), w, h);
            let mut m = RefPage::new(id, w, h);
            for _ in 0..1 + rng.usize(32) {
                let (x, y) = (rng.below(u64::from(w)) as u32, rng.below(u64::from(h)) as u32);
                p.set_pixel(x, y, true);
                m.set(x, y, true);
            }
            let bytes = p.as_bytes().to_vec();
            let q = Page::from_bytes(w, h, &bytes[..]);
            let same = matches!(&q, Ok(q) if *q == p && q.as_bytes() == &bytes[..]);
            (same, bytes == m.image())
        });
        rep.count("roundtrips");
        match r {
            Ok((same, image_ok)) => {
                if !same {
                    fail(rep, "roundtrip_not_equal", w, h, "from_bytes(as_bytes())", "page built from its own bytes is not equal".into());
                }
                if !image_ok {
                    fail(rep, "image_after_sets", w, h, "several pixels", "bytes differ from the layout model".into());
                }
            }
            Err(p) => fail(rep, "panic", w, h, "roundtrip", format!("{} at {}", p.msg, short_loc(&p.loc))),
        }
    }
    // 5. "equals the page that produced those bytes" whatever the page has been through: pixels set and cleared again
    //    one by one, filled and cleared, cleared while already blank. Two pages with the same dimensions and the same
    //    bytes are the same page: equal, equal hashes — and a page brought back to blank equals a new one.
    if w > 0 && h > 0 {
        use std::hash::{Hash, Hasher};
        let hash_of = |p: &Page<'_>| {
            let mut hasher = std::collections::hash_map::DefaultHasher::new();
            p.hash(&mut hasher);
            hasher.finish()
        };
        for variant in 0..4u32 {
            let r = catch(|| {
                let mut p = Page::new(PageId(id), w, h);
                let mut touched = vec![];
                let mut desc = vec![];
                for _ in 0..1 + rng.usize(6) {
                    let (x, y) = (rng.below(u64::from(w)) as u32, rng.below(u64::from(h)) as u32);
                    p.set_pixel(x, y, true);
                    touched.push((x, y));
                }
                desc.push(format!("set {} pixel(s)", touched.len()));
                match variant {
                    0 => {
                        for &(x, y) in &touched {
                            p.set_pixel(x, y, false);
                        }
                        desc.push("cleared each again with set_pixel".into());
                    }
                    1 => {
                        p.set_all_pixels(false);
                        p.set_all_pixels(false);
                        desc.push("set_all_pixels(false) twice".into());
                    }
                    2 => {
                        p.set_all_pixels(true);
                        for x in 0..w {
                            for y in 0..h {
                                p.set_pixel(x, y, false);
                            }
                        }
                        desc.push("filled, then every pixel cleared with set_pixel".into());
                    }
                    _ => {
                        // not blank: all but the first touched pixel cleared
                        for &(x, y) in touched.iter().skip(1) {
                            if (x, y) != touched[0] {
                                p.set_pixel(x, y, false);
                            }
                        }
                        desc.push("cleared all but one again".into());
                    }
                }
                let bytes = p.as_bytes().to_vec();
                let from_slice = Page::from_bytes(w, h, &bytes[..]).ok();
                let from_vec = Page::from_bytes(w, h, refs::owned_with_slack(&bytes, bytes.len() * 16 + w as usize)).ok();
                let fresh = Page::new(PageId(id), w, h);
                let blank = bytes == fresh.as_bytes();
                let mut bad = vec![];
                for (label, q) in [("slice", &from_slice), ("vec", &from_vec)] {
                    match q {
                        None => bad.push(format!("from_bytes({}) rejected the page's own bytes", label)),
                        Some(q) => {
                            if *q != p || p != *q {
                                bad.push(format!("page != from_bytes(its own bytes) ({})", label));
                            }
                            if hash_of(q) != hash_of(&p) {
                                bad.push(format!("hash differs from from_bytes(its own bytes) ({})", label));
                            }
                        }
                    }
                }
                // a copy is equal, and from then on a page of its own (also when it was made over borrowed bytes)
                for (label, q) in [("slice", &from_slice), ("vec", &from_vec)] {
                    if let Some(q) = q {
                        let mut copy = q.clone();
                        if copy != *q || hash_of(&copy) != hash_of(q) {
                            bad.push(format!("clone differs from the page it was made from ({})", label));
                        }
                        let (x, y) = touched[0];
                        let was = copy.get_pixel(x, y);
                        copy.set_pixel(x, y, !was);
                        if q.as_bytes() != &bytes[..] || q.get_pixel(x, y) != was {
                            bad.push(format!("changing a clone changed the page it was made from ({})", label));
                        }
                        if copy == *q {
                            bad.push(format!("pages that differ in pixel ({},{}) compare equal ({})", x, y, label));
                        }
                    }
                }
                // clone_from: whatever the destination was (larger, smaller, owned, borrowed), it becomes the source
                for (label, q) in [("slice", &from_slice), ("vec", &from_vec)] {
                    if let Some(q) = q {
                        let bigger = Page::new(PageId(id ^ 0x55), w + 22, h + 9);
                        let smaller = Page::new(PageId(id ^ 0xAA), 1, 1);
                        let other_bytes = vec![0xC3u8; refs::padded_len(w + 1, h)];
                        let borrowed_other = Page::from_bytes(w + 1, h, &other_bytes[..]).expect("padded length");
                        let mut filled = Page::new(PageId(7), w + 22, h + 9);
                        filled.set_all_pixels(true);
                        for (dl, mut dest) in [("a larger owned page", bigger), ("a smaller owned page", smaller), ("a borrowed page", borrowed_other), ("a larger page that has been written to", filled)] {
                            dest.clone_from(q);
                            if dest != *q || dest.as_bytes() != &bytes[..] || dest.width() != w || dest.height() != h || hash_of(&dest) != hash_of(q) {
                                bad.push(format!("clone_from onto {} does not give the source page: {}x{}, {} bytes instead of {} ({})", dl, dest.width(), dest.height(), dest.as_bytes().len(), bytes.len(), label));
                            }
                        }
                    }
                }
                // a rejected (out-of-bounds) write leaves the page exactly as it was: same bytes, still equal
                for (label, q) in [("slice", &from_slice), ("vec", &from_vec)] {
                    if let Some(q) = q {
                        let mut victim = q.clone();
                        for (x, y) in [(w, 0), (0, h), (u32::MAX, u32::MAX)] {
                            let _ = std::panic::catch_unwind(std::panic::AssertUnwindSafe(|| victim.set_pixel(x, y, true)));
                            let _ = std::panic::catch_unwind(std::panic::AssertUnwindSafe(|| victim.get_pixel(x, y)));
                        }
                        let intact = std::panic::catch_unwind(std::panic::AssertUnwindSafe(|| victim.as_bytes() == &bytes[..] && victim == *q && victim.id() == q.id())).unwrap_or(false);
                        if !intact {
                            bad.push(format!("after out-of-bounds accesses were refused the page no longer exposes its bytes / equals its copy ({})", label));
                        }
                    }
                }
                if blank && (p != fresh || hash_of(&p) != hash_of(&fresh)) {
                    bad.push("a page brought back to blank differs from a new page with the same id and size".into());
                }
                // (after a fill the unused bits below the last row may stay lit: nothing says otherwise, so only the
                // histories that never lit them are required to end blank)
                if variant < 2 && !blank {
                    bad.push("page is not blank after every lit pixel was cleared".into());
                }
                (bad, desc.join(", "), blank)
            });
            rep.count("equality_after_history");
            match r {
                Ok((bad, desc, blank)) => {
                    if blank {
                        rep.count("equality_checked_on_pages_back_to_blank");
                    }
                    for b in bad {
                        fail(rep, "roundtrip_not_equal", w, h, &format!("history: {}", desc), b);
                    }
                }
                Err(p) => fail(rep, "panic", w, h, "equality after a history", format!("{} at {}", p.msg, short_loc(&p.loc))),
            }
        }
    }
    if rep.wants_sample() {
        rep.sample(|| J::obj(vec![("size", J::s(format!("{}x{}", w, h))), ("id", J::u(id)), ("padded_len", J::us(expected_len)), ("pixels_checked", J::us(pixels.len()))]));
    }
}

fn all_pixels(w: u32, h: u32) -> Vec<(u32, u32)> {
    let mut v = Vec::with_capacity((w * h) as usize);
    for x in 0..w {
        for y in 0..h {
            v.push((x, y));
        }
    }
    v
}

/// Dimensions far beyond anything that can be allocated: `from_bytes` must still compute the padded size without
/// overflow and reject every buffer we can offer, naming the true expected size.
fn extreme_dimensions(rep: &mut Report) {
    let dims: [(u32, u32); 17] = [
        (65_536, 128),            // exactly 1 MiB of pixel data: 65 536 chunks
        (65_535, 128),
        (1 << 20, 8),
        (1 << 17, 64),
        (4096, 2048),
        (u32::MAX, u32::MAX),
        (u32::MAX, 1),
        (1, u32::MAX),
        (u32::MAX, 8),
        (1 << 16, 1 << 19),       // width x bytes-per-column = 2^32
        (1 << 16, (1 << 19) - 7), // same column byte count, height not a multiple of 8
        (1 << 31, 16),
        (1 << 28, 128),
        ((1 << 16) + 1, 1 << 19),
        (0x1_0000, 0x8_0008),
        (u32::MAX, 0),
        (0, u32::MAX),
    ];
    for (w, h) in dims {
        let cb = (h as u128).div_ceil(8);
        let data = 4 + u128::from(w) * cb;
        let expected = data.div_ceil(16) * 16;
        for len in [0usize, 4, 16, 32, 48, 4096] {
            rep.case(Some(mix(u64::from(w) << 32 | u64::from(h), len as u64)));
            rep.count("extreme_dimension_probes");
            let content = vec![0x5Au8; len];
            let r = catch(|| Page::from_bytes(w, h, &content[..]).map(|p| p.as_bytes().len()));
            let case = format!("from_bytes({}x{}, {} bytes)", w, h, len);
            match r {
                Ok(Ok(n)) => {
                    if len as u128 != expected {
                        fail(rep, "from_bytes_accepts_wrong_length", w, h, &case, format!("accepted {} bytes, the padded size is {}", n, expected));
                    }
                }
                Ok(Err(PageError::WrongPageLength { width, height, expected: e, actual })) => {
                    if len as u128 == expected {
                        fail(rep, "from_bytes_rejects_right_length", w, h, &case, format!("rejected the padded size {}", len));
                    } else if width != w || height != h || e as u128 != expected || actual != len {
                        fail(rep, "wrong_page_length_fields", w, h, &case, format!("error says {}x{} expected {} actual {}; the padded size is {}", width, height, e, actual, expected));
                    }
                }
                Ok(Err(e)) => fail(rep, "from_bytes_error_kind", w, h, &case, format!("{:?}", e)),
                Err(p) => fail(rep, "panic", w, h, &case, format!("{} at {}", p.msg, short_loc(&p.loc))),
            }
        }
    }
}

/// Pages of DIFFERENT sizes built at the same instant on several threads (small, 64 KiB and more, 1 MiB), again and again:
/// every new page is header + blank pixel data + FF padding for ITS size, whatever the other threads are building.
fn concurrent_new_pages(rounds: usize, rep: &mut Report) {
    use std::sync::{Arc, Barrier};
    let sizes: [(u32, u32); 8] = [(4096, 128), (8192, 64), (4000, 136), (65_536, 8), (90, 7), (4097, 127), (65_536, 128), (1, 1)];
    let n = sizes.len();
    let barrier = Arc::new(Barrier::new(n));
    let handles: Vec<_> = (0..n)
        .map(|t| {
            let barrier = barrier.clone();
            std::thread::spawn(move || -> Result<usize, String> {
                let mut built = 0usize;
                let mut first_bad: Option<String> = None;
                // thread t alternates between its own size and its neighbour's, so that equal and different sizes meet
                let mine = [sizes[t], sizes[(t + 1) % n]];
                let mut wants = [RefPage::new(0, mine[0].0, mine[0].1).image(), RefPage::new(0, mine[1].0, mine[1].1).image()];
                for r in 0..rounds {
                    let k = (r % 3 == 2) as usize;
                    let (w, h) = mine[k];
                    wants[k][0] = (r % 251) as u8;
                    if r % 8 == 0 {
                        barrier.wait(); // (every thread runs every round, also after a failure, so nobody waits alone)
                    }
                    let p = Page::new(PageId((r % 251) as u8), w, h);
                    if p.width() != w || p.height() != h || p.as_bytes() != &wants[k][..] {
                        let at = p.as_bytes().iter().zip(&wants[k]).position(|(a, b)| a != b);
                        first_bad.get_or_insert(format!("thread {} round {}: Page::new({}x{}) has {} bytes (expected {}), reports {}x{}, first differing byte at {:?}", t, r, w, h, p.as_bytes().len(), wants[k].len(), p.width(), p.height(), at));
                    } else {
                        built += 1;
                    }
                }
                match first_bad {
                    Some(e) => Err(e),
                    None => Ok(built),
                }
            })
        })
        .collect();
    for (t, h) in handles.into_iter().enumerate() {
        rep.case(Some(0xC07C_0000 + t as u64));
        match h.join() {
            Ok(Ok(k)) => rep.add("pages_built_while_other_threads_built_other_sizes", k as u64),
            Ok(Err(e)) => rep.violation(MON, "new_page_wrong_when_built_concurrently", &format!("concurrent-new|{}", t), e.clone(), J::obj(vec![("workload", J::s("concurrent Page::new")), ("observed", J::s(e))])),
            Err(_) => rep.violation(MON, "panic", &format!("concurrent-new|{}", t), format!("thread {} building pages panicked", t), J::obj(vec![("workload", J::s("concurrent Page::new"))])),
        }
    }
}

/// The same coordinate on two pages of DIFFERENT column strides, one access right after the other: each page's pixel lives
/// in that page's own byte (4 + x * ceil(height / 8) + y / 8), whatever the access before it worked out for another page.
fn same_coordinate_on_two_pages(rep: &mut Report) {
    let dims = [(16u32, 8u32), (8, 16), (20, 20), (112, 16), (90, 7), (30, 10), (9, 33)];
    for (i, a) in dims.iter().enumerate() {
        for (j, b) in dims.iter().enumerate() {
            if i == j {
                continue;
            }
            rep.case(Some(0xC07_2000 + (i * 16 + j) as u64));
            let (w, h) = (a.0.min(b.0), a.1.min(b.1));
            let r = catch(|| {
                let mut bad: Vec<String> = vec![];
                for x in 0..w {
                    for y in 0..h {
                        let mut pa = Page::new(PageId(1), a.0, a.1);
                        let mut pb = Page::new(PageId(2), b.0, b.1);
                        pa.set_pixel(x, y, true);
                        pb.set_pixel(x, y, true);
                        let got_b = pb.get_pixel(x, y);
                        let got_a = pa.get_pixel(x, y);
                        for (name, p, dim) in [("first", &pa, a), ("second", &pb, b)] {
                            let idx = 4 + (x as usize) * refs::col_bytes(dim.1) + (y / 8) as usize;
                            let mut want = Page::new(PageId(if name == "first" { 1 } else { 2 }), dim.0, dim.1).as_bytes().to_vec();
                            want[idx] |= 1 << (y % 8);
                            if p.as_bytes() != &want[..] && bad.len() < 3 {
                                let at = p.as_bytes().iter().zip(&want).position(|(u, v)| u != v);
                                bad.push(format!("pixel ({},{}) set on a {}x{} page and then on a {}x{} page: the {} page differs from its layout at byte {:?} (the pixel belongs in byte {})", x, y, a.0, a.1, b.0, b.1, name, at, idx));
                            }
                        }
                        if (!got_a || !got_b) && bad.len() < 3 {
                            bad.push(format!("pixel ({},{}) set on a {}x{} page and then on a {}x{} page reads {} / {}", x, y, a.0, a.1, b.0, b.1, got_a, got_b));
                        }
                    }
                }
                bad
            });
            match r {
                Ok(bad) => {
                    if bad.is_empty() {
                        rep.count("page_pairs_accessed_at_the_same_coordinates");
                    }
                    for b in bad {
                        rep.violation(MON, "wrong_byte_after_another_page", &format!("two-pages|{}|{}", i, j), b.clone(), J::obj(vec![("workload", J::s("same coordinate on two pages")), ("observed", J::s(b))]));
                    }
                }
                Err(p) => rep.violation(MON, "panic", &format!("two-pages|{}|{}", i, j), format!("panic {} at {}", p.msg, short_loc(&p.loc)), J::obj(vec![("workload", J::s("same coordinate on two pages"))])),
            }
        }
    }
}

/// A page over the CALLER'S bytes (arbitrary header bytes 1..3, arbitrary padding, arbitrary unused bits) that is filled,
/// cleared and drawn on: only bits of the pixel area change — the id, the other header bytes and the padding stay what the
/// caller gave, for a borrowed buffer as for an owned one.
fn fills_keep_what_is_not_pixels(rng: &mut Rng, rep: &mut Report) {
    for (w, h) in [(1u32, 1u32), (7, 7), (90, 7), (112, 16), (40, 12), (30, 10), (9, 33), (3, 2), (0, 5), (5, 0)] {
        let len = refs::padded_len(w, h);
        let data_end = 4 + (w as usize) * refs::col_bytes(h);
        for owned in [false, true] {
            for round in 0..6usize {
                let given = rng.bytes(len);
                rep.case(Some(crate::util::fnv(&given) ^ round as u64));
                let r = catch(std::panic::AssertUnwindSafe(|| -> Result<Vec<String>, String> {
                    let mut p = if owned { Page::from_bytes(w, h, given.clone()) } else { Page::from_bytes(w, h, &given[..]) }.map_err(|e| e.to_string())?;
                    let mut bad = vec![];
                    let mut check = |p: &Page<'_>, after: &str, bad: &mut Vec<String>| {
                        let b = p.as_bytes();
                        if b.len() != len || b[..4.min(len)] != given[..4.min(len)] || b[data_end.min(len)..] != given[data_end.min(len)..] {
                            bad.push(format!("after {}: header {:02x?} (given {:02x?}), bytes behind the pixel area {} (given {})", after, &b[..4.min(b.len())], &given[..4.min(len)], hex(&b[data_end.min(b.len())..]), hex(&given[data_end.min(len)..])));
                        }
                    };
                    match round % 3 {
                        0 => {
                            p.set_all_pixels(false);
                            check(&p, "set_all_pixels(false)", &mut bad);
                            p.set_all_pixels(true);
                            check(&p, "set_all_pixels(false), set_all_pixels(true)", &mut bad);
                        }
                        1 => {
                            p.set_all_pixels(true);
                            check(&p, "set_all_pixels(true)", &mut bad);
                            if w > 0 && h > 0 {
                                p.set_pixel(w - 1, h - 1, false);
                                check(&p, "set_all_pixels(true), one pixel cleared", &mut bad);
                            }
                        }
                        _ => {
                            if w > 0 && h > 0 {
                                p.set_pixel(0, 0, true);
                                p.set_pixel(w - 1, h - 1, true);
                                check(&p, "two pixels set", &mut bad);
                            }
                            let q = p.clone();
                            p.set_all_pixels(false);
                            check(&p, "clone taken, set_all_pixels(false)", &mut bad);
                            check(&q, "set_all_pixels(false) on the page it was cloned from", &mut bad);
                        }
                    }
                    Ok(bad)
                }));
                let sig = format!("fills|{}x{}|{}|{}", w, h, owned, round);
                match r {
                    Ok(Ok(bad)) => {
                        if bad.is_empty() {
                            rep.count("pages_over_the_callers_bytes_filled_and_drawn_on");
                        }
                        for b in bad.into_iter().take(2) {
                            rep.violation(MON, "fill_changes_bytes_outside_the_pixel_area", &sig, format!("{}x{} page over the caller's bytes ({}): {}", w, h, if owned { "owned" } else { "borrowed" }, b), J::obj(vec![("workload", J::s("fills keep what is not pixels")), ("observed", J::s(b.clone()))]));
                        }
                    }
                    Ok(Err(e)) => rep.violation(MON, "from_bytes_refuses_padded_length", &sig, format!("from_bytes({}x{}, {} bytes) refused: {}", w, h, len, e), J::obj(vec![("workload", J::s("fills keep what is not pixels"))])),
                    Err(p) => rep.violation(MON, "panic", &sig, format!("{}x{} page over the caller's bytes: panic {} at {}", w, h, p.msg, short_loc(&p.loc)), J::obj(vec![("workload", J::s("fills keep what is not pixels"))])),
                }
            }
        }
    }
}

/// Dimensions whose pixel data comes to 4 GiB or more (the byte count no longer fits in 32 bits): `from_bytes` still
/// refuses every slice that is not of the padded length — here slices of 0 .. 4112 bytes, none of which is.
pub fn huge_dimensions_short_slices(rep: &mut Report) {
    for (w, h) in [(65_536u32, 524_288u32), (8, u32::MAX), (u32::MAX, 8), (u32::MAX, 1), (65_537, 524_288), (1 << 20, 1 << 20), (u32::MAX, u32::MAX), (1 << 31, 16), ((1 << 29) + 1, 64), (1 << 16, 1 << 19)] {
        let need = 4u128 + u128::from(w) * u128::from(h.div_ceil(8));
        for len in [0usize, 4, 12, 16, 32, 4096, 4112] {
            let sig = format!("huge-short|{}x{}|{}", w, h, len);
            rep.case(Some(crate::util::fnv(sig.as_bytes())));
            if need.div_ceil(16) * 16 == len as u128 {
                continue;
            }
            let buf = vec![0u8; len];
            let r = catch(|| (Page::from_bytes(w, h, &buf[..]).is_ok(), Page::from_bytes(w, h, buf.clone()).is_ok()));
            match r {
                Ok((false, false)) => rep.count("short_slices_for_huge_dimensions_refused"),
                Ok(_) => rep.violation(MON, "from_bytes_accepts_wrong_length", &sig, format!("from_bytes({}x{}, {} bytes) succeeded; the padded size has {} digits", w, h, len, (need.div_ceil(16) * 16).to_string().len()), J::obj(vec![("workload", J::s("huge dimensions, short slices")), ("width", J::Int(i128::from(w))), ("height", J::Int(i128::from(h))), ("len", J::Int(len as i128))])),
                Err(p) => rep.violation(MON, "panic", &sig, format!("from_bytes({}x{}, {} bytes): panic {} at {}", w, h, len, p.msg, short_loc(&p.loc)), J::Null),
            }
        }
    }
}

/// Pages over the caller's bytes whose pixel area is all one value, with EVERY page id 0..=255 in the header (an id that
/// equals the fill byte, the header marker, a column byte ...), borrowed and owned: a fill makes every pixel read the
/// value, a clear makes every pixel read dark, and the id stays what it was.
pub fn uniform_pages_with_every_id(rep: &mut Report) {
    for (w, h) in [(90u32, 7u32), (16, 16), (9, 9)] {
        let cb = refs::col_bytes(h);
        let l = (w as usize) * cb;
        let len = refs::padded_len(w, h);
        for id in 0..=255u8 {
            for base in [0x00u8, 0xFF] {
                for owned in [false, true] {
                    let mut given = vec![0xFFu8; len];
                    given[0] = id;
                    given[1] = 0x10;
                    given[2] = 0;
                    given[3] = 0;
                    for b in given[4..4 + l].iter_mut() {
                        *b = base;
                    }
                    let sig = format!("uniform-id|{}x{}|{}|{:02X}|{}", w, h, id, base, owned);
                    rep.case(Some(crate::util::fnv(sig.as_bytes())));
                    let r = catch(std::panic::AssertUnwindSafe(|| -> Result<Option<String>, String> {
                        for first in [false, true] {
                            let mut p = if owned { Page::from_bytes(w, h, given.clone()) } else { Page::from_bytes(w, h, &given[..]) }.map_err(|e| e.to_string())?;
                            for fill in [first, !first] {
                                p.set_all_pixels(fill);
                                for x in 0..w {
                                    for y in 0..h {
                                        if p.get_pixel(x, y) != fill {
                                            return Ok(Some(format!("after set_all_pixels({}) (the first call was {}) pixel ({},{}) reads {}", fill, first, x, y, !fill)));
                                        }
                                    }
                                }
                                if p.id() != PageId(id) || p.as_bytes()[0] != id {
                                    return Ok(Some(format!("after set_all_pixels({}) the id is {:?}", fill, p.id())));
                                }
                            }
                        }
                        Ok(None)
                    }));
                    match r {
                        Ok(Ok(None)) => rep.count("uniform_pages_with_every_id"),
                        Ok(Ok(Some(what))) => rep.violation(MON, "fill_of_a_uniform_page_goes_wrong", &sig, format!("{}x{} page id {} over {} bytes whose pixel area is all {:02X}: {}", w, h, id, if owned { "owned" } else { "borrowed" }, base, what), J::obj(vec![("workload", J::s("uniform pages with every id")), ("width", J::Int(i128::from(w))), ("height", J::Int(i128::from(h))), ("id", J::Int(i128::from(id))), ("base", J::Int(i128::from(base))), ("owned", J::Bool(owned)), ("observed", J::s(what.clone()))])),
                        Ok(Err(e)) => rep.violation(MON, "well_formed_page_refused", &sig, format!("from_bytes refused a well-formed {}x{} page with id {}: {}", w, h, id, e), J::Null),
                        Err(p) => rep.violation(MON, "panic", &sig, format!("{}x{} page id {}: panic {} at {}", w, h, id, p.msg, short_loc(&p.loc)), J::Null),
                    }
                }
            }
        }
    }
}

/// Pages over the caller's bytes whose pixel area is ALL ONE VALUE BUT FOR ONE BYTE (at every position in turn), then
/// filled with that value, and with the other: afterwards every byte of the pixel area holds the fill — a shortcut that
/// looks at some of the bytes and concludes there is nothing to do is wrong exactly here.
fn nearly_uniform_pages(rep: &mut Report) {
    for (w, h) in [(90u32, 7u32), (112, 16), (40, 12), (30, 10), (23, 10), (96, 8), (17, 9), (25, 1)] {
        let cb = refs::col_bytes(h);
        let l = (w as usize) * cb;
        let len = refs::padded_len(w, h);
        let full_col: Vec<u8> = (0..cb).map(|b| (0..8u32).filter(|k| (b as u32) * 8 + k < h).fold(0u8, |m, k| m | (1 << k))).collect();
        for base_lit in [false, true] {
            for pos in 0..l {
                for owned in [false, true] {
                    if owned && pos % 5 != 0 {
                        continue;
                    }
                    let mut given = vec![0u8; len];
                    given[0] = 9;
                    given[1] = 0x10;
                    for i in 0..l {
                        given[4 + i] = if base_lit { full_col[i % cb] } else { 0 };
                    }
                    for b in given[4 + l..].iter_mut() {
                        *b = 0xFF;
                    }
                    // the odd byte: one pixel of it differs from the rest
                    given[4 + pos] ^= 0x01;
                    let r = catch(std::panic::AssertUnwindSafe(|| -> Result<Option<String>, String> {
                        let mut p = if owned { Page::from_bytes(w, h, given.clone()) } else { Page::from_bytes(w, h, &given[..]) }.map_err(|e| e.to_string())?;
                        for fill in [base_lit, !base_lit] {
                            p.set_all_pixels(fill);
                            let x = (pos / cb) as u32;
                            let y = ((pos % cb) * 8) as u32;
                            if p.get_pixel(x, y) != fill {
                                return Ok(Some(format!("after set_all_pixels({}) pixel ({},{}) — the one that differed — reads {}", fill, x, y, !fill)));
                            }
                            let fresh = {
                                let mut q = Page::new(PageId(9), w, h);
                                q.set_all_pixels(fill);
                                q
                            };
                            for xx in [0, x, w - 1] {
                                for yy in 0..h {
                                    if p.get_pixel(xx, yy) != fresh.get_pixel(xx, yy) {
                                        return Ok(Some(format!("after set_all_pixels({}) pixel ({},{}) reads {}", fill, xx, yy, !fill)));
                                    }
                                }
                            }
                        }
                        Ok(None)
                    }));
                    rep.case(Some(mix(u64::from(w) << 32 | u64::from(h), (pos * 4 + base_lit as usize * 2 + owned as usize) as u64 ^ 0x0E1F)));
                    let sig = format!("nearly-uniform|{}x{}|{}|{}|{}", w, h, base_lit, pos, owned);
                    match r {
                        Ok(Ok(None)) => rep.count("nearly_uniform_pages_filled"),
                        Ok(Ok(Some(wh))) => rep.violation(MON, "fill_leaves_a_pixel", &sig, format!("{}x{} page over the caller's bytes ({}), {} but for one pixel in byte {} of the pixel area: {}", w, h, if owned { "owned" } else { "borrowed" }, if base_lit { "fully lit" } else { "dark" }, pos, wh), J::obj(vec![("workload", J::s("nearly uniform pages")), ("observed", J::s(wh.clone()))])),
                        Ok(Err(e)) => rep.violation(MON, "from_bytes_refuses_padded_length", &sig, e.clone(), J::obj(vec![("workload", J::s("nearly uniform pages"))])),
                        Err(p) => rep.violation(MON, "panic", &sig, format!("panic {} at {}", p.msg, short_loc(&p.loc)), J::obj(vec![("workload", J::s("nearly uniform pages"))])),
                    }
                }
            }
        }
    }
}

/// New pages of 4 KiB and more whose data ends exactly on a 16-byte boundary (no padding at all), one byte short of it,
/// and one byte past it: header, zeros, FF padding — compared byte for byte with the reference image.
fn large_pages_around_a_chunk_boundary(rep: &mut Report) {
    let mut done = 0usize;
    for cb in [1u32, 2, 4, 12, 3] {
        let h = cb * 8 - if cb == 3 { 5 } else { 0 };
        let mut picked = 0usize;
        let mut w = 4096 / cb;
        while picked < 4 && w < 70_000 {
            if (4 + w * cb) % 16 == 0 {
                for dw in [0u32, 1, 15] {
                    let ww = w + dw;
                    rep.case(Some(mix(u64::from(ww) << 32 | u64::from(h), 0xB0DA)));
                    let want = RefPage::new(3, ww, h).image();
                    match catch(|| Page::new(PageId(3), ww, h).as_bytes().to_vec()) {
                        Ok(got) if got == want => done += 1,
                        Ok(got) => {
                            let at = got.iter().zip(&want).position(|(a, b)| a != b);
                            rep.violation(MON, "new_page_not_header_zeros_padding", &format!("boundary|{}x{}", ww, h), format!("Page::new({}x{}) — {} bytes of data, {} of padding — differs from header + zeros + FF padding at byte {:?} ({} bytes, expected {})", ww, h, 4 + ww * cb, want.len() as u32 - 4 - ww * cb, at, got.len(), want.len()), J::obj(vec![("workload", J::s("large pages around a chunk boundary")), ("width", J::Int(i128::from(ww))), ("height", J::Int(i128::from(h)))]));
                        }
                        Err(p) => rep.violation(MON, "panic", &format!("boundary|{}x{}", ww, h), format!("Page::new({}x{}): panic {} at {}", ww, h, p.msg, short_loc(&p.loc)), J::obj(vec![("workload", J::s("large pages around a chunk boundary"))])),
                    }
                }
                picked += 1;
                w += 4096 / cb + 7;
            } else {
                w += 1;
            }
        }
    }
    rep.add("large_new_pages_around_a_chunk_boundary", done as u64);
}

pub fn run(ctx: &Ctx) -> Outcome {
    let (bw, bh) = if ctx.quick() { (100u32, 48u32) } else { (256, 136) };
    let mut sizes: Vec<(u32, u32, bool)> = vec![]; // (w, h, sampled pixels only)
    for w in 0..=bw {
        for h in 0..=bh {
            sizes.push((w, h, false));
        }
    }
    let box_n = sizes.len();
    for t in refs::TYPES.iter() {
        sizes.push((t.w, t.h, false));
    }
    // tall and wide pages, every pixel: rows / columns just beyond 255, 256 and 2040 (8 x 255)
    let n_tall = {
        let before = sizes.len();
        for d in [(2u32, 257u32), (1, 264), (8, 300), (257, 3), (1021, 8), (2, 2041), (4, 256), (2, 2049), (3, 2056), (1, 4100), (1, 65_537), (2049, 2)] {
            sizes.push((d.0, d.1, false));
        }
        sizes.len() - before
    };
    // (the last three are pages of 1 MiB and just around it: 65 536 chunks of 16 bytes)
    for big in [(1u32, 255u32), (1020, 255), (4096, 64), (65532, 8), (65_535, 128), (65_536, 128), (262_144, 33)] {
        sizes.push((big.0, big.1, true));
    }
    // more large sizes (sampled pixels): random dimensions whose pixel area stays below 4 MB
    let n_large_random = if ctx.quick() { 12 } else { 600 };
    {
        let mut rng = ctx.rng("large-sizes", 0);
        while sizes.len() < box_n + 11 + n_tall + 7 + n_large_random {
            let hmax = if rng.bool() { 300 } else { 4000 };
            let h = 1 + rng.below(hmax) as u32;
            let wmax = if rng.bool() { 3000 } else { 70_000 };
            let w = 1 + rng.below(wmax) as u32;
            if (w as usize) * refs::col_bytes(h) <= 4 << 20 {
                sizes.push((w, h, true));
            }
        }
    }
    let n_large = 7 + n_large_random as u64;
    let ns = sizes.len();
    let mut report = run_sharded(ctx, ns + 3, |shard, rep| {
        let mut rng = ctx.rng("size", shard as u64);
        if shard < ns {
            let (w, h, sampled) = sizes[shard];
            let px = if sampled {
                let mut v = vec![(0, 0), (w - 1, 0), (0, h - 1), (w - 1, h - 1)];
                for _ in 0..if ctx.quick() { 512 } else { 4096 } {
                    v.push((rng.below(u64::from(w)) as u32, rng.below(u64::from(h)) as u32));
                }
                rep.count("large_sizes_done");
                v
            } else {
                all_pixels(w, h)
            };
            check_size((shard % 256) as u8, w, h, &px, &mut rng, rep);
            if shard < box_n {
                rep.count("box_sizes_done");
            } else if !sampled {
                rep.count("real_sizes_done");
            }
        } else {
            // all ids 0..=255 on three sizes
            if shard == ns {
                extreme_dimensions(rep);
            }
            let (w, h) = [(90u32, 7u32), (40, 12), (3, 9)][shard - ns];
            for id in 0..=255u8 {
                check_size(id, w, h, &[(0, 0), (w - 1, h - 1)], &mut rng, rep);
                rep.seen("ids", u64::from(id));
            }
        }
    });
    {
        // the same calls from a thread-local destructor while a thread exits (see exitprobe.rs)
        let mut at_exit = Report::new();
        crate::exitprobe::check("page", MON, &mut at_exit);
        concurrent_new_pages(if ctx.quick() { 96 } else { 2000 }, &mut at_exit);
        same_coordinate_on_two_pages(&mut at_exit);
        fills_keep_what_is_not_pixels(&mut ctx.rng("fills", 0), &mut at_exit);
        nearly_uniform_pages(&mut at_exit);
        uniform_pages_with_every_id(&mut at_exit);
        huge_dimensions_short_slices(&mut at_exit);
        large_pages_around_a_chunk_boundary(&mut at_exit);
        crate::exitprobe::check_migration("page", MON, &mut at_exit);
        report.merge(at_exit);
    }
    let floors = vec![
        floor("new pages of 8 different sizes (1 byte .. 1 MiB) built at the same instant on 8 threads, every one checked", report.get("pages_built_while_other_threads_built_other_sizes") >= 8 * 96, report.get("pages_built_while_other_threads_built_other_sizes")),
        floor("the same coordinate set on two pages of different strides one right after the other (42 ordered pairs, every common pixel)", report.get("page_pairs_accessed_at_the_same_coordinates") == 42, report.get("page_pairs_accessed_at_the_same_coordinates")),
        floor("pages over the caller's bytes (arbitrary header and padding, borrowed and owned) filled, cleared and drawn on: nothing outside the pixel area changes", report.get("pages_over_the_callers_bytes_filled_and_drawn_on") == 120, report.get("pages_over_the_callers_bytes_filled_and_drawn_on")),
        floor("slices of 0 .. 4112 bytes for ten dimensions of 4 GiB and more: all refused", report.get("short_slices_for_huge_dimensions_refused") == 70, report.get("short_slices_for_huge_dimensions_refused")),
        floor("pages over bytes whose pixel area is all one value, with every id 0..=255 (3 sizes, borrowed and owned), filled and cleared in both orders", report.get("uniform_pages_with_every_id") == 3 * 256 * 4, report.get("uniform_pages_with_every_id")),
        floor("pages that are all one value but for one pixel (in every byte of the pixel area in turn), then filled", report.get("nearly_uniform_pages_filled") > 1_500, report.get("nearly_uniform_pages_filled")),
        floor("new pages of 4 KiB and more whose data ends on, just before and just past a 16-byte boundary", report.get("large_new_pages_around_a_chunk_boundary") == 60, report.get("large_new_pages_around_a_chunk_boundary")),
        floor("every size of the box checked", report.get("box_sizes_done") == box_n as u64, report.get("box_sizes_done")),
        floor("11 real sizes and the tall / wide sizes checked pixel by pixel", report.get("real_sizes_done") == 11 + n_tall as u64, report.get("real_sizes_done")),
        floor("every large size checked", report.get("large_sizes_done") == n_large, report.get("large_sizes_done")),
        floor("all 256 ids", report.set_len("ids") == 256, report.set_len("ids")),
        floor("sizes whose data ends on a 16-byte boundary", report.get("sizes_ending_on_16_byte_boundary") > 0, report.get("sizes_ending_on_16_byte_boundary")),
        floor("column byte counts 0..=5 all seen", report.set_len("column_bytes") >= 6, report.set_len("column_bytes")),
        floor("pixel placement also checked on borrowed pages with existing content", report.get("pixels_checked_on_borrowed_pages") > 10_000, report.get("pixels_checked_on_borrowed_pages")),
        floor("equality with from_bytes(as_bytes()) after set/clear/fill histories, incl. pages brought back to blank", report.get("equality_checked_on_pages_back_to_blank") > 1000, report.get("equality_checked_on_pages_back_to_blank")),
        floor("from_bytes with dimensions up to u32::MAX", report.get("extreme_dimension_probes") == 102, report.get("extreme_dimension_probes")),
        floor("from_bytes both accepted and rejected", report.get("from_bytes_accepted") > 0 && report.get("from_bytes_rejected") > 0, report.get("from_bytes_rejected")),
    ];
    Outcome {
        report,
        level: "exploration",
        rule: format!("every size in the box 0..={} x 0..={} + 11 real sizes (EVERY pixel individually) + {} large sizes up to 70000 columns / 4000 rows (corners + random pixels) + all 256 ids on 3 sizes; from_bytes with every length in [expected-17, expected+17], 0 and the unpadded size, from Vec and slice; distinct by (size,id); all non-trivial", bw, bh, n_large),
        exhaustive: false,
        floors,
        assumptions: vec!["oracle: layout arithmetic in refs.rs (col_bytes, padded_len, image) written from the documented layout".into()],
        extra: vec![],
    }
}
