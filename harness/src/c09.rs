//! C09 — controller data transfers are complete, ordered, correctly offset and counted.
//! An offline trace checker over the (message, reply) log of a recording bus.

use std::cell::RefCell;
use std::rc::Rc;

use flipdot::{Page, PageId, SignBus};
use flipdot_core::Message;
use flipdot_testing::{VirtualSign, VirtualSignBus};

use crate::ctl::{self, SignOut};
use crate::refctl::Op;
use crate::refs::{self, *};
use crate::util::{Ctx, J, Outcome, Report, Rng, floor, fnv, run_sharded};

const MON: &str = "transfer_trace";

/// A bus whose sign side is either a real virtual sign or a canned responder; it can make the first
/// `fail_attempts` transfer attempts fail *for real* by swallowing one data chunk of each.
struct TraceBus {
    inner: Option<VirtualSignBus<'static>>,
    own: u16,
    fail_attempts: usize,
    // canned-responder state
    in_transfer: Option<usize>,
    attempt_failed: bool,
    attempts_seen: usize,
    swallowed_this_attempt: bool,
    /// (attempt number, kind): the transfer request of that attempt is answered with something other than its
    /// acknowledgement (0 none, 1 a state report, 2 the ack of another operation, 3 the ack from another address)
    nack: Option<(usize, u8)>,
    pub log: Vec<(RefMsg, Option<RefMsg>)>,
    /// (attempt, state): the result query of that attempt is answered with this state from the sign's own address instead
    /// of received / failed (canned responder only) — the controller stops there; nothing more may be sent
    odd_result: Option<(usize, usize)>,
    /// the bus fails ONCE, at the message with this index in the log (with the error flavour given), after logging it
    fail_once_at: Option<(usize, u8)>,
    pub failed: bool,
}

impl SignBus for TraceBus {
    fn process_message<'a>(&mut self, message: Message<'_>) -> Result<Option<Message<'a>>, Box<dyn std::error::Error + Send + Sync>> {
        let m = refs::to_ref(&message);
        if let Some((at, flavour)) = self.fail_once_at {
            if at == self.log.len() && !self.failed {
                self.failed = true;
                self.log.push((m, None));
                return Err(crate::doubles::bus_error(flavour));
            }
        }
        // decide whether to swallow this chunk (the first chunk of a failing attempt)
        let mut swallow = false;
        if let RefMsg::Request(_, o) = &m {
            if *o == O_RECV_CFG || *o == O_RECV_PIX {
                self.attempts_seen += 1;
                self.swallowed_this_attempt = false;
                self.in_transfer = Some(*o);
                self.attempt_failed = false;
            }
        }
        if matches!(m, RefMsg::Data { .. }) && self.attempts_seen <= self.fail_attempts && !self.swallowed_this_attempt {
            swallow = true;
            self.swallowed_this_attempt = true;
            self.attempt_failed = true;
        }
        let reply: Option<RefMsg> = match &mut self.inner {
            Some(vb) => {
                if swallow {
                    None
                } else {
                    vb.process_message(message)?.map(|r| refs::to_ref(&r))
                }
            }
            None => match &m {
                RefMsg::Hello(a) | RefMsg::Query(a) if *a == self.own => Some(RefMsg::Report(
                    self.own,
                    match self.in_transfer {
                        None => S_UNCONF,
                        Some(O_RECV_CFG) => {
                            if self.attempt_failed { S_CFG_FAIL } else { S_CFG_RECV }
                        }
                        Some(_) => {
                            if self.attempt_failed { S_PIX_FAIL } else { S_PIX_RECV }
                        }
                    },
                )),
                RefMsg::Request(a, o) if *a == self.own => Some(RefMsg::Ack(self.own, *o)),
                _ => None,
            },
        };
        let reply = match (&m, self.odd_result, self.in_transfer) {
            (RefMsg::Query(a), Some((k, st)), Some(_)) if *a == self.own && k == self.attempts_seen && self.inner.is_none() && self.log.last().map(|l| matches!(l.0, RefMsg::Count(_))).unwrap_or(false) => {
                self.failed = true; // (the call is cut short here: what follows is judged as after a bus failure)
                Some(RefMsg::Report(self.own, st))
            }
            _ => reply,
        };
        let reply = match (&m, self.nack) {
            (RefMsg::Request(a, o), Some((k, kind))) if (*o == O_RECV_CFG || *o == O_RECV_PIX) && k == self.attempts_seen => match kind {
                0 => None,
                1 => Some(RefMsg::Report(*a, if *o == O_RECV_CFG { S_CFG_FAIL } else { S_PIX_FAIL })),
                2 => Some(RefMsg::Ack(*a, if *o == O_RECV_CFG { O_RECV_PIX } else { O_RECV_CFG })),
                _ => Some(RefMsg::Ack(*a ^ 1, *o)),
            },
            _ => reply,
        };
        // a transfer with zero chunks cannot be failed by swallowing: fail it at the count instead (canned only)
        if self.inner.is_none() && matches!(m, RefMsg::Count(_)) && self.attempts_seen <= self.fail_attempts {
            self.attempt_failed = true;
        }
        self.log.push((m, reply.clone()));
        Ok(reply.map(|r| refs::from_ref(&r)))
    }
}

#[derive(Clone)]
struct Case {
    ty: usize,
    own: u16,
    op: Op,
    /// page images with their dims
    pages: Vec<(u32, u32, Vec<u8>)>,
    fail_attempts: usize,
    virtual_sign: bool,
    auto: bool,
    nack: Option<(usize, u8)>,
    label: &'static str,
    /// an earlier call made with the SAME `Sign` object on the same bus (operation, pages, failing attempts); its
    /// trace is checked too, and nothing of it may leak into the trace of the call under test
    prior: Option<(Op, Vec<(u32, u32, Vec<u8>)>, usize)>,
}

impl Case {
    fn sig(&self) -> String {
        format!(
            "{}|{}|{:04X}|{}|fail{}|nack{:?}|{}|{}|{}",
            self.op.name(),
            TYPES[self.ty].name,
            self.own,
            self.pages.iter().map(|(w, h, b)| format!("{}x{}:{:016x}", w, h, fnv(b))).collect::<Vec<_>>().join(","),
            self.fail_attempts,
            self.nack,
            if self.virtual_sign { "vsign" } else { "canned" },
            self.label,
            match &self.prior {
                None => String::new(),
                Some((op, pages, fail)) => format!("after {}:{}:fail{}", op.name(), pages.iter().map(|(w, h, b)| format!("{}x{}:{:016x}", w, h, fnv(b))).collect::<Vec<_>>().join(","), fail),
            }
        )
    }
}

/// The trace predicates. `items` are the byte strings the transfer must carry, in order.
fn check_trace(log: &[(RefMsg, Option<RefMsg>)], own: u16, op: usize, items: &[Vec<u8>], rep: &mut Report) -> Vec<(&'static str, String)> {
    let mut bad: Vec<(&'static str, String)> = vec![];
    let n = log.len();
    let mut i = 0;
    let mut attempts = 0;
    while i < n {
        match &log[i].0 {
            RefMsg::Request(a, o) if *o == op && *a == own => {
                let acked = log[i].1 == Some(RefMsg::Ack(own, op));
                i += 1;
                if !acked {
                    rep.count("unacknowledged_requests_seen");
                    // no acknowledgement: nothing may follow as part of this transfer
                    if i < n && matches!(log[i].0, RefMsg::Data { .. } | RefMsg::Count(_)) {
                        bad.push(("data_without_acknowledgement", format!("message #{} {} follows a request that was not acknowledged", i, log[i].0.show())));
                    }
                    continue;
                }
                attempts += 1;
                rep.count("transfer_attempts_checked");
                // expected chunk stream
                let mut k = i;
                let mut sent = 0usize;
                'items: for (ii, item) in items.iter().enumerate() {
                    let mut off = 0usize;
                    while off < item.len() {
                        let want_len = (item.len() - off).min(16);
                        match log.get(k) {
                            Some((RefMsg::Data { offset, data }, reply)) => {
                                if usize::from(*offset) != off % 65_536 {
                                    bad.push(("wrong_offset", format!("attempt {} item {} chunk at byte {}: offset {:04X}, expected {:04X}", attempts, ii, off, offset, off % 65_536)));
                                }
                                if data.len() != want_len {
                                    bad.push(("wrong_chunk_size", format!("attempt {} item {} chunk at byte {}: {} bytes, expected {}", attempts, ii, off, data.len(), want_len)));
                                }
                                if data.len() > 16 {
                                    bad.push(("chunk_over_16_bytes", format!("attempt {} item {}: a chunk of {} bytes", attempts, ii, data.len())));
                                }
                                if item.get(off..off + data.len()) != Some(&data[..]) {
                                    bad.push(("wrong_chunk_content", format!("attempt {} item {} chunk at byte {}: bytes differ from the item", attempts, ii, off)));
                                }
                                if reply.is_some() {
                                    // the controller must stop here (C11 checks that); the trace simply ends
                                }
                                off += data.len().max(1);
                                sent += 1;
                                k += 1;
                            }
                            other => {
                                bad.push(("incomplete_transfer", format!("attempt {} item {}: expected the chunk at byte {}, found {}", attempts, ii, off, other.map(|x| x.0.show()).unwrap_or_else(|| "end of log".into()))));
                                break 'items;
                            }
                        }
                        if !bad.is_empty() {
                            break 'items;
                        }
                    }
                }
                if !bad.is_empty() {
                    return bad;
                }
                rep.add("chunks_checked", sent as u64);
                rep.max("largest_chunk_offset", items.iter().map(|it| it.len().saturating_sub(1) / 16 * 16).max().unwrap_or(0) as f64);
                match log.get(k) {
                    Some((RefMsg::Count(c), _)) => {
                        if usize::from(*c) != sent % 65_536 {
                            bad.push(("wrong_chunk_count", format!("attempt {}: announced {} chunks, sent {} since the request", attempts, c, sent)));
                        }
                    }
                    Some((RefMsg::Data { offset, data }, _)) => bad.push(("extra_chunk", format!("attempt {}: extra chunk @{:04X} ({} bytes) after the last item", attempts, offset, data.len()))),
                    other => bad.push(("no_chunk_count", format!("attempt {}: expected the chunk count, found {}", attempts, other.map(|x| x.0.show()).unwrap_or_else(|| "end of log".into())))),
                }
                match log.get(k + 1) {
                    Some((RefMsg::Query(a), _)) if *a == own => {}
                    other => bad.push(("result_not_queried_after_count", format!("attempt {}: after the chunk count came {}", attempts, other.map(|x| x.0.show()).unwrap_or_else(|| "nothing".into())))),
                }
                if !bad.is_empty() {
                    return bad;
                }
                i = k + 2;
            }
            RefMsg::Data { .. } | RefMsg::Count(_) => {
                bad.push(("data_outside_transfer", format!("message #{} {} is not inside an acknowledged transfer", i, log[i].0.show())));
                return bad;
            }
            _ => i += 1,
        }
    }
    if attempts == 0 && !log.iter().any(|(m, r)| matches!(m, RefMsg::Request(a, o) if *o == op && *a == own && *r != Some(RefMsg::Ack(own, op)))) {
        bad.push(("no_transfer_attempt", "no acknowledged transfer request in the log".into()));
    }
    rep.seen("attempts_per_call", attempts as u64);
    if attempts > 3 {
        bad.push(("more_than_three_attempts", format!("{} transfer attempts in one call", attempts)));
    }
    bad
}

fn run_case(c: &Case, rep: &mut Report) {
    rep.case(Some(fnv(c.sig().as_bytes())));
    rep.count(&format!("cases/{}", c.label));
    let inner = if c.virtual_sign {
        let mut vs = VirtualSign::new(flipdot::Address(c.own), if c.auto { flipdot::PageFlipStyle::Automatic } else { flipdot::PageFlipStyle::Manual });
        if c.op == Op::SendPages {
            // the sign must be configured before it accepts pixels
            for m in crate::vsx::configure_msgs(c.own, &BLOCKS[c.ty]) {
                vs.process_message(&refs::from_ref(&m));
            }
        }
        Some(VirtualSignBus::new(vec![vs]))
    } else {
        None
    };
    let tb = Rc::new(RefCell::new(TraceBus {
        inner,
        own: c.own,
        fail_attempts: c.fail_attempts,
        in_transfer: None,
        attempt_failed: false,
        attempts_seen: 0,
        swallowed_this_attempt: false,
        nack: c.nack,
        log: vec![],
        fail_once_at: None,
        failed: false,
        odd_result: None,
    }));
    let sign = ctl::mk_sign(tb.clone(), c.own, c.ty);
    let mut prior_bad = vec![];
    if let Some((pop, ppages, pfail)) = &c.prior {
        tb.borrow_mut().fail_attempts = *pfail;
        let saved_nack = tb.borrow_mut().nack.take();
        let pp: Vec<Page<'static>> = ppages.iter().map(|(w, h, b)| ctl::page_from_image(*w, *h, b.clone())).collect();
        let pout = ctl::run_op(&sign, pop, &pp);
        let plog = std::mem::take(&mut tb.borrow_mut().log);
        let (xop, items): (usize, Vec<Vec<u8>>) = if *pop == Op::Configure { (O_RECV_CFG, vec![BLOCKS[c.ty].to_vec()]) } else { (O_RECV_PIX, ppages.iter().map(|p| p.2.clone()).collect()) };
        prior_bad = check_trace(&plog, c.own, xop, &items, rep);
        rep.count("earlier_calls_on_the_same_sign_object");
        rep.count(if pout.is_ok() { "earlier_calls_succeeded" } else { "earlier_calls_gave_up" });
        // the canned responder starts afresh for the call under test
        let mut b = tb.borrow_mut();
        b.fail_attempts = c.fail_attempts;
        b.nack = saved_nack;
        b.in_transfer = None;
        b.attempt_failed = false;
        b.attempts_seen = 0;
        b.swallowed_this_attempt = false;
    }
    // one call in seven meets a bus that fails ONCE, at a message somewhere in the call (any of the ten kinds of error):
    // the call ends there, and what was sent up to there is a prefix of the prescribed stream — a chunk is never handed
    // over twice, whatever the error looks like
    let h = fnv(c.sig().as_bytes());
    // one canned call in nine has the result query of its first or second attempt answered "still in progress" (or another
    // state that is neither received nor failed) by the sign itself: the controller gives up, and sends nothing more —
    // least of all data without a new request
    if c.nack.is_none() && !c.virtual_sign && h % 9 == 4 {
        let states = [S_PIX_PROG, S_CFG_PROG, S_UNCONF, S_LOADED, S_SHOWING];
        let mut b = tb.borrow_mut();
        b.odd_result = Some((1 + (h >> 12) as usize % (c.fail_attempts + 1).min(2), states[(h >> 16) as usize % states.len()]));
        rep.count("calls_whose_result_query_was_answered_with_an_odd_state");
    }
    if c.nack.is_none() && c.fail_attempts == 0 && h % 7 == 3 {
        let mut b = tb.borrow_mut();
        b.fail_once_at = Some((b.log.len() + (h >> 8) as usize % 24, (h >> 20) as u8 % crate::doubles::N_BUS_ERROR_FLAVOURS));
    }
    let pages: Vec<Page<'static>> = c.pages.iter().map(|(w, h, b)| ctl::page_from_image(*w, *h, b.clone())).collect();
    let (mut held_the_bus, mut panicked_on_held_bus) = (false, false);
    // a third of the page lists reach send_pages as an adaptor iterator (a filter that keeps everything: its size_hint
    // has a lower bound of 0) instead of a slice
    let out = if c.op == Op::SendPages && c.fail_attempts == 0 && c.nack.is_none() && !c.virtual_sign && c.prior.is_none() && fnv(c.sig().as_bytes()) % 5 == 1 {
        // a page list that can be walked only once: a filter whose closure keeps its state OUTSIDE the iterator (the
        // usual "skip what I have already seen" idiom), so that a clone of the iterator shares it. One attempt walks
        // it once; what is sent and what is counted must come from that one walk.
        rep.count("page_lists_that_can_be_walked_only_once");
        let seen = std::cell::RefCell::new(std::collections::HashSet::new());
        let r = crate::util::catch(std::panic::AssertUnwindSafe(|| sign.send_pages(pages.iter().filter(|p| seen.borrow_mut().insert(std::ptr::from_ref::<Page<'_>>(*p) as usize)))));
        match r {
            Ok(Ok(flipdot::PageFlipStyle::Automatic)) => SignOut::OkStyle { automatic: true },
            Ok(Ok(flipdot::PageFlipStyle::Manual)) => SignOut::OkStyle { automatic: false },
            Ok(Err(flipdot::SignError::Bus { source })) => SignOut::Bus(source.to_string()),
            Ok(Err(flipdot::SignError::UnexpectedResponse { expected, actual })) => SignOut::Protocol { expected, actual },
            Ok(Err(other)) => SignOut::Bus(format!("unmatched SignError variant: {:?}", other)),
            Err(p) => SignOut::Panic(format!("{} at {}", p.msg, crate::util::short_loc(&p.loc))),
        }
    } else if c.op == Op::SendPages && c.pages.len() >= 2 && h % 11 == 5 {
        // an application that breaks the rules: its page list KEEPS a shared borrow of the bus from one pull to the next
        // (every second gap between pulls), so the controller cannot get at the bus for part of the transfer. The call
        // may panic on the borrow — the application's fault — but if it returns, what went over the bus must still be
        // a proper transfer: nothing left out, nothing counted that was not sent.
        held_the_bus = true;
        rep.count("page_lists_that_hold_on_to_the_bus_between_pulls");
        let held: RefCell<Option<std::cell::Ref<'_, TraceBus>>> = RefCell::new(None);
        let r = crate::util::catch(std::panic::AssertUnwindSafe(|| {
            sign.send_pages(pages.iter().filter(|p| {
                let mut slot = held.borrow_mut();
                if slot.is_some() {
                    *slot = None;
                } else {
                    *slot = Some(tb.borrow());
                }
                p.width() < u32::MAX
            }))
        }));
        held.borrow_mut().take();
        match r {
            Ok(Ok(flipdot::PageFlipStyle::Automatic)) => SignOut::OkStyle { automatic: true },
            Ok(Ok(flipdot::PageFlipStyle::Manual)) => SignOut::OkStyle { automatic: false },
            Ok(Err(flipdot::SignError::Bus { source })) => SignOut::Bus(source.to_string()),
            Ok(Err(flipdot::SignError::UnexpectedResponse { expected, actual })) => SignOut::Protocol { expected, actual },
            Ok(Err(other)) => SignOut::Bus(format!("unmatched SignError variant: {:?}", other)),
            Err(p) if !p.msg.to_lowercase().contains("borrow") => SignOut::Panic(format!("{} at {}", p.msg, crate::util::short_loc(&p.loc))),
            Err(_) => {
                rep.count("calls_that_panicked_because_the_application_held_the_bus");
                panicked_on_held_bus = true;
                SignOut::Bus("the application held the bus: the call panicked on the borrow".into())
            }
        }
    } else if c.op == Op::SendPages && fnv(c.sig().as_bytes()) % 3 == 0 {
        rep.count("page_lists_passed_as_adaptor_iterators");
        // ... and the closure LOOKS AT THE BUS (the application watches the traffic, or drives another sign, while its pages
        // are being pulled): a lazy page list runs between the controller's bus calls, never inside one
        let peeks = std::cell::Cell::new(0usize);
        // ... and twice per run the page source is SLOW: it takes 2.6 s to come up with its second page (pages rendered on
        // demand, fetched over a network). The controller has no business with how long the caller's iterator takes.
        static SLOW_SOURCES: std::sync::atomic::AtomicUsize = std::sync::atomic::AtomicUsize::new(0);
        let slow = pages.len() >= 2 && c.fail_attempts == 0 && SLOW_SOURCES.fetch_add(1, std::sync::atomic::Ordering::Relaxed) < 2;
        if slow {
            rep.count("page_sources_that_take_seconds_between_pages");
        }
        let pulls = std::cell::Cell::new(0usize);
        let side_sign = flipdot::Sign::new(Rc::new(RefCell::new(VirtualSignBus::new(vec![VirtualSign::new(flipdot::Address(0x0055), flipdot::PageFlipStyle::Manual)]))), flipdot::Address(0x0055), TYPES[5].ty);
        let r = crate::util::catch(std::panic::AssertUnwindSafe(|| {
            sign.send_pages(pages.iter().filter(|p| {
                pulls.set(pulls.get() + 1);
                if slow && pulls.get() == 2 {
                    std::thread::sleep(std::time::Duration::from_millis(2600));
                }
                peeks.set(peeks.get() + tb.borrow().log.len().min(1) + 1);
                let _ = tb.borrow_mut().log.len();
                // ... and every other list also DRIVES ANOTHER SIGN from in there (a whole configuration through another
                // controller object on another bus): calls of one controller nest inside a call of another
                if h % 2 == 0 {
                    let _ = side_sign.configure();
                }
                p.width() < u32::MAX
            }))
        }));
        if peeks.get() > 0 {
            rep.count("page_lists_whose_iterator_looks_at_the_bus");
        }
        match r {
            Ok(Ok(flipdot::PageFlipStyle::Automatic)) => SignOut::OkStyle { automatic: true },
            Ok(Ok(flipdot::PageFlipStyle::Manual)) => SignOut::OkStyle { automatic: false },
            Ok(Err(flipdot::SignError::Bus { source })) => SignOut::Bus(source.to_string()),
            Ok(Err(flipdot::SignError::UnexpectedResponse { expected, actual })) => SignOut::Protocol { expected, actual },
            Ok(Err(other)) => SignOut::Bus(format!("unmatched SignError variant: {:?}", other)),
            Err(p) => SignOut::Panic(format!("{} at {}", p.msg, crate::util::short_loc(&p.loc))),
        }
    } else {
        ctl::run_op(&sign, &c.op, &pages)
    };
    drop(sign);
    let log = std::mem::take(&mut tb.borrow_mut().log);
    let (xop, items): (usize, Vec<Vec<u8>>) = if c.op == Op::Configure { (O_RECV_CFG, vec![BLOCKS[c.ty].to_vec()]) } else { (O_RECV_PIX, c.pages.iter().map(|p| p.2.clone()).collect()) };
    let mut bad = check_trace(&log, c.own, xop, &items, rep);
    if panicked_on_held_bus {
        // the call died where the application stood in its way: what was sent up to there is judged, the missing rest is not
        bad.retain(|(_, what)| !(what.ends_with("end of log") || what.ends_with("came nothing") || what.starts_with("no acknowledged transfer request")));
    }
    let _ = held_the_bus;
    if tb.borrow().failed {
        // the bus failed during this call: the log may end anywhere (and must end at the failure — C11 checks that); only
        // what WAS sent is judged here
        rep.count("calls_that_met_a_one_shot_bus_error");
        bad.retain(|(_, what)| !(what.ends_with("end of log") || what.ends_with("came nothing") || what.starts_with("no acknowledged transfer request")));
        if let SignOut::Ok | SignOut::OkStyle { .. } = &out {
            bad.push(("success_despite_bus_error", "the bus failed during the call (or the sign answered a result query with a state that is neither received nor failed), yet the call returned success".into()));
        }
    }
    for (class, what) in prior_bad {
        bad.push((class, format!("in the earlier call on the same Sign object: {}", what)));
    }
    if c.op == Op::Configure {
        let lib_block = TYPES[c.ty].ty.to_bytes();
        if lib_block != &BLOCKS[c.ty][..] {
            bad.push(("type_block_differs_from_documentation", format!("SignType::to_bytes() = {}", crate::util::hex(lib_block))));
        }
    }
    if let SignOut::Panic(p) = &out {
        bad.push(("panic", p.clone()));
    }
    if out.is_ok() {
        rep.count("calls_succeeded");
    } else {
        rep.count("calls_gave_up");
    }
    let total_chunks: usize = items.iter().map(|i| i.len().div_ceil(16)).sum();
    rep.max("largest_transfer_chunks", total_chunks as f64);
    if c.pages.len() >= 2 {
        rep.count("multi_page_transfers");
    }
    if c.pages.iter().any(|p| p.2.len() >= 65_536) {
        rep.count("pages_of_65536_bytes");
    }
    if c.pages.iter().any(|p| (p.0, p.1) != (TYPES[c.ty].w, TYPES[c.ty].h)) {
        rep.count("foreign_size_pages");
    }
    for (class, what) in bad {
        rep.violation(
            MON,
            class,
            &c.sig(),
            format!("{} ({} @{:04X}, {} page(s), {} failing attempt(s), {}): {}", c.op.name(), TYPES[c.ty].name, c.own, c.pages.len(), c.fail_attempts, c.label, what),
            J::obj(vec![
                ("operation", J::s(c.op.name())),
                ("sign_type", J::s(TYPES[c.ty].name)),
                ("address", J::u(c.own)),
                ("pages", J::Arr(c.pages.iter().map(|(w, h, b)| J::s(format!("{}x{} {} bytes", w, h, b.len()))).collect())),
                ("failing_attempts", J::us(c.fail_attempts)),
                ("log_head", J::Arr(log.iter().take(60).map(|(m, r)| J::s(format!("{} => {}", m.show(), show_opt(r)))).collect())),
                ("log_len", J::us(log.len())),
                ("result", J::s(out.show())),
                ("observed", J::s(what.clone())),
            ]),
        );
    }
    if rep.wants_sample() {
        rep.sample(|| J::obj(vec![("operation", J::s(c.op.name())), ("sign_type", J::s(TYPES[c.ty].name)), ("pages", J::us(c.pages.len())), ("failing_attempts", J::us(c.fail_attempts)), ("messages", J::us(log.len())), ("result", J::s(out.show()))]));
    }
}

fn rand_image(rng: &mut Rng, w: u32, h: u32) -> Vec<u8> {
    let mut p = Page::new(PageId(rng.u8()), w, h);
    let n = rng.usize(200);
    for _ in 0..n {
        if w > 0 && h > 0 {
            p.set_pixel(rng.below(u64::from(w)) as u32, rng.below(u64::from(h)) as u32, true);
        }
    }
    let mut b = p.as_bytes().to_vec();
    match rng.below(12) {
        // arbitrary contents (from_bytes accepts any bytes of the right length)
        0..=3 => b = rng.bytes(b.len()),
        // nothing but FF after the id (every chunk, the last one included, is all FF), nothing but 00
        4 => {
            let id = b[0];
            b.fill(0xFF);
            b[0] = id;
        }
        5 => b.fill(0x00),
        // the last chunk all FF, the rest arbitrary
        6 => {
            let n = b.len();
            b = rng.bytes(n);
            for x in b[n.saturating_sub(16)..].iter_mut() {
                *x = 0xFF;
            }
        }
        _ => {}
    }
    b
}

fn random_case(rng: &mut Rng, big_ok: bool) -> Case {
    let ty = rng.usize(TYPES.len());
    let own = *rng.pick(&[0u16, 3, 0x80, 0xFFFF]);
    let configure = rng.chance(1, 5);
    let mut pages = vec![];
    let mut label = "random";
    if !configure {
        let n = rng.usize(5);
        for _ in 0..n {
            let (w, h) = match rng.below(10) {
                0 => {
                    let o = rng.pick(&TYPES);
                    (o.w, o.h)
                }
                1 => [(0u32, 0u32), (0, 7), (9, 0), (0, 16)][rng.usize(4)], // pages without a dot: 16 bytes, one chunk
                2 => (13 + rng.below(4) as u32, 8),         // one chunk and a bit
                3 if big_ok && rng.chance(1, 8) => (4092, 8), // 4096 bytes
                _ => (TYPES[ty].w, TYPES[ty].h),
            };
            pages.push((w, h, rand_image(rng, w, h)));
        }
        // the same page twice (or three times) in a row, in a fifth of the lists
        if !pages.is_empty() && rng.chance(1, 5) {
            let k = rng.usize(pages.len());
            let dup = pages[k].clone();
            pages.insert(k, dup.clone());
            if rng.bool() {
                pages.insert(k, dup);
            }
        }
        if pages.iter().any(|p| (p.0, p.1) != (TYPES[ty].w, TYPES[ty].h)) {
            label = "random_foreign_sizes";
        }
    }
    let prior = if rng.chance(1, 3) {
        let pconf = rng.chance(1, 3);
        let n = rng.usize(3);
        // often the very same pages again (a controller that remembers what it sent must still send it)
        let ppages = if pconf {
            vec![]
        } else if rng.chance(1, 3) && !pages.is_empty() {
            // same ids and sizes as the call under test, other pixels (the usual "update the text on page 1")
            pages.iter().map(|(w, h, b)| { let mut o = rng.bytes(b.len()); o[0] = b[0]; (*w, *h, o) }).collect()
        } else if rng.bool() && !pages.is_empty() { pages.clone() } else { (0..n).map(|_| (TYPES[ty].w, TYPES[ty].h, rand_image(rng, TYPES[ty].w, TYPES[ty].h))).collect() };
        Some((if pconf { Op::Configure } else { Op::SendPages }, ppages, *rng.pick(&[0usize, 0, 1, 3])))
    } else {
        None
    };
    Case {
        prior,
        ty,
        own,
        op: if configure { Op::Configure } else { Op::SendPages },
        pages,
        fail_attempts: *rng.pick(&[0usize, 0, 0, 1, 2, 3]),
        virtual_sign: rng.bool(),
        auto: rng.bool(),
        nack: None,
        label,
    }
}

pub fn run(ctx: &Ctx) -> Outcome {
    let n_random = ctx.size(200_000, 40_000_000);
    let rand_shards = 32usize;
    // deterministic cases
    let mut fixed: Vec<Case> = vec![];
    let mut rng = ctx.rng("fixed", 0);
    for ty in 0..TYPES.len() {
        for own in [0u16, 3, 0x80, 0xFFFF] {
            for fail in 0..=3 {
                for vs in [false, true] {
                    fixed.push(Case { ty, own, op: Op::Configure, pages: vec![], fail_attempts: fail, virtual_sign: vs, auto: false, nack: None, prior: None, label: "configure_all_types" });
                    let np = (ty + fail) % 4;
                    let pages = (0..np).map(|_| (TYPES[ty].w, TYPES[ty].h, rand_image(&mut rng, TYPES[ty].w, TYPES[ty].h))).collect();
                    fixed.push(Case { ty, own, op: Op::SendPages, pages, fail_attempts: fail, virtual_sign: vs, auto: own % 2 == 0, nack: None, prior: None, label: "send_pages_all_types" });
                }
            }
        }
    }
    // the request of attempt k is NOT acknowledged (none / a state report / ack of another operation / ack from another
    // address): nothing of that attempt's transfer may follow. Attempts 2 and 3 are reached through really failing ones.
    for ty in [5usize, 2, 8] {
        for k in 1..=3usize {
            for kind in 0..4u8 {
                for vs in [false, true] {
                    fixed.push(Case { ty, own: 3, op: Op::Configure, pages: vec![], fail_attempts: 3, virtual_sign: vs, auto: false, nack: Some((k, kind)), prior: None, label: "request_not_acknowledged" });
                    let pages = (0..2).map(|_| (TYPES[ty].w, TYPES[ty].h, rand_image(&mut rng, TYPES[ty].w, TYPES[ty].h))).collect();
                    fixed.push(Case { ty, own: 3, op: Op::SendPages, pages, fail_attempts: 3, virtual_sign: vs, auto: vs, nack: Some((k, kind)), prior: None, label: "request_not_acknowledged" });
                }
            }
        }
    }
    // the same Sign object used twice: the second call's trace must be a complete transfer of ITS items
    for ty in 0..TYPES.len() {
        for vs in [false, true] {
            let img = |rng: &mut Rng| (TYPES[ty].w, TYPES[ty].h, rand_image(rng, TYPES[ty].w, TYPES[ty].h));
            let a = img(&mut rng);
            let b = img(&mut rng);
            let d = img(&mut rng);
            let priors: Vec<(Op, Vec<(u32, u32, Vec<u8>)>, usize)> = vec![
                (Op::Configure, vec![], 0),
                (Op::Configure, vec![], 3),
                (Op::SendPages, vec![a.clone()], 0),
                (Op::SendPages, vec![a.clone(), b.clone()], 0),
                (Op::SendPages, vec![a.clone(), b.clone()], 1),
                (Op::SendPages, vec![a.clone()], 3),
                (Op::SendPages, vec![], 0),
            ];
            for prior in priors {
                for (op, pages, fail) in [(Op::SendPages, vec![a.clone()], 0usize), (Op::SendPages, vec![d.clone(), a.clone()], 1), (Op::SendPages, vec![], 0), (Op::Configure, vec![], 0), (Op::Configure, vec![], 2)] {
                    fixed.push(Case { ty, own: 3, op, pages, fail_attempts: fail, virtual_sign: vs, auto: false, nack: None, prior: Some(prior.clone()), label: "same_sign_object_used_twice" });
                }
            }
        }
    }
    // more chunks in one transfer than the 16-bit count can express (the count wraps; the trace must otherwise be complete)
    for (ty, vs) in [(8usize, false), (5, true)] {
        let per_page = refs::padded_len(TYPES[ty].w, TYPES[ty].h).div_ceil(16);
        for n in [65_535 / per_page, 65_536 / per_page + 1] {
            let pages = (0..n).map(|_| (TYPES[ty].w, TYPES[ty].h, rand_image(&mut rng, TYPES[ty].w, TYPES[ty].h))).collect();
            fixed.push(Case { ty, own: 3, op: Op::SendPages, pages, fail_attempts: usize::from(vs), virtual_sign: vs, auto: false, nack: None, prior: None, label: "transfer_around_65536_chunks" });
        }
    }
    // a long transfer (630 / 900 chunks) to a sign that keeps failing it, and one that succeeds at the third attempt: the
    // number of attempts does not grow with the size of what is being sent
    for (ty, n_pages) in [(6usize, 30usize), (0, 60)] {
        for (fail, vs) in [(9usize, false), (2, true), (9, true)] {
            let pages = (0..n_pages).map(|_| (TYPES[ty].w, TYPES[ty].h, rand_image(&mut rng, TYPES[ty].w, TYPES[ty].h))).collect();
            fixed.push(Case { ty, own: 3, op: Op::SendPages, pages, fail_attempts: fail, virtual_sign: vs, auto: false, nack: None, prior: None, label: "long_transfer_that_keeps_failing" });
        }
    }
    // the 16-bit offset limit: a 65 536-byte page (last offset 0xFFF0), alone and followed by a small page
    for fail in [0usize, 1] {
        let big = (65_532u32, 8u32, rand_image(&mut rng, 65_532, 8));
        fixed.push(Case { ty: 5, own: 3, op: Op::SendPages, pages: vec![big.clone()], fail_attempts: fail, virtual_sign: false, auto: false, nack: None, prior: None, label: "page_of_65536_bytes" });
        fixed.push(Case { ty: 5, own: 3, op: Op::SendPages, pages: vec![big, (30, 7, rand_image(&mut rng, 30, 7))], fail_attempts: 0, virtual_sign: true, auto: false, nack: None, prior: None, label: "page_of_65536_bytes" });
    }
    let nf = fixed.len();
    let mut report = run_sharded(ctx, nf + rand_shards, |shard, rep| {
        if shard < nf {
            run_case(&fixed[shard], rep);
        } else {
            let mut rng = ctx.rng("random", (shard - nf) as u64);
            for _ in 0..n_random / rand_shards as u64 {
                let c = random_case(&mut rng, !ctx.quick());
                run_case(&c, rep);
            }
        }
    });
    {
        // the same calls from a thread-local destructor while a thread exits (see exitprobe.rs)
        let mut at_exit = Report::new();
        crate::exitprobe::check("controller", "transfer_trace", &mut at_exit);
        report.merge(at_exit);
    }
    let att = |k: u64| report.sets.get("attempts_per_call").map(|s| s.contains(&k)).unwrap_or(false);
    let floors = vec![
        floor("all fixed cases ran (11 types x 4 addresses x 0..3 failing attempts x 2 sign sides x 2 operations)", report.get("cases/configure_all_types") == 352 && report.get("cases/send_pages_all_types") == 352, report.get("cases/send_pages_all_types")),
        floor("page lists that can be walked only once", report.get("page_lists_that_can_be_walked_only_once") > 500, report.get("page_lists_that_can_be_walked_only_once")),
        floor("page lists whose iterator borrows the bus (shared and mutably) every time a page is pulled", report.get("page_lists_whose_iterator_looks_at_the_bus") > 500, report.get("page_lists_whose_iterator_looks_at_the_bus")),
        floor("page lists of an application that holds on to the bus between pulls (a panic on the borrow is its own fault; a call that returns must have sent a proper transfer)", report.get("page_lists_that_hold_on_to_the_bus_between_pulls") > 200, format!("{} lists, {} calls panicked", report.get("page_lists_that_hold_on_to_the_bus_between_pulls"), report.get("calls_that_panicked_because_the_application_held_the_bus"))),
        floor("page sources that take 2.6 s to come up with their second page", report.get("page_sources_that_take_seconds_between_pages") == 2, report.get("page_sources_that_take_seconds_between_pages")),
        floor("calls whose result query was answered in-progress / unconfigured / page loaded / showing by the sign itself", report.get("calls_whose_result_query_was_answered_with_an_odd_state") > 200, report.get("calls_whose_result_query_was_answered_with_an_odd_state")),
        floor("calls that met a bus failing once, somewhere in the call", report.get("calls_that_met_a_one_shot_bus_error") > 500, report.get("calls_that_met_a_one_shot_bus_error")),
        floor("page lists handed over as adaptor iterators", report.get("page_lists_passed_as_adaptor_iterators") > 1000, report.get("page_lists_passed_as_adaptor_iterators")),
        floor("multi-page transfers", report.get("multi_page_transfers") > 0, report.get("multi_page_transfers")),
        floor("calls with 1, 2 and 3 attempts", att(1) && att(2) && att(3), report.set_len("attempts_per_call")),
        floor("a 65536-byte page (last offset 0xFFF0)", report.get("pages_of_65536_bytes") >= 3 && report.maxs.get("largest_chunk_offset").copied().unwrap_or(0.0) >= 65_520.0, report.get("pages_of_65536_bytes")),
        floor("pages of a size other than the sign's own", report.get("foreign_size_pages") > 0, report.get("foreign_size_pages")),
        floor("unacknowledged requests on attempts 1, 2 and 3", report.get("cases/request_not_acknowledged") == 144 && report.get("unacknowledged_requests_seen") >= 144, report.get("unacknowledged_requests_seen")),
        floor("calls on a Sign object that has been used before (earlier call succeeded / gave up)", report.get("cases/same_sign_object_used_twice") == 770 && report.get("earlier_calls_succeeded") > 0 && report.get("earlier_calls_gave_up") > 0, report.get("earlier_calls_on_the_same_sign_object")),
        floor("transfers just below and above 65536 chunks", report.get("cases/transfer_around_65536_chunks") == 4 && report.maxs.get("largest_transfer_chunks").copied().unwrap_or(0.0) > 65_536.0, report.maxs.get("largest_transfer_chunks").copied().unwrap_or(0.0)),
        floor("long transfers to a sign that keeps failing them", report.get("cases/long_transfer_that_keeps_failing") == 6, report.get("cases/long_transfer_that_keeps_failing")),
        floor("both succeeding and giving-up calls", report.get("calls_succeeded") > 0 && report.get("calls_gave_up") > 0, report.get("calls_gave_up")),
    ];
    Outcome {
        report,
        level: "exploration",
        rule: "every sign type x 4 addresses x 0..3 really failing attempts (one chunk swallowed per failing attempt) x {canned responder, real virtual sign} for configure and send_pages (0..3 pages), a 65536-byte page alone and in a list, plus seeded random page lists (0..4 pages; own size, other real sizes, 16-byte pages, one-chunk-and-a-bit sizes, 4096-byte pages; arbitrary contents); the same for calls made with a Sign object that has already performed another call (7 earlier calls x 5 calls x types x sign sides, and a third of the random cases; often the very same pages again); the recorded (message, reply) log of every call is checked by the trace automaton; distinct by (operation, type, address, page hashes, failures, sign side); all non-trivial".into(),
        exhaustive: false,
        floors,
        assumptions: vec![
            "oracle: trace predicates over the recorded log + the expected chunk stream computed from the inputs; the 11 configuration blocks transcribed in refs::BLOCKS".into(),
            "pages larger than 65536 bytes and lists needing more than 65535 chunks are outside the quantifier and not generated".into(),
        ],
        extra: vec![],
    }
}
