//! C17 — the serial transport is transparent: over the wire equals directly on the bus.
//! Two-run monitor (serial duplex path vs. direct path) plus trace predicates on the ODK bridge.

use std::cell::RefCell;
use std::collections::VecDeque;
use std::rc::Rc;

use flipdot::{Address, Page, PageFlipStyle, PageId, SerialSignBus};
use flipdot_testing::{Odk, OdkError, VirtualSign, VirtualSignBus};

use crate::ctl::{self, SignOut};
use crate::doubles::{self, InstrPort, RecBus, SharedBus, Wiring};
use crate::refctl::Op;
use crate::refs::{self, *};
use crate::refsign::Obs;
use crate::util::{Ctx, J, Outcome, Report, Rng, catch, floor, fnv, run_sharded_on, short_loc, show_bytes};
use crate::vsx;

const MON_T: &str = "serial_vs_direct";
const MON_B: &str = "bridge_trace";

type VBus = Rc<RefCell<RecBus<VirtualSignBus<'static>>>>;
type TheOdk = Odk<InstrPort, SharedBus<RecBus<VirtualSignBus<'static>>>>;

/// One pump of the bridge, as observed from outside.
#[derive(Clone, Debug)]
struct Pump {
    line: Vec<u8>,
    result: Result<(), String>,
    bus_saw: Vec<RefMsg>,
    bus_replied: Option<Option<RefMsg>>,
    written: Vec<u8>,
    /// bytes of the sender's line still unread after the pump (the bridge must consume exactly the line)
    leftover: usize,
    /// bytes BEYOND the line that were gone after the pump (more lines were waiting and the bridge read into them)
    over_read: usize,
}

struct Rig {
    vbus: VBus,
    odk: Rc<RefCell<TheOdk>>,
    c2o: Rc<RefCell<VecDeque<u8>>>,
    o2c: Rc<RefCell<VecDeque<u8>>>,
    odk_port: doubles::Shared,
    pumps: Rc<RefCell<Vec<Pump>>>,
    serial: Rc<RefCell<SerialSignBus<InstrPort>>>,
    /// the controller-side port's state (to make its writes block, see `scenario`)
    ctl_port: doubles::Shared,
}

fn population(addrs: &[u16], autos: &[bool]) -> VirtualSignBus<'static> {
    VirtualSignBus::new(addrs.iter().zip(autos).map(|(a, au)| VirtualSign::new(Address(*a), if *au { PageFlipStyle::Automatic } else { PageFlipStyle::Manual })))
}

/// Pumps the bridge once and records what it read, what the bus saw and what it wrote back.
fn pump(odk: &Rc<RefCell<TheOdk>>, vbus: &VBus, c2o: &Rc<RefCell<VecDeque<u8>>>, odk_port: &doubles::Shared, pumps: &Rc<RefCell<Vec<Pump>>>) {
    let pending: Vec<u8> = c2o.borrow().iter().copied().collect();
    let line_end = pending.iter().position(|b| *b == b'\n').map(|i| i + 1).unwrap_or(pending.len());
    let line = pending[..line_end].to_vec();
    let log_before = vbus.borrow().log.len();
    let written_before = odk_port.borrow().written.len();
    let r = catch(|| {
        odk.borrow_mut().process_message().map_err(|e| match e {
            OdkError::Communication { source } => format!("Communication({})", source),
            OdkError::Bus { source } => format!("Bus({})", source),
            other => format!("Other({:?})", other),
        })
    });
    let result = match r {
        Ok(x) => x,
        Err(p) => Err(format!("PANIC({} at {})", p.msg, short_loc(&p.loc))),
    };
    let vb = vbus.borrow();
    let saw: Vec<RefMsg> = vb.log[log_before..].iter().map(|e| e.msg.clone()).collect();
    let replied = vb.log[log_before..].last().map(|e| e.reply.clone().unwrap_or(None));
    let written = odk_port.borrow().written[written_before..].to_vec();
    let still_queued = c2o.borrow().len();
    let should_remain = pending.len() - line_end;
    let leftover = still_queued.saturating_sub(should_remain);
    let over_read = should_remain.saturating_sub(still_queued);
    pumps.borrow_mut().push(Pump { line, result, bus_saw: saw, bus_replied: replied, written, leftover, over_read });
}

fn build(addrs: &[u16], autos: &[bool]) -> Rig {
    let vbus: VBus = Rc::new(RefCell::new(RecBus::new(population(addrs, autos))));
    let c2o = Rc::new(RefCell::new(VecDeque::new()));
    let o2c = Rc::new(RefCell::new(VecDeque::new()));
    let odk_port_state = doubles::shared(doubles::WEIRD_SETTINGS);
    let odk_port = InstrPort { st: odk_port_state.clone(), wiring: Wiring::Link { rx: c2o.clone(), tx: o2c.clone(), on_line: None } };
    let odk: Rc<RefCell<TheOdk>> = Rc::new(RefCell::new(Odk::try_new(odk_port, SharedBus(vbus.clone())).expect("odk setup")));
    let pumps = Rc::new(RefCell::new(vec![]));
    let on_line: Box<dyn FnMut()> = {
        let (odk, vbus, c2o, st, pumps) = (odk.clone(), vbus.clone(), c2o.clone(), odk_port_state.clone(), pumps.clone());
        Box::new(move || pump(&odk, &vbus, &c2o, &st, &pumps))
    };
    let ctl_state = doubles::shared(doubles::WEIRD_SETTINGS);
    let ctl_port = InstrPort { st: ctl_state.clone(), wiring: Wiring::Link { rx: o2c.clone(), tx: c2o.clone(), on_line: Some(on_line) } };
    let serial = Rc::new(RefCell::new(SerialSignBus::try_new(ctl_port).expect("serial bus setup")));
    Rig { vbus, odk, c2o, o2c, odk_port: odk_port_state, pumps, serial, ctl_port: ctl_state }
}

/// The bridge predicates over the recorded pumps.
fn check_pumps(pumps: &[Pump], rep: &mut Report, ctx_desc: &str) {
    for (i, p) in pumps.iter().enumerate() {
        rep.count("bridge_pumps_checked");
        let sig = format!("{}|{}", crate::util::hex(&p.line), ctx_desc);
        let fail = |rep: &mut Report, class: &str, what: String| {
            rep.violation(
                MON_B,
                class,
                &sig,
                format!("bridge pump #{} on line [{}]: {}", i, show_bytes(&p.line), what),
                J::obj(vec![
                    ("line", J::s(show_bytes(&p.line))),
                    ("result", J::s(format!("{:?}", p.result))),
                    ("bus_saw", J::Arr(p.bus_saw.iter().map(|m| J::s(m.show())).collect())),
                    ("bus_replied", J::s(format!("{:?}", p.bus_replied.as_ref().map(show_opt)))),
                    ("written_back", J::s(show_bytes(&p.written))),
                    ("observed", J::s(what.clone())),
                ]),
            );
        };
        if p.over_read > 0 {
            fail(rep, "read_beyond_the_line", format!("{} byte(s) of the lines waiting BEHIND this one were consumed as well", p.over_read));
            continue;
        }
        if p.leftover > 0 && p.line.ends_with(b"\n") {
            fail(rep, "line_not_consumed_exactly", format!("{} byte(s) of the stream were left unread behind a {}-byte line (the bridge is out of step from here on)", p.leftover, p.line.len()));
            continue;
        }
        match refs::dec(&p.line) {
            Dec::Ok { addr, ty, data } => {
                let want = refs::classify(addr, ty, &data);
                if p.bus_saw != vec![want.clone()] {
                    fail(rep, "forwarded_message_differs", format!("the bus saw [{}], the line decodes to {}", p.bus_saw.iter().map(|m| m.show()).collect::<Vec<_>>().join(","), want.show()));
                    continue;
                }
                match &p.bus_replied {
                    Some(Some(reply)) => {
                        if p.written != refs::wire(reply) {
                            fail(rep, "reply_frame_wrong", format!("the bus replied {} but [{}] was written back", reply.show(), show_bytes(&p.written)));
                        }
                    }
                    _ => {
                        if !p.written.is_empty() {
                            fail(rep, "frame_written_without_reply", format!("the bus did not reply but [{}] was written back", show_bytes(&p.written)));
                        }
                    }
                }
                if p.result.is_err() {
                    fail(rep, "valid_line_reported_as_error", format!("result {:?}", p.result));
                }
            }
            _ => {
                rep.count("bridge_undecodable_lines");
                if !matches!(&p.result, Err(e) if e.starts_with("Communication(")) {
                    fail(rep, "undecodable_line_not_a_communication_error", format!("result {:?}", p.result));
                }
                if !p.bus_saw.is_empty() {
                    fail(rep, "undecodable_line_reached_the_bus", format!("the bus saw {}", p.bus_saw[0].show()));
                }
                if !p.written.is_empty() {
                    fail(rep, "undecodable_line_answered", format!("[{}] was written back", show_bytes(&p.written)));
                }
            }
        }
    }
}

fn observe_all(b: &VirtualSignBus<'static>, n: usize) -> Vec<Obs> {
    (0..n).map(|i| vsx::observe(b.sign(i))).collect()
}

#[derive(Clone, Debug)]
enum Act {
    Call(usize, Op, usize),  // (which controller, op, number of pages)
    Reconfigure(usize, usize), // (which controller, new type): a new Sign object with another type configures
    Raw(RefMsg),               // a message given straight to the bus (serial bus on one path, virtual bus on the other)
}

fn mk_pages(ty: usize, rng: &mut Rng, n: usize) -> Vec<Page<'static>> {
    (0..n)
        .map(|i| {
            let mut p = Page::new(PageId(i as u8 + 1), TYPES[ty].w, TYPES[ty].h);
            for _ in 0..rng.usize(60) {
                p.set_pixel(rng.below(u64::from(TYPES[ty].w)) as u32, rng.below(u64::from(TYPES[ty].h)) as u32, true);
            }
            p
        })
        .collect()
}

/// One scenario: the same operation sequence over the wire and directly; everything observable must agree.
fn scenario(ctx: &Ctx, idx: u64, rep: &mut Report) {
    let mut rng = ctx.rng("scenario", idx);
    let n_signs = 1 + rng.usize(3);
    let pool = [0u16, 3, 0x7F, 0x80, 0x100, 0xFFFF];
    let mut addrs: Vec<u16> = vec![];
    while addrs.len() < n_signs {
        let a = *rng.pick(&pool);
        if !addrs.contains(&a) {
            addrs.push(a);
        }
    }
    let autos: Vec<bool> = (0..n_signs).map(|_| rng.bool()).collect();
    // small types keep the paced path short; every type is used (idx cycles through them)
    let mut types: Vec<usize> = (0..n_signs).map(|k| (idx as usize + k * 3) % TYPES.len()).collect();
    let rig = build(&addrs, &autos);
    let direct = Rc::new(RefCell::new(population(&addrs, &autos)));
    // every 16th scenario runs over a slow line: each write call of the controller's port blocks for 31..45 ms (longer
    // than the pacing pause) before it succeeds — slower, but the transport must stay transparent
    let slow_line = idx % 16 == 5;
    if slow_line {
        rig.ctl_port.borrow_mut().write_stall = Some(std::time::Duration::from_millis(31 + rng.below(15)));
        rep.count("scenarios_over_a_slow_line");
    }
    let n_acts = if slow_line { 1 + rng.usize(3) } else { 1 + rng.usize(6) };
    let mut acts = vec![];
    for _ in 0..n_acts {
        let who = rng.usize(n_signs);
        acts.push(match rng.below(12) {
            0 | 1 | 2 => Act::Call(who, Op::Configure, 0),
            3 => Act::Call(who, Op::ConfigureIfNeeded, 0),
            4 | 5 | 6 => Act::Call(who, Op::SendPages, rng.usize(3)),
            7 => Act::Call(who, Op::Show, 0),
            8 => Act::Call(who, Op::LoadNext, 0),
            9 => Act::Call(who, Op::ShutDown, 0),
            10 => Act::Reconfigure(who, [5usize, 3, 4, 10][rng.usize(4)]),
            11 if rng.bool() => {
                let n = *rng.pick(&[0usize, 1, 16, 254, 255]);
                Act::Raw(match rng.below(3) {
                    0 => RefMsg::Data { offset: rng.edgy_u16(), data: rng.bytes(n) },
                    1 => RefMsg::Unknown { addr: addrs[who], ty: 0x7E, data: rng.bytes(n) },
                    _ => RefMsg::Count(rng.edgy_u16()),
                })
            }
            _ => Act::Call(who, Op::SendPages, 1),
        });
    }
    // a legal prefix makes successes likely; the random tail includes illegal orders
    if rng.chance(2, 3) {
        acts.insert(0, Act::Call(0, Op::Configure, 0));
    }
    // one scenario is a LONG transfer: 20 pages of the largest front sign, 300 data chunks in a row through the serial bus
    // and the bridge (nine seconds of pacing) — more than any 8-bit tally of consecutive chunks holds
    if idx == 7 {
        types[0] = 0;
        acts = vec![Act::Call(0, Op::Configure, 0), Act::Call(0, Op::SendPages, 20), Act::Call(0, Op::Show, 0)];
        rep.count("long_transfers_over_the_wire");
    }
    // one scenario sends raw frames of EVERY data length over both paths (unknown frames of every length 0..=255, data
    // chunks of every length up to 64 and a few beyond; all lengths as chunks in the thorough tier)
    if idx == 9 {
        acts = vec![Act::Call(0, Op::Configure, 0)];
        // (each frame sits INSIDE a small transfer of its own — request, the frames, the count, a query — so that a frame
        // that is lost, or that takes a neighbour with it, shows in the state the query reports)
        for n in 0..=255usize {
            acts.push(Act::Raw(RefMsg::Request(addrs[0], O_RECV_PIX)));
            acts.push(Act::Raw(RefMsg::Unknown { addr: addrs[0], ty: 0x7E, data: rng.bytes(n) }));
            if n <= 64 || n >= 254 || n % 32 == 0 || !ctx.quick() {
                acts.push(Act::Raw(RefMsg::Data { offset: 0, data: rng.bytes(n) }));
                acts.push(Act::Raw(RefMsg::Count(1)));
            } else {
                acts.push(Act::Raw(RefMsg::Count(0)));
            }
            acts.push(Act::Raw(RefMsg::Query(addrs[0])));
            // (received pixels are completed, so that the next request is one the sign answers)
            acts.push(Act::Raw(RefMsg::Complete(addrs[0])));
        }
        acts.push(Act::Call(0, Op::SendPages, 1));
        rep.count("raw_frames_of_every_length_over_the_wire");
    }
    // every fourth scenario is the full legal tour of one sign (every operation succeeds on a healthy path, so every
    // kind of reply — each acknowledgement, each in-progress and final state — crosses the bridge), with the random
    // acts appended behind it
    if idx % 4 == 0 {
        let who = (idx as usize / 4) % n_signs;
        let tour = vec![
            Act::Call(who, Op::ConfigureIfNeeded, 0),
            Act::Call(who, Op::SendPages, 1),
            Act::Call(who, Op::Show, 0),
            Act::Call(who, Op::LoadNext, 0),
            Act::Call(who, Op::Show, 0),
            Act::Call(who, Op::SendPages, 2),
            Act::Call(who, Op::LoadNext, 0),
            Act::Call(who, Op::Configure, 0),
            Act::Call(who, Op::SendPages, 0),
        ];
        rep.count("legal_tours");
        let tail: Vec<Act> = acts.drain(..).take(2).collect();
        acts = tour;
        acts.extend(tail);
        acts.push(Act::Call(who, Op::ShutDown, 0));
    }
    rep.case(Some(fnv(format!("{:?}{:?}{:?}{:?}", addrs, autos, types, acts).as_bytes())));
    let mut steps: Vec<String> = vec![];
    for act in &acts {
        if let Act::Raw(m) = act {
            use flipdot::SignBus;
            rep.count("raw_messages_on_both_paths");
            let a = catch(|| rig.serial.borrow_mut().process_message(refs::from_ref(m)).map(|r| r.map(|x| refs::to_ref(&x))).map_err(|e| e.to_string()));
            let b = catch(|| direct.borrow_mut().process_message(refs::from_ref(m)).map(|r| r.map(|x| refs::to_ref(&x))).map_err(|e| e.to_string()));
            steps.push(format!("raw {}: wire {:?} / direct {:?}", m.show().chars().take(40).collect::<String>(), a.as_ref().map_err(|p| p.msg.clone()), b.as_ref().map_err(|p| p.msg.clone())));
            let same = match (&a, &b) {
                // (a request no sign answers: silence on the bus; the serial path cannot express silence and reports the
                // missing reply as an error — C16's subject, not a difference between the paths)
                (Ok(Err(_)), Ok(Ok(None))) if crate::c16::reply_due(m) => {
                    rep.count("requests_met_with_silence_on_both_paths");
                    true
                }
                (Ok(x), Ok(y)) => x == y,
                _ => false,
            };
            let oa = observe_all(&rig.vbus.borrow().inner, n_signs);
            let ob = observe_all(&direct.borrow(), n_signs);
            if !same || oa != ob {
                let what = if !same { "a message given to the bus is answered differently over the wire".to_string() } else { "sign state differs after a raw message".to_string() };
                rep.violation(MON_T, "raw_message_differs", &format!("{:?}|{}", addrs, steps.join(";")), format!("signs {:?}: {} — steps [{}]", addrs, what, steps.join("; ")), J::obj(vec![("steps", J::Arr(steps.iter().map(|s| J::s(s.clone())).collect())), ("scenario_index", J::Int(idx as i128))]));
                break;
            }
            continue;
        }
        let (who, op, np) = match act {
            Act::Call(w, op, np) => (*w, op.clone(), *np),
            Act::Reconfigure(w, t) => {
                types[*w] = *t;
                rep.count("reconfigured_as_another_type");
                (*w, Op::Configure, 0)
            }
            Act::Raw(_) => unreachable!(),
        };
        let ty = types[who];
        rep.seen("types_used", ty as u64);
        rep.seen("ops_used", match op { Op::Configure => 0, Op::ConfigureIfNeeded => 1, Op::SendPages => 2, Op::Show => 3, Op::LoadNext => 4, Op::ShutDown => 5 });
        // keep the paced path short: at most 2 pages, and only 1 for the large types
        let np = if idx != 7 && TYPES[ty].w * TYPES[ty].h > 1000 { np.min(1) } else { np };
        let pages = mk_pages(ty, &mut rng, np);
        let wire_sign = ctl::mk_sign(rig.serial.clone(), addrs[who], ty);
        let direct_sign = ctl::mk_sign(direct.clone(), addrs[who], ty);
        let a = ctl::run_op(&wire_sign, &op, &pages);
        let b = ctl::run_op(&direct_sign, &op, &pages);
        drop(wire_sign);
        drop(direct_sign);
        steps.push(format!("{}@{:04X}({}): wire {} / direct {}", op.name(), addrs[who], np, a.show(), b.show()));
        let oa = observe_all(&rig.vbus.borrow().inner, n_signs);
        let ob = observe_all(&direct.borrow(), n_signs);
        let mut bad: Vec<(&'static str, String)> = vec![];
        if matches!(a, SignOut::Panic(_)) || matches!(b, SignOut::Panic(_)) {
            bad.push(("panic", format!("wire {} / direct {}", a.show(), b.show())));
        } else if a.is_ok() != b.is_ok() {
            bad.push(("success_differs", format!("over the wire {}, directly {}", a.show(), b.show())));
        } else if a.is_ok() && a != b {
            bad.push(("returned_value_differs", format!("over the wire {}, directly {}", a.show(), b.show())));
        }
        if oa != ob {
            let k = oa.iter().zip(&ob).position(|(x, y)| x != y).unwrap_or(0);
            bad.push(("sign_state_differs", format!("sign {:04X}: over the wire {}; directly {}", addrs[k], oa[k].show(), ob[k].show())));
        }
        if a.is_ok() {
            if idx == 7 && op == Op::SendPages {
                rep.count("long_transfers_that_succeeded_on_both_paths");
            }
            rep.count("ops_succeeded_on_both_paths");
            if idx % 4 == 0 {
                rep.count("tour_ops_succeeded");
            }
            rep.seen("ops_succeeded", match op { Op::Configure => 0, Op::ConfigureIfNeeded => 1, Op::SendPages => 2, Op::Show => 3, Op::LoadNext => 4, Op::ShutDown => 5 });
        } else if !b.is_ok() {
            rep.count("ops_failed_on_both_paths");
        }
        if !bad.is_empty() {
            for (class, what) in bad {
                rep.violation(
                    MON_T,
                    class,
                    &format!("{:?}|{:?}|{}", addrs, autos, steps.join(";")),
                    format!("signs {:?} (auto {:?}): {} — steps [{}]", addrs, autos, what, steps.join("; ")),
                    J::obj(vec![("addresses", J::s(format!("{:04X?}", addrs))), ("automatic", J::s(format!("{:?}", autos))), ("steps", J::Arr(steps.iter().map(|s| J::s(s.clone())).collect())), ("observed", J::s(what.clone())), ("scenario_index", J::Int(idx as i128))]),
                );
            }
            break;
        }
    }
    let pumps = rig.pumps.borrow().clone();
    rep.add("wire_frames_bridged", pumps.len() as u64);
    check_pumps(&pumps, rep, &format!("scenario{}", idx));
    if rep.wants_sample() {
        rep.sample(|| J::obj(vec![("signs", J::s(format!("{:04X?}", addrs))), ("steps", J::Arr(steps.iter().map(|s| J::s(s.clone())).collect())), ("frames_bridged", J::us(pumps.len()))]));
    }
    let _ = (&rig.o2c, &rig.odk, &rig.odk_port);
}

/// One serial bus, one bridge, one virtual bus: 70 000 messages down both paths (more than any 16-bit counter holds).
/// Unpaced kinds only, so that it takes seconds: state queries, hellos to present and absent signs, chunk counts, unknown
/// frames and operation requests (which move the signs through the states an unconfigured sign can reach).
fn marathon(rep: &mut Report) {
    use flipdot::SignBus;
    let addrs = [3u16, 0x80];
    let autos = [false, true];
    let rig = build(&addrs, &autos);
    let mut direct = population(&addrs, &autos);
    let mut rng = crate::util::Rng::new(0xC17);
    for i in 0..70_000usize {
        if i % 256 == 0 && crate::util::soft_deadline_passed() {
            rep.count("loops_cut_short_at_the_soft_deadline");
            break;
        }
        let m = match i % 6 {
            0 => RefMsg::Query(addrs[(i / 6) % 2]),
            1 => RefMsg::Hello(if i % 4 == 1 { 0x0042 } else { addrs[(i / 6) % 2] }),
            2 => RefMsg::Count(i as u16),
            3 => RefMsg::Unknown { addr: i as u16, ty: 0x7E, data: rng.bytes_upto(3) },
            4 => RefMsg::Request(addrs[(i / 6) % 2], rng.usize(N_OPS)),
            _ => RefMsg::Goodbye(if i % 5 == 0 { addrs[(i / 6) % 2] } else { 0x0042 }),
        };
        let a = catch(|| rig.serial.borrow_mut().process_message(refs::from_ref(&m)).map(|r| r.map(|x| refs::to_ref(&x))).map_err(|e| e.to_string()));
        let b = catch(|| direct.process_message(refs::from_ref(&m)).map(|r| r.map(|x| refs::to_ref(&x))).map_err(|e| e.to_string()));
        // (a request nobody answers is "no reply" on the bus and a read that times out on the wire: both mean the same)
        let unanswered = matches!(m, RefMsg::Hello(_) | RefMsg::Query(_) | RefMsg::Request(..)) && matches!((&a, &b), (Ok(Err(_)), Ok(Ok(None))));
        let same = unanswered || matches!((&a, &b), (Ok(x), Ok(y)) if x == y);
        let states_agree = i % 64 != 0 || observe_all(&rig.vbus.borrow().inner, 2) == observe_all(&direct, 2);
        if !same || !states_agree {
            rep.violation(MON_T, "long_run_differs", &format!("marathon-{}", i), format!("message #{} ({}) of 70 000 sent through one serial bus and bridge: wire {:?} / direct {:?}{}", i, m.show(), a.as_ref().map_err(|p| p.msg.clone()), b.as_ref().map_err(|p| p.msg.clone()), if states_agree { "" } else { "; sign states differ" }), J::obj(vec![("message_index", J::us(i)), ("message", J::s(m.show()))]));
            return;
        }
        rep.count("marathon_messages_on_both_paths");
        if i % 4096 == 4095 {
            let pumps: Vec<Pump> = rig.pumps.borrow_mut().drain(..).collect();
            check_pumps(&pumps, rep, "marathon");
            // the doubles' own records are not part of what is being tested: keep them small
            for st in [&rig.ctl_port, &rig.odk_port] {
                let mut s = st.borrow_mut();
                s.log.clear();
                s.written.clear();
            }
            rig.vbus.borrow_mut().log.clear();
        }
    }
}

/// Raw lines injected at the bridge: recognised codes, unknown frames, short data chunks, lower case, and every
/// single-symbol perturbation of one frame.
fn raw_injection(rep: &mut Report) {
    let rig = build(&[3, 0x80], &[false, true]);
    let mut lines: Vec<Vec<u8>> = vec![];
    for m in [
        RefMsg::Hello(3),
        RefMsg::Query(0x80),
        RefMsg::Hello(0x42),
        RefMsg::Request(3, O_RECV_CFG),
        RefMsg::Data { offset: 0, data: BLOCKS[5].to_vec() },
        RefMsg::Count(1),
        RefMsg::Query(3),
        RefMsg::Request(3, O_RECV_PIX),
        RefMsg::Data { offset: 0, data: vec![] },
        RefMsg::Data { offset: 16, data: vec![7] },
        RefMsg::Data { offset: 16, data: vec![7, 8] },
        RefMsg::Count(9),
        RefMsg::Query(3),
        RefMsg::Complete(3),
        RefMsg::Goodbye(3),
        RefMsg::Ack(3, 2),
        RefMsg::Report(3, 4),
        RefMsg::Unknown { addr: 3, ty: 0x42, data: vec![1, 2, 3] },
        RefMsg::Unknown { addr: 0xFFFF, ty: 0xFF, data: vec![] },
    ] {
        lines.push(refs::wire(&m));
    }
    for s in 0..N_STATES {
        lines.push(refs::wire(&RefMsg::Report(3, s)));
    }
    // the longest lines the format allows, each followed by an ordinary frame (the bridge must stay in step)
    for n in [253usize, 254, 255] {
        lines.push(refs::wire(&RefMsg::Unknown { addr: 3, ty: 0x7E, data: vec![0x5A; n] }));
        lines.push(refs::wire(&RefMsg::Hello(3)));
        lines.push(refs::wire(&RefMsg::Data { offset: 0x0100, data: vec![0xA5; n] }));
        lines.push(refs::wire(&RefMsg::Query(0x80)));
    }
    for o in 0..N_OPS {
        lines.push(refs::wire(&RefMsg::Request(0x80, o)));
        lines.push(refs::wire(&RefMsg::Ack(0x80, o)));
    }
    lines.push(refs::wire(&RefMsg::Hello(3)).to_ascii_lowercase());
    // every single-symbol substitution / insertion on one frame
    let base = refs::wire(&RefMsg::Query(3));
    for p in 0..base.len() {
        for s in [b':', b'0', b'9', b'A', b'F', b'a', b'f', b'G', b'\r', b' ', 0x00, 0xFF, b'+', b'-', 0x10, 0x19] {
            let mut l = base.clone();
            l[p] = s;
            if !l[..l.len() - 1].contains(&b'\n') && l.ends_with(b"\n") {
                lines.push(l);
            }
            let mut l = base.clone();
            l.insert(p, s);
            lines.push(l);
        }
    }
    // ... and every hex digit of that frame replaced by a multi-byte sequence (non-ASCII digits and the like)
    for p in 1..base.len() - 2 {
        for s in crate::c03::MULTIBYTE {
            let mut l = base[..p].to_vec();
            l.extend_from_slice(s);
            l.extend_from_slice(&base[p + 1..]);
            lines.push(l);
        }
    }
    lines.push(b"\n".to_vec());
    lines.push(b"\r\n".to_vec());
    lines.push(b"garbage\r\n".to_vec());
    lines.push(b":01000302FF00\r\n".to_vec()); // a hello with "00" where its checksum belongs
    lines.push(b":0100030200\r\n".to_vec());   // ... and with no checksum at all
    lines.push([refs::enc(3, 2, &[0]), b"\n".to_vec()].concat()); // bare LF
    for l in &lines {
        rig.c2o.borrow_mut().extend(l.iter().copied());
        pump(&rig.odk, &rig.vbus, &rig.c2o, &rig.odk_port, &rig.pumps);
        // drain whatever the bridge wrote back so the next line starts clean
        rig.o2c.borrow_mut().clear();
        rep.case(Some(fnv(l)));
    }
    rep.add("raw_lines_injected", lines.len() as u64);
    // bursts: two or three lines are already waiting when the bridge is pumped — it takes them one at a time, a bad line
    // costs exactly itself, and what follows is served as if it had arrived alone
    let good = [refs::wire(&RefMsg::Hello(3)), refs::wire(&RefMsg::Query(0x80)), refs::wire(&RefMsg::Request(3, O_RECV_CFG)), refs::wire(&RefMsg::Goodbye(3)), refs::wire(&RefMsg::Data { offset: 0, data: vec![7; 16] })];
    let bad = [b"garbage\r\n".to_vec(), b":0100030200\r\n".to_vec(), b"\r\n".to_vec(), [refs::enc(3, 2, &[0]), b"\n".to_vec()].concat(), b":01000302FF00\r\n".to_vec(), vec![b'A'; 700].into_iter().chain(b"\r\n".iter().copied()).collect()];
    let mut bursts = 0u64;
    for a in good.iter().chain(bad.iter()) {
        for b in good.iter().chain(bad.iter()) {
            for c in [None, Some(&good[1]), Some(&bad[0])] {
                let mut q: Vec<u8> = a.clone();
                q.extend_from_slice(b);
                if let Some(c) = c {
                    q.extend_from_slice(c);
                }
                rig.c2o.borrow_mut().extend(q.iter().copied());
                for _ in 0..if c.is_some() { 3 } else { 2 } {
                    pump(&rig.odk, &rig.vbus, &rig.c2o, &rig.odk_port, &rig.pumps);
                    rig.o2c.borrow_mut().clear();
                }
                if !rig.c2o.borrow().is_empty() {
                    rep.violation(MON_B, "burst_not_drained_line_by_line", &crate::util::hex(&q[..q.len().min(40)]), format!("{} byte(s) still waiting after as many pumps as lines were sent [{}]", rig.c2o.borrow().len(), show_bytes(&q[..q.len().min(60)])), J::Null);
                    rig.c2o.borrow_mut().clear();
                }
                bursts += 1;
            }
        }
    }
    rep.add("bursts_of_lines_waiting_at_the_bridge", bursts);
    let pumps = rig.pumps.borrow().clone();
    check_pumps(&pumps, rep, "raw");
    // a bridge that is created while traffic is already waiting in its port serves that traffic
    {
        let vbus: VBus = Rc::new(RefCell::new(RecBus::new(population(&[3], &[false]))));
        let c2o = Rc::new(RefCell::new(VecDeque::new()));
        let o2c = Rc::new(RefCell::new(VecDeque::new()));
        c2o.borrow_mut().extend(refs::wire(&RefMsg::Hello(3)));
        c2o.borrow_mut().extend(refs::wire(&RefMsg::Query(3)));
        let st = doubles::shared(doubles::WEIRD_SETTINGS);
        let port = InstrPort { st: st.clone(), wiring: Wiring::Link { rx: c2o.clone(), tx: o2c.clone(), on_line: None } };
        let odk: Rc<RefCell<TheOdk>> = Rc::new(RefCell::new(Odk::try_new(port, SharedBus(vbus.clone())).expect("odk setup")));
        let pumps = Rc::new(RefCell::new(vec![]));
        pump(&odk, &vbus, &c2o, &st, &pumps);
        pump(&odk, &vbus, &c2o, &st, &pumps);
        let ps = pumps.borrow().clone();
        check_pumps(&ps, rep, "preloaded");
        if vbus.borrow().log.len() != 2 {
            rep.violation(MON_B, "traffic_waiting_at_construction_lost", "preloaded", format!("two frames were waiting in the port when the bridge was created; the bus saw {} of them", vbus.borrow().log.len()), J::Null);
        }
        rep.count("bridges_created_with_traffic_waiting");
    }
    let _ = &rig.serial;
}

/// I/O faults at the bridge's own port: a read failure must surface without touching the bus; a failure while writing
/// the reply back must surface too (the bus replied, so "no frame written and Ok" would be a silent loss).
/// A bus that answers whatever it likes: the bridge is a bridge over ANY bus, and writes back a frame exactly when the
/// bus replied — also when the request was a data chunk, a count, a goodbye or an unknown frame, and also when a bus
/// stays silent after a hello. Every (request kind x reply kind or none) pair, one pump each.
struct Talker {
    saw: Vec<RefMsg>,
    reply: Option<RefMsg>,
}

impl flipdot_core::SignBus for Talker {
    fn process_message<'a>(&mut self, message: flipdot_core::Message<'_>) -> Result<Option<flipdot_core::Message<'a>>, Box<dyn std::error::Error + Send + Sync>> {
        self.saw.push(refs::to_ref(&message));
        Ok(self.reply.as_ref().map(refs::from_ref))
    }
}

fn bridge_over_a_talkative_bus(rep: &mut Report) {
    use crate::doubles::{FragReader, FragWriter, WriteAct};
    let mut requests = vec![RefMsg::Hello(3), RefMsg::Query(0xFFFF), RefMsg::Goodbye(3), RefMsg::Complete(0x100), RefMsg::Count(0), RefMsg::Count(0x0411), RefMsg::Report(3, S_SHOWN), RefMsg::Ack(3, O_RECV_PIX)];
    requests.extend((0..N_OPS).map(|o| RefMsg::Request(3, o)));
    for n in [0usize, 1, 2, 16, 255] {
        requests.push(RefMsg::Data { offset: 0x0203, data: vec![0x02; n] });
        requests.push(RefMsg::Unknown { addr: 0x0302, ty: 0x7E, data: vec![0x03; n] });
    }
    for ty in [1u8, 6, 7, 9, 0x80, 0xFF] {
        requests.push(RefMsg::Unknown { addr: 3, ty, data: vec![0x0F] });
    }
    let replies: Vec<Option<RefMsg>> = vec![None, Some(RefMsg::Report(3, S_UNCONF)), Some(RefMsg::Report(0x0302, S_LOAD_PROG)), Some(RefMsg::Ack(3, O_RECV_CFG)), Some(RefMsg::Data { offset: 16, data: vec![0xA5; 16] }), Some(RefMsg::Unknown { addr: 0xFFFF, ty: 0xFF, data: vec![0xFF; 255] }), Some(RefMsg::Hello(3)), Some(RefMsg::Count(2))];
    for req in &requests {
        for reply in &replies {
            let sig = format!("talkative|{}|{}", req.show().chars().take(40).collect::<String>(), reply.as_ref().map(|r| r.show().chars().take(40).collect::<String>()).unwrap_or("-".into()));
            rep.case(Some(fnv(sig.as_bytes())));
            let bus = Rc::new(RefCell::new(Talker { saw: vec![], reply: reply.clone() }));
            let st = doubles::shared(doubles::WEIRD_SETTINGS);
            let port = InstrPort::scripted(st.clone(), FragReader::plain(refs::wire(req)), FragWriter::new(vec![], WriteAct::Accept(usize::MAX)));
            let Ok(mut odk) = Odk::try_new(port, SharedBus(bus.clone())) else {
                rep.note("measure_error/talkative", J::s("odk setup failed"));
                continue;
            };
            st.borrow_mut().written.clear();
            let r = catch(|| odk.process_message().map_err(|e| format!("{:?}", e).chars().take(80).collect::<String>()));
            rep.count("bridge_pumps_over_a_talkative_bus");
            let want = reply.as_ref().map(refs::wire).unwrap_or_default();
            let saw = bus.borrow().saw.clone();
            let mut bad = vec![];
            if !matches!(&r, Ok(Ok(()))) {
                bad.push(format!("the pump returned {:?}", r.as_ref().map_err(|p| p.msg.clone())));
            }
            if saw != vec![req.clone()] {
                bad.push(format!("the bus saw [{}], the line was {}", saw.iter().map(|m| m.show()).collect::<Vec<_>>().join(" "), req.show()));
            }
            if st.borrow().written != want {
                bad.push(format!("[{}] was written back, the bus replied [{}]", show_bytes(&st.borrow().written), show_bytes(&want)));
            }
            if let Some(b) = bad.first() {
                rep.violation(MON_B, "bridge_reply_not_what_the_bus_said", &sig, format!("bridge over a bus that answers {} to {}: {}", reply.as_ref().map(|r| r.show()).unwrap_or("nothing".into()), req.show(), b), J::obj(vec![("request", J::s(req.show())), ("bus_reply", J::s(reply.as_ref().map(|r| r.show()).unwrap_or("none".into()))), ("observed", J::s(b.clone()))]));
            }
        }
    }
}

fn bridge_faults(rep: &mut Report) {
    use crate::doubles::{FragReader, FragWriter, ReadFault, WriteAct};
    let requests = [RefMsg::Hello(3), RefMsg::Query(3), RefMsg::Request(3, O_RECV_CFG), RefMsg::Goodbye(3)];
    for req in &requests {
        let line = refs::wire(req);
        let replies = !matches!(req, RefMsg::Goodbye(_));
        // (a) read faults at every position of the line
        for pos in 0..line.len() {
            for kind in [std::io::ErrorKind::TimedOut, std::io::ErrorKind::Other] {
                let vbus: VBus = Rc::new(RefCell::new(RecBus::new(population(&[3], &[false]))));
                let st = doubles::shared(doubles::WEIRD_SETTINGS);
                let port = InstrPort::scripted(st.clone(), FragReader::new(line.clone(), vec![], vec![(pos, ReadFault::Fail(kind), usize::MAX)]), FragWriter::new(vec![], WriteAct::Accept(usize::MAX)));
                let mut odk = Odk::try_new(port, SharedBus(vbus.clone())).expect("odk setup");
                st.borrow_mut().written.clear();
                let r = catch(|| odk.process_message().map_err(|e| format!("{:?}", e).chars().take(60).collect::<String>()));
                rep.case(Some(fnv(format!("rf{}{:?}{}", pos, kind, req.show()).as_bytes())));
                rep.count("bridge_read_faults");
                let ok = matches!(&r, Ok(Err(e)) if e.starts_with("Communication")) && vbus.borrow().log.is_empty() && st.borrow().written.is_empty();
                if !ok {
                    rep.violation(MON_B, "bridge_read_fault_mishandled", &format!("{}@{}", req.show(), pos), format!("read failure ({:?}) at byte {} of [{}]: result {:?}, bus saw {} message(s), {} byte(s) written back", kind, pos, show_bytes(&line), r.as_ref().map_err(|p| p.msg.clone()), vbus.borrow().log.len(), st.borrow().written.len()), J::Null);
                }
            }
        }
        // (c) a port that takes only a few bytes per write call, and never fails: the whole reply still goes back
        if replies {
            for size in [1usize, 2, 4, 7] {
                let vbus: VBus = Rc::new(RefCell::new(RecBus::new(population(&[3], &[false]))));
                let st = doubles::shared(doubles::WEIRD_SETTINGS);
                let port = InstrPort::scripted(st.clone(), FragReader::plain(line.clone()), FragWriter::new(vec![WriteAct::Interrupted], WriteAct::Accept(size)));
                let mut odk = Odk::try_new(port, SharedBus(vbus.clone())).expect("odk setup");
                st.borrow_mut().written.clear();
                let r = catch(|| odk.process_message().map_err(|e| format!("{:?}", e).chars().take(60).collect::<String>()));
                rep.case(Some(fnv(format!("sw{}{}", size, req.show()).as_bytes())));
                rep.count("bridge_short_writes");
                let reply = vbus.borrow().log.last().and_then(|e| e.reply.clone().ok()).flatten();
                let full = reply.as_ref().map(refs::wire).unwrap_or_default();
                if !matches!(&r, Ok(Ok(()))) || st.borrow().written != full || full.is_empty() {
                    rep.violation(MON_B, "bridge_short_write_mishandled", &format!("{}|{}", req.show(), size), format!("port accepting {} byte(s) per write: result {:?}, [{}] reached the wire, the reply is [{}]", size, r.as_ref().map_err(|p| p.msg.clone()), show_bytes(&st.borrow().written), show_bytes(&full)), J::Null);
                }
            }
        }
        // (b) write faults at every call index while the reply goes back (chunk sizes 1, 4, all)
        if replies {
            for size in [1usize, 4, usize::MAX] {
                let calls = if size == usize::MAX { 1 } else { 15usize.div_ceil(size) };
                for j in 0..calls {
                    for act in [WriteAct::Fail(std::io::ErrorKind::Other), WriteAct::Fail(std::io::ErrorKind::BrokenPipe), WriteAct::Zero] {
                        let vbus: VBus = Rc::new(RefCell::new(RecBus::new(population(&[3], &[false]))));
                        let st = doubles::shared(doubles::WEIRD_SETTINGS);
                        let mut script = vec![WriteAct::Accept(size); j];
                        script.push(act);
                        let port = InstrPort::scripted(st.clone(), FragReader::plain(line.clone()), FragWriter::new(script, WriteAct::Accept(size)));
                        let mut odk = Odk::try_new(port, SharedBus(vbus.clone())).expect("odk setup");
                        st.borrow_mut().written.clear();
                        let r = catch(|| odk.process_message().map_err(|e| format!("{:?}", e).chars().take(60).collect::<String>()));
                        rep.case(Some(fnv(format!("wf{}{}{:?}{}", size, j, act, req.show()).as_bytes())));
                        rep.count("bridge_write_faults");
                        let reply = vbus.borrow().log.last().and_then(|e| e.reply.clone().ok()).flatten();
                        let full = reply.as_ref().map(refs::wire).unwrap_or_default();
                        let written = st.borrow().written.clone();
                        let surfaced = matches!(&r, Ok(Err(_)));
                        if reply.is_none() {
                            rep.violation(MON_B, "bridge_fault_workload", &req.show(), "the virtual bus did not reply (workload error)".into(), J::Null);
                        } else if !surfaced || !full.starts_with(&written) || written == full {
                            rep.violation(MON_B, "bridge_write_fault_swallowed", &format!("{}|{}|{}|{:?}", req.show(), size, j, act), format!("the bus replied {} but writing it back failed at call {} ({:?}, {} byte(s) per call): result {:?}, [{}] reached the wire", show_opt(&reply), j, act, size, r.as_ref().map_err(|p| p.msg.clone()), show_bytes(&written)), J::Null);
                        }
                    }
                }
            }
        }
    }
}

pub fn run(ctx: &Ctx) -> Outcome {
    let n = ctx.size(400, 40_000) as usize;
    // nearly all the time is pacing sleeps: many more workers than cores
    let report = run_sharded_on(48, n + 1, |i, rep| {
        if i == n {
            raw_injection(rep);
            bridge_faults(rep);
            bridge_over_a_talkative_bus(rep);
            marathon(rep);
        } else {
            scenario(ctx, i as u64, rep);
        }
    });
    let floors = vec![
        floor("all 11 sign types used", report.set_len("types_used") == 11, report.set_len("types_used")),
        floor("all 6 operations used", report.set_len("ops_used") == 6, report.set_len("ops_used")),
        floor("all 6 operations SUCCEEDED somewhere (on both paths)", report.set_len("ops_succeeded") == 6, report.set_len("ops_succeeded")),
        floor("operations succeeding on both paths", report.get("ops_succeeded_on_both_paths") > 0, report.get("ops_succeeded_on_both_paths")),
        floor("operations failing on both paths (illegal orders compared)", report.get("ops_failed_on_both_paths") > 0, report.get("ops_failed_on_both_paths")),
        floor("full legal tours (configure, send, show, load-next, re-send, shut-down all succeeding)", report.get("legal_tours") > 20 && report.get("tour_ops_succeeded") > 100, report.get("tour_ops_succeeded")),
        floor("reconfiguration as another type", report.get("reconfigured_as_another_type") > 0, report.get("reconfigured_as_another_type")),
        floor("bursts of two and three lines waiting at the bridge; a bridge created with traffic waiting", report.get("bursts_of_lines_waiting_at_the_bridge") == 363 && report.get("bridges_created_with_traffic_waiting") == 1, report.get("bursts_of_lines_waiting_at_the_bridge")),
        floor("raw lines injected at the bridge", report.get("raw_lines_injected") > 300, report.get("raw_lines_injected")),
        floor("undecodable lines at the bridge", report.get("bridge_undecodable_lines") > 100, report.get("bridge_undecodable_lines")),
        floor("I/O faults at the bridge's own port (read fault at every byte, write fault at every call)", report.get("bridge_read_faults") > 100 && report.get("bridge_write_faults") > 50, report.get("bridge_write_faults")),
        floor("scenarios over a line whose writes block longer than the pacing pause", report.get("scenarios_over_a_slow_line") >= 20, report.get("scenarios_over_a_slow_line")),
        floor("the bridge over a bus that answers anything (30 request kinds x 8 replies or none): what is written back is what the bus said", report.get("bridge_pumps_over_a_talkative_bus") == 30 * 8, report.get("bridge_pumps_over_a_talkative_bus")),
        floor("raw frames of every data length 0..=255 over both paths in one scenario", report.get("raw_frames_of_every_length_over_the_wire") == 1 && report.get("raw_messages_on_both_paths") >= 256 * 5 + 70, format!("{} scenario, {} raw messages in all", report.get("raw_frames_of_every_length_over_the_wire"), report.get("raw_messages_on_both_paths"))),
        floor("a transfer of 300 data chunks in a row over the wire", report.get("long_transfers_over_the_wire") == 1 && report.get("long_transfers_that_succeeded_on_both_paths") == 1, format!("{} / {} succeeded on both paths", report.get("long_transfers_over_the_wire"), report.get("long_transfers_that_succeeded_on_both_paths"))),
        floor("70 000 messages through one serial bus and one bridge", report.get("marathon_messages_on_both_paths") == 70_000, report.get("marathon_messages_on_both_paths")),
        floor("bridge pumps checked", report.get("bridge_pumps_checked") > 1000, report.get("bridge_pumps_checked")),
    ];
    Outcome {
        report,
        level: "exploration",
        rule: "seeded scenarios: 1-3 virtual signs (addresses from {0,3,7F,80,100,FFFF}, mixed flip styles, all 11 types in rotation), 1-7 controller operations from {configure, configure_if_needed, send_pages(0..2), show, load_next, shut_down, reconfigure as another type} including illegal orders, each run over Sign->SerialSignBus->byte duplex->Odk->VirtualSignBus and directly on an identical VirtualSignBus, compared after EVERY operation; every bridge pump checked against the reference codec/table; plus ~700 raw lines injected at the bridge (all codes, unknown frames, 0/1/2-byte data chunks, lower case, every single-symbol substitution/insertion on one frame); distinct by scenario content hash".into(),
        exhaustive: false,
        floors,
        assumptions: vec![
            "the in-process duplex pumps the bridge synchronously when the controller has written a complete line; an empty receive queue models a read timeout".into(),
            "only success/failure (and returned flip style) is compared between the paths, not the error class".into(),
        ],
        extra: vec![],
    }
}
