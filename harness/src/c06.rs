//! C06 — page pixel operations change exactly the addressed pixel and nothing else.

use flipdot_core::{Page, PageId};

use crate::refs::{self, RefPage};
use crate::util::{Ctx, J, Outcome, Report, Rng, catch, floor, fnv, mix, run_sharded, short_loc};

const MON: &str = "page_pixel_model";

#[derive(Clone, Debug)]
enum Op {
    Set(u32, u32, bool),
    Get(u32, u32),
    Fill(bool),
}

impl Op {
    fn show(&self) -> String {
        match self {
            Op::Set(x, y, v) => format!("set({},{},{})", x, y, *v as u8),
            Op::Get(x, y) => format!("get({},{})", x, y),
            Op::Fill(v) => format!("fill({})", *v as u8),
        }
    }
}

/// Real page + reference model side by side.
struct Mon<'a> {
    page: Page<'a>,
    model: RefPage,
    /// header bytes 1..4 and padding as they were when the page was created
    header: [u8; 3],
    padding: Vec<u8>,
    origin: String,
    history: Vec<String>,
}

impl<'a> Mon<'a> {
    /// None when the constructor itself panics: whether a page of these dimensions can be built is C07's business, and
    /// without a page there is nothing for the bounds rules to hold on (counted, so that the floors notice).
    fn fresh_or_skip(id: u8, w: u32, h: u32, rep: &mut Report) -> Option<Mon<'static>> {
        match catch(|| Mon::fresh(id, w, h)) {
            Ok(m) => Some(m),
            Err(_) => {
                rep.count("pages_that_could_not_be_built");
                None
            }
        }
    }

    fn borrowed_or_skip(w: u32, h: u32, bytes: &'a [u8], rep: &mut Report) -> Result<Option<Mon<'a>>, ()> {
        match catch(std::panic::AssertUnwindSafe(|| Mon::borrowed(w, h, bytes))) {
            Ok(m) => Ok(m),
            Err(_) => {
                rep.count("pages_that_could_not_be_built");
                Err(())
            }
        }
    }

    fn fresh(id: u8, w: u32, h: u32) -> Mon<'static> {
        let page = Page::new(PageId(id), w, h);
        let b = page.as_bytes();
        let model = RefPage::new(id, w, h);
        let de = model.data_end().min(b.len());
        Mon {
            header: [b.get(1).copied().unwrap_or(0), b.get(2).copied().unwrap_or(0), b.get(3).copied().unwrap_or(0)],
            padding: b[de..].to_vec(),
            page,
            model,
            origin: format!("new({},{}x{})", id, w, h),
            history: vec![],
        }
    }

    /// Page over caller-owned bytes with arbitrary contents (header bytes, unused bits and padding included).
    fn borrowed(w: u32, h: u32, bytes: &'a [u8]) -> Option<Mon<'a>> {
        let page = Page::from_bytes(w, h, bytes).ok()?;
        let mut model = RefPage::new(bytes[0], w, h);
        let cb = refs::col_bytes(h);
        for x in 0..w {
            for y in 0..h {
                let byte = bytes[4 + (x as usize) * cb + (y / 8) as usize];
                model.set(x, y, byte >> (y % 8) & 1 == 1);
            }
        }
        let de = model.data_end();
        Some(Mon {
            header: [bytes[1], bytes[2], bytes[3]],
            padding: bytes[de..].to_vec(),
            page,
            model,
            origin: format!("from_bytes({}x{}, borrowed)", w, h),
            history: vec![],
        })
    }

    fn fail(&self, rep: &mut Report, class: &str, what: String) {
        let sig = format!("{}:{}", self.origin, self.history.join(","));
        rep.violation(
            MON,
            class,
            &sig,
            format!("{} after [{}]: {}", self.origin, self.history.join(" "), what),
            J::obj(vec![
                ("page", J::s(self.origin.clone())),
                ("ops", J::Arr(self.history.iter().map(|h| J::s(h.clone())).collect())),
                ("observed", J::s(what)),
                ("bytes", J::hex(self.page.as_bytes())),
            ]),
        );
    }

    /// Everything the statement says must be unchanged / equal, checked after an operation.
    fn compare(&self, rep: &mut Report, after_fill: bool) {
        let (w, h) = (self.model.w, self.model.h);
        let r = catch(|| {
            let mut bad: Vec<(&'static str, String)> = vec![];
            if self.page.id() != PageId(self.model.id) {
                bad.push(("id_changed", format!("id {:?} expected {}", self.page.id(), self.model.id)));
            }
            if self.page.width() != w || self.page.height() != h {
                bad.push(("dims_changed", format!("{}x{}", self.page.width(), self.page.height())));
            }
            let b = self.page.as_bytes();
            if b.len() != refs::padded_len(w, h) {
                bad.push(("length_changed", format!("{} bytes, expected {}", b.len(), refs::padded_len(w, h))));
                return bad;
            }
            let de = self.model.data_end();
            if b[de..] != self.padding[..] {
                bad.push(("padding_changed", format!("padding {:02x?}", &b[de..])));
            }
            if !after_fill && b[1..4] != self.header {
                bad.push(("header_changed", format!("header {:02x?}", &b[..4])));
            }
            'scan: for y in 0..h {
                for x in 0..w {
                    let got = self.page.get_pixel(x, y);
                    if got != self.model.get(x, y) {
                        bad.push(("pixel_differs", format!("pixel ({},{}) reads {} expected {}", x, y, got, self.model.get(x, y))));
                        break 'scan;
                    }
                }
            }
            bad
        });
        match r {
            Ok(bad) => {
                for (cls, what) in bad {
                    self.fail(rep, cls, what);
                }
            }
            Err(p) => self.fail(rep, "panic_in_bounds", format!("accessor panicked: {} at {}", p.msg, short_loc(&p.loc))),
        }
        rep.add("pixels_compared", u64::from(w) * u64::from(h));
    }

    fn apply(&mut self, op: &Op, rep: &mut Report) {
        let (w, h) = (self.model.w, self.model.h);
        self.history.push(op.show());
        if self.history.len() > 24 {
            // keep signatures and replay details readable: remember only the tail of long histories
            self.history.remove(0);
        }
        match *op {
            Op::Fill(v) => {
                rep.count("op/fill");
                match catch(|| self.page.set_all_pixels(v)) {
                    Ok(()) => {
                        self.model.fill(v);
                        self.compare(rep, true);
                    }
                    Err(p) => self.fail(rep, "panic_in_bounds", format!("set_all_pixels panicked: {} at {}", p.msg, short_loc(&p.loc))),
                }
            }
            Op::Set(x, y, v) => {
                let inb = x < w && y < h;
                let before = self.page.as_bytes().to_vec();
                let r = catch(|| self.page.set_pixel(x, y, v));
                if inb {
                    rep.count(if v { "op/set" } else { "op/clear" });
                    match r {
                        Ok(()) => {
                            self.model.set(x, y, v);
                            let ok = catch(|| self.page.get_pixel(x, y));
                            if !matches!(ok, Ok(g) if g == v) {
                                self.fail(rep, "readback", format!("get_pixel({},{}) = {:?} right after set to {}", x, y, ok.ok(), v));
                            }
                            self.compare(rep, false);
                        }
                        Err(p) => self.fail(rep, "panic_in_bounds", format!("set_pixel({},{}) panicked: {} at {}", x, y, p.msg, short_loc(&p.loc))),
                    }
                } else {
                    rep.count("op/set_oob");
                    match r {
                        Ok(()) => self.fail(rep, "oob_set_returned", format!("set_pixel({},{},{}) returned on a {}x{} page", x, y, v, w, h)),
                        Err(_) => rep.count("oob_panics_observed"),
                    }
                    if self.page.as_bytes() != &before[..] {
                        self.fail(rep, "oob_set_modified_bytes", format!("set_pixel({},{},{}) changed the page bytes", x, y, v));
                    }
                }
            }
            Op::Get(x, y) => {
                let inb = x < w && y < h;
                let r = catch(|| self.page.get_pixel(x, y));
                if inb {
                    rep.count("op/get");
                    match r {
                        Ok(g) => {
                            if g != self.model.get(x, y) {
                                self.fail(rep, "pixel_differs", format!("get_pixel({},{}) = {} expected {}", x, y, g, self.model.get(x, y)));
                            }
                        }
                        Err(p) => self.fail(rep, "panic_in_bounds", format!("get_pixel({},{}) panicked: {} at {}", x, y, p.msg, short_loc(&p.loc))),
                    }
                } else {
                    rep.count("op/get_oob");
                    match r {
                        Ok(g) => self.fail(rep, "oob_get_returned", format!("get_pixel({},{}) returned {} on a {}x{} page", x, y, g, w, h)),
                        Err(_) => rep.count("oob_panics_observed"),
                    }
                }
            }
        }
    }
}

fn oob_coords(w: u32, h: u32) -> Vec<(u32, u32)> {
    let cb8 = 8 * refs::col_bytes(h) as u32;
    let xs_out = [w, w + 1, w.saturating_mul(2).max(w + 2), u32::MAX];
    let mut ys_out = vec![h, h + 1, cb8, u32::MAX];
    if cb8 > 0 && cb8 - 1 >= h {
        ys_out.push(cb8 - 1); // an unused high bit of the column's last byte
    }
    let xs_in: Vec<u32> = if w > 0 { vec![0, w - 1, w / 2] } else { vec![0] };
    let ys_in: Vec<u32> = if h > 0 { vec![0, h - 1, h / 2] } else { vec![0] };
    let mut v = vec![];
    for &x in &xs_out {
        for &y in ys_in.iter().chain(ys_out.iter()) {
            v.push((x, y));
        }
    }
    for &y in &ys_out {
        for &x in &xs_in {
            if x < w || w == 0 {
                v.push((x, y));
            }
        }
    }
    v.retain(|&(x, y)| x >= w || y >= h);
    v
}

/// Out-of-bounds accesses made from a destructor WHILE ANOTHER PANIC UNWINDS (the application failed somewhere and its
/// clean-up code touches the page it was drawing on): each one is refused with a panic of its own (caught right there),
/// exactly as at any other time, and the page is left as it was.
struct CleanUp<'a, 'p> {
    page: &'a mut Page<'p>,
    coords: Vec<(u32, u32)>,
    tried: &'a std::cell::Cell<usize>,
    refused: &'a std::cell::Cell<usize>,
    was_unwinding: &'a std::cell::Cell<bool>,
}

impl Drop for CleanUp<'_, '_> {
    fn drop(&mut self) {
        self.was_unwinding.set(std::thread::panicking());
        for &(x, y) in &self.coords {
            let page = &mut *self.page;
            for write in [false, true] {
                self.tried.set(self.tried.get() + 1);
                let r = std::panic::catch_unwind(std::panic::AssertUnwindSafe(|| {
                    if write {
                        page.set_pixel(x, y, true);
                    } else {
                        let _ = page.get_pixel(x, y);
                    }
                }));
                if r.is_err() {
                    self.refused.set(self.refused.get() + 1);
                }
            }
        }
    }
}

fn oob_while_unwinding(id: u8, w: u32, h: u32, rep: &mut Report) {
    let coords = oob_coords(w, h);
    if coords.is_empty() {
        return;
    }
    let Ok(mut page) = catch(|| Page::new(PageId(id), w, h)) else { return };
    if w > 0 && h > 0 {
        page.set_pixel(w - 1, h - 1, true);
        page.set_pixel(0, 0, true);
    }
    let before = page.as_bytes().to_vec();
    let (tried, refused, unwinding) = (std::cell::Cell::new(0usize), std::cell::Cell::new(0usize), std::cell::Cell::new(false));
    let n = coords.len();
    let r = catch(std::panic::AssertUnwindSafe(|| {
        let _clean_up = CleanUp { page: &mut page, coords, tried: &tried, refused: &refused, was_unwinding: &unwinding };
        panic!("the application fails while it holds a page");
    }));
    rep.case(Some(mix(u64::from(w) << 32 | u64::from(h), 0xC06_0B)));
    let sig = format!("oob-while-unwinding|{}x{}", w, h);
    if r.is_ok() || !unwinding.get() || tried.get() != 2 * n {
        rep.count("oob_while_unwinding_not_reached");
        return;
    }
    rep.add("oob_accesses_made_while_a_panic_unwinds", tried.get() as u64);
    if refused.get() != tried.get() {
        rep.violation(MON, "oob_not_refused_while_unwinding", &sig, format!("{}x{} page: {} out-of-bounds accesses were made from a destructor while another panic was unwinding, only {} of them were refused with a panic", w, h, tried.get(), refused.get()), J::obj(vec![("workload", J::s("oob while unwinding")), ("width", J::Int(i128::from(w))), ("height", J::Int(i128::from(h)))]));
    }
    if page.as_bytes() != &before[..] {
        let at = page.as_bytes().iter().zip(&before).position(|(a, b)| a != b);
        rep.violation(MON, "oob_access_changed_the_page_while_unwinding", &sig, format!("{}x{} page: out-of-bounds accesses made from a destructor while another panic was unwinding changed the page (first at byte {:?})", w, h, at), J::obj(vec![("workload", J::s("oob while unwinding")), ("width", J::Int(i128::from(w))), ("height", J::Int(i128::from(h)))]));
    }
}

/// Every in-bounds pixel set and cleared on a blank and on a full page; every OOB probe.
fn exhaustive_size(id: u8, w: u32, h: u32, rep: &mut Report) {
    oob_while_unwinding(id, w, h, rep);
    rep.case(Some(mix(u64::from(w) << 32 | u64::from(h), 0xC06)));
    rep.seen("sizes", u64::from(w) << 32 | u64::from(h));
    for start_full in [false, true] {
        let Some(mut m) = Mon::fresh_or_skip(id, w, h, rep) else { return };
        m.compare(rep, false);
        if start_full {
            m.apply(&Op::Fill(true), rep);
        }
        for x in 0..w {
            for y in 0..h {
                m.apply(&Op::Set(x, y, !start_full), rep);
                m.apply(&Op::Set(x, y, !start_full), rep); // idempotent
                m.apply(&Op::Set(x, y, start_full), rep);
            }
        }
        // leave a pattern behind, then probe out of bounds (must not disturb it)
        for x in 0..w {
            for y in 0..h {
                if (x + 2 * y) % 3 == 0 {
                    m.apply(&Op::Set(x, y, true), rep);
                }
            }
        }
        for (x, y) in oob_coords(w, h) {
            m.apply(&Op::Get(x, y), rep);
            m.apply(&Op::Set(x, y, true), rep);
            m.apply(&Op::Set(x, y, false), rep);
        }
        m.compare(rep, false);
        m.apply(&Op::Fill(false), rep);
        m.apply(&Op::Fill(true), rep);
    }
    // If a page can be built over a buffer that is LONGER than the padded size (it should not: that is C07's business),
    // the bounds rules must hold on it all the same: x >= width and y >= height panic, and nothing outside the pixel
    // area is ever written.
    for extra in [1usize, 16, 32] {
        let long: Vec<u8> = (0..refs::padded_len(w, h) + extra).map(|i| (i as u8).wrapping_mul(31) | 1).collect();
        if let Ok(Ok(mut page)) = catch(std::panic::AssertUnwindSafe(|| Page::from_bytes(w, h, &long[..]))) {
            rep.count("overlong_pages_accepted_by_from_bytes");
            let data_end = 4 + (w as usize) * refs::col_bytes(h);
            for (x, y) in oob_coords(w, h) {
                let before = page.as_bytes().to_vec();
                let g = catch(|| page.get_pixel(x, y));
                let s1 = catch(|| page.set_pixel(x, y, true));
                let s0 = catch(|| page.set_pixel(x, y, false));
                if g.is_ok() || s1.is_ok() || s0.is_ok() || page.as_bytes() != &before[..] {
                    rep.violation(MON, "oob_on_overlong_page", &format!("{}x{}+{}:({},{})", w, h, extra, x, y), format!("{}x{} page over a buffer {} byte(s) too long: coordinate ({},{}) did not panic (get {:?}) or changed bytes", w, h, extra, x, y, g.ok()), J::Null);
                    break;
                }
            }
            let before = page.as_bytes().to_vec();
            if catch(|| page.set_all_pixels(false)).is_ok() && page.as_bytes()[data_end..] != before[data_end..] {
                rep.violation(MON, "set_all_outside_pixel_area", &format!("{}x{}+{}", w, h, extra), format!("{}x{} page over a buffer {} byte(s) too long: set_all_pixels wrote outside the pixel area", w, h, extra), J::Null);
            }
        }
    }
    if w > 0 && h > 0 {
        rep.count("nondegenerate_sizes");
    }
}

/// Exactly K writes to one page object, then a fill or a clear, for K around the values where an 8- or 16-bit tally of
/// writes would come back to zero: what the page looks like must not depend on how many times it has been written to.
fn counted_histories(rep: &mut Report) {
    let (w, h) = (37u32, 11u32);
    for k in [255usize, 256, 257, 511, 512, 65_535, 65_536, 65_537, 131_071, 131_072] {
        for variant in 0..3 {
            let backing: Vec<u8> = RefPage::new(9, w, h).image();
            let m = if variant == 2 { Mon::borrowed_or_skip(w, h, &backing, rep).ok().flatten() } else { Mon::fresh_or_skip(9, w, h, rep) };
            let Some(mut m) = m else { continue };
            rep.case(Some(mix(k as u64, 0xC06_0000 + variant as u64)));
            let writes = if variant == 1 { k - 1 } else { k };
            for i in 0..writes {
                let x = (i as u32 * 7) % w;
                let y = (i as u32 / 3) % h;
                // mostly "on"; the last write always leaves its pixel lit
                m.apply(&Op::Set(x, y, i % 5 != 4 || i + 1 == writes), rep);
            }
            if variant == 1 {
                m.apply(&Op::Fill(true), rep); // the k-th write is a fill
            }
            m.apply(&Op::Fill(false), rep);
            m.compare(rep, false);
            m.apply(&Op::Set(1, 1, true), rep);
            m.apply(&Op::Fill(true), rep);
            m.compare(rep, false);
            rep.count("counted_histories");
        }
    }
}

/// Two (or three) pages alive at once and written to in turn — same height and different widths, same width and
/// different heights, same size: what one page does must not depend on which page was touched last.
fn interleaved_pages(rng: &mut Rng, rep: &mut Report) {
    for dims in [[(112u32, 16u32), (48, 16), (48, 7)], [(30, 7), (90, 7), (30, 10)], [(5, 9), (5, 9), (9, 5)], [(16, 16), (17, 16), (16, 17)]] {
        let backing: Vec<Vec<u8>> = dims.iter().map(|(w, h)| rng.bytes(refs::padded_len(*w, *h))).collect();
        let mut mons: Vec<Mon<'_>> = vec![];
        for (i, (w, h)) in dims.iter().enumerate() {
            let m = if i == 1 { Mon::borrowed_or_skip(*w, *h, &backing[i], rep).ok().flatten() } else { Mon::fresh_or_skip(i as u8, *w, *h, rep) };
            let Some(m) = m else { return };
            mons.push(m);
        }
        rep.case(Some(rng.next()));
        for step in 0..600usize {
            let k = if step % 2 == 0 { step / 2 % 3 } else { rng.usize(3) };
            let (w, h) = dims[k];
            let op = match rng.below(12) {
                0 => Op::Fill(true),
                1 => Op::Fill(false),
                2 => Op::Get(rng.below(u64::from(w)) as u32, rng.below(u64::from(h)) as u32),
                3 => Op::Set(w, rng.below(u64::from(h)) as u32, true),
                _ => Op::Set(rng.below(u64::from(w)) as u32, rng.below(u64::from(h)) as u32, rng.bool()),
            };
            mons[k].apply(&op, rep);
            // the pages that were NOT touched are what they were
            for j in 0..3 {
                if j != k {
                    mons[j].compare(rep, false);
                }
            }
        }
        // ... and THE SAME COORDINATE on one page after the other (pages of different heights have different column strides:
        // whatever one access worked out must not serve the next page): every pixel of the smallest common area, written
        // on page 0, page 1, page 2 in turn and read back in the other order
        let (cw, ch) = (dims.iter().map(|d| d.0).min().unwrap_or(0).min(20), dims.iter().map(|d| d.1).min().unwrap_or(0));
        for x in 0..cw {
            for y in 0..ch {
                let v = (x + y) % 3 != 0;
                for k in 0..3 {
                    mons[k].apply(&Op::Set(x, y, v), rep);
                }
                for k in [2usize, 0, 1] {
                    mons[k].apply(&Op::Get(x, y), rep);
                }
                rep.count("same_coordinate_on_one_page_after_another");
            }
        }
        for m in mons.iter_mut() {
            m.compare(rep, false);
        }
        rep.count("interleaved_page_groups");
    }
}

/// Pages laid over ANOTHER page's bytes: a w x (8k - r) page over the bytes of a fully lit w x 8k page has its spare rows
/// lit. Exactly as many real pixels as there are lit spare bits are cleared, then everything is filled (and the other way
/// round over a dark page with spare bits... there are none, so: over a page whose spare bits alone are lit): set-all
/// makes every pixel read the value, whatever the bits outside the page say.
fn pages_over_other_pages_bytes(rng: &mut Rng, rep: &mut Report) {
    // (see gigantic_pages for the filled half-gigabyte pages)
    for (w, h) in [(1u32, 7u32), (8, 7), (5, 3), (90, 7), (30, 10), (40, 12), (23, 10), (3, 1), (16, 15), (2, 9)] {
        let cb = refs::col_bytes(h);
        let spare_per_col = (cb * 8) as u32 - h;
        for variant in 0..4usize {
            // 0: all bytes FF (spare bits lit, all pixels lit); 1: only the spare bits lit; 2: FF, borrowed vs 3: owned copy
            let mut backing = vec![0xFFu8; refs::padded_len(w, h)];
            backing[0] = 7;
            if variant == 1 {
                for x in 0..w as usize {
                    for b in 0..cb {
                        let lo = (b * 8) as u32;
                        let mask: u8 = (0..8u32).filter(|k| lo + k >= h).fold(0u8, |m, k| m | (1 << k));
                        backing[4 + x * cb + b] = mask;
                    }
                }
            }
            let Ok(Some(mut m)) = Mon::borrowed_or_skip(w, h, &backing, rep) else { continue };
            rep.case(Some(mix(u64::from(w) << 32 | u64::from(h), 0xA11A5 + variant as u64)));
            let n_spare = (spare_per_col * w) as usize;
            // clear (variant 0, 2, 3) or light (variant 1) exactly n_spare distinct real pixels, then fill with the opposite
            let mut picked: Vec<(u32, u32)> = vec![];
            while picked.len() < n_spare.min((w * h) as usize) {
                let p = (rng.below(u64::from(w)) as u32, rng.below(u64::from(h)) as u32);
                if !picked.contains(&p) {
                    picked.push(p);
                }
            }
            let lit_first = variant != 1;
            for (x, y) in &picked {
                m.apply(&Op::Set(*x, *y, !lit_first), rep);
            }
            m.apply(&Op::Fill(lit_first), rep);
            m.compare(rep, false);
            m.apply(&Op::Fill(!lit_first), rep);
            m.compare(rep, false);
            rep.count("pages_laid_over_another_pages_bytes");
        }
    }
}

fn random_sequence(rng: &mut Rng, rep: &mut Report, max_ops: usize) {
    let n_ops = 1 + rng.usize(max_ops);
    sequence_of_length(rng, rep, n_ops)
}

/// (the long ones: one page object living through 100 000 operations)
fn sequence_of_length(rng: &mut Rng, rep: &mut Report, n_ops: usize) {
    rep.max("longest_sequence", n_ops as f64);
    let (w, h) = if rng.chance(1, 3) {
        let t = rng.pick(&refs::TYPES);
        (t.w, t.h)
    } else {
        (rng.below(24) as u32, rng.below(36) as u32)
    };
    let borrowed = rng.bool();
    let backing: Vec<u8> = if rng.chance(1, 4) {
        // genuine-looking content
        let mut p = RefPage::new(rng.u8(), w, h);
        for _ in 0..rng.usize(40) {
            if w > 0 && h > 0 {
                p.set(rng.below(u64::from(w)) as u32, rng.below(u64::from(h)) as u32, true);
            }
        }
        p.image()
    } else {
        rng.bytes(refs::padded_len(w, h))
    };
    let saved = backing.clone();
    {
        let mut m = if borrowed {
            match Mon::borrowed_or_skip(w, h, &backing, rep) {
                Err(()) => return,
                Ok(Some(m)) => m,
                Ok(None) => {
                    rep.violation(MON, "from_bytes_rejected_right_length", &format!("{}x{}", w, h), format!("from_bytes({}x{}) rejected {} bytes", w, h, backing.len()), J::Null);
                    return;
                }
            }
        } else {
            match Mon::fresh_or_skip(rng.u8(), w, h, rep) {
                Some(m) => m,
                None => return,
            }
        };
        rep.case(Some(rng.next()));
        rep.count(if borrowed { "sequences_borrowed" } else { "sequences_fresh" });
        m.compare(rep, false);
        let mut ops_shown = vec![];
        for _ in 0..n_ops {
            let op = match rng.below(20) {
                0 => Op::Fill(rng.bool()),
                1 | 2 => {
                    let (x, y) = *rng.pick(&oob_coords(w, h));
                    if rng.bool() { Op::Set(x, y, rng.bool()) } else { Op::Get(x, y) }
                }
                3 | 4 if w > 0 && h > 0 => Op::Get(rng.below(u64::from(w)) as u32, rng.below(u64::from(h)) as u32),
                _ if w > 0 && h > 0 => Op::Set(rng.below(u64::from(w)) as u32, rng.below(u64::from(h)) as u32, rng.bool()),
                _ => Op::Fill(rng.bool()),
            };
            if ops_shown.len() < 6 {
                ops_shown.push(op.show());
            }
            if borrowed && matches!(op, Op::Set(x, y, _) if x < w && y < h) {
                rep.count("borrowed_pages_mutated");
            }
            m.apply(&op, rep);
        }
        if rep.wants_sample() {
            rep.sample(|| J::obj(vec![("page", J::s(m.origin.clone())), ("ops", J::us(n_ops)), ("first_ops", J::s(ops_shown.join(" ")))]));
        }
    }
    if backing != saved {
        rep.violation(MON, "callers_slice_changed", &format!("{}x{}", w, h), "the caller's borrowed slice was modified".into(), J::Null);
    }
}

/// After a fill with `v`: the first pixel (by column and byte) whose bits in the page image are not all `v`. Spare bits
/// above the last row are not looked at.
fn first_wrong_dot(bytes: &[u8], w: u32, h: u32, v: bool) -> Option<String> {
    let cb = (h as usize).div_ceil(8);
    let last_mask: u8 = if h % 8 == 0 { 0xFF } else { (1u8 << (h % 8)) - 1 };
    let data = bytes.get(4..4 + (w as usize) * cb)?;
    for (x, col) in data.chunks(cb).enumerate() {
        let full = if v { 0xFFu8 } else { 0 };
        if let Some(k) = col[..cb - 1].iter().position(|b| *b != full) {
            return Some(format!("byte {} of column {} (image byte {}) is {:#04x}", k, x, 4 + x * cb + k, col[k]));
        }
        let lastb = col[cb - 1] & last_mask;
        if lastb != (full & last_mask) {
            return Some(format!("the last byte of column {} (image byte {}) is {:#04x}", x, 4 + x * cb + cb - 1, col[cb - 1]));
        }
    }
    None
}

/// Pages of one to sixteen MiB (their data ends on, before and after the 2^20 and 2^24 byte marks), new and over the
/// caller's zeroed bytes: filled, cleared and filled again, every pixel read off the bytes after each.
fn megabyte_pages_filled(rep: &mut Report) {
    for (w, h) in [(1u32 << 20, 9u32), (1 << 20, 8), (65_536, 128), (65_537, 128), (65_535, 128), (3, 1 << 23), (1 << 17, 64), ((1 << 17) + 1, 64), (1 << 21, 64), (2_097_151, 8), (5, (1 << 24) + 8)] {
        let sig = format!("megabyte|{}x{}", w, h);
        rep.case(Some(fnv(sig.as_bytes())));
        for borrowed in [false, true] {
            let backing = if borrowed { vec![0u8; refs::padded_len(w, h)] } else { vec![] };
            let r = catch(std::panic::AssertUnwindSafe(|| -> Result<Option<String>, String> {
                let mut page = if borrowed { Page::from_bytes(w, h, &backing[..]).map_err(|e| e.to_string())? } else { Page::new(PageId(0), w, h) };
                let header: [u8; 4] = [page.as_bytes()[0], page.as_bytes()[1], page.as_bytes()[2], page.as_bytes()[3]];
                for v in [true, false, true] {
                    page.set_all_pixels(v);
                    if let Some(what) = first_wrong_dot(page.as_bytes(), w, h, v) {
                        return Ok(Some(format!("after set_all_pixels({}) {}", v, what)));
                    }
                    if page.as_bytes().len() != refs::padded_len(w, h) || page.as_bytes()[..4] != header {
                        return Ok(Some("the header or the length changed".into()));
                    }
                }
                Ok(None)
            }));
            match r {
                Ok(Ok(None)) => rep.count("megabyte_pages_filled_and_scanned"),
                Ok(Ok(Some(what))) => rep.violation(MON, "fill_leaves_pixels_on_a_large_page", &sig, format!("{}x{} page ({}): {}", w, h, if borrowed { "over the caller's bytes" } else { "new" }, what), J::obj(vec![("workload", J::s("megabyte pages")), ("width", J::Int(i128::from(w))), ("height", J::Int(i128::from(h))), ("observed", J::s(what.clone()))])),
                Ok(Err(e)) => rep.violation(MON, "well_formed_page_refused", &sig, format!("from_bytes refused a zeroed {}x{} page of the padded length: {}", w, h, e), J::Null),
                Err(p) => rep.violation(MON, "panic", &sig, format!("{}x{} page: panic {} at {}", w, h, p.msg, short_loc(&p.loc)), J::Null),
            }
        }
    }
}

/// Pages of half a gigabyte — sizes at which the NUMBER OF DOTS (not either dimension, not the byte length) passes 2^32:
/// 65 537 x 65 536, 65 536 x 65 537, (2^28 + 1) x 16, 2^16 x 2^16 and one just below. They are built over zeroed buffers
/// (which the system hands out lazily, so only the pages touched cost anything); a handful of pixels — the corners, the
/// first pixel past every 2^32-dot mark, random ones — are written, read back, checked against the byte and bit the
/// layout prescribes, and cleared again; their neighbours stay dark.
fn gigantic_pages(rng: &mut Rng, rep: &mut Report) {
    let filled_gigantic = std::cell::Cell::new(0usize);
    // ... and pages that are a few columns of enormous HEIGHT (past 2^24, 2^30, 2^31, up to u32::MAX rows): where a column's
    // byte count is worked out in anything narrower or less exact than the height itself, it goes wrong here
    for (w, h) in [(65_537u32, 65_536u32), (65_536, 65_537), ((1 << 28) + 1, 16), (65_536, 65_536), (65_535, 65_536), (8_388_609, 512), (2, (1 << 24) + 1), (3, (1 << 24) + 9), (2, (1 << 30) + 1), (1, (1 << 31) + 1), (1, u32::MAX), (1, u32::MAX - 7)] {
        let cb = (h as usize).div_ceil(8);
        let data = 4 + (w as usize) * cb;
        let len = data.div_ceil(16) * 16;
        let sig = format!("gigantic|{}x{}", w, h);
        rep.case(Some(fnv(sig.as_bytes())));
        let mut probes: Vec<(u32, u32)> = vec![(0, 0), (w - 1, h - 1), (w - 1, 0), (0, h - 1), (w / 2, h / 2), (1, 0), (0, 1)];
        // the first column whose dots lie past 2^32 (counting 8 * cb dots per column), and its neighbours
        let per_col = (cb * 8) as u64;
        let col = ((1u64 << 32) / per_col) as u32;
        for c in [col.saturating_sub(1), col, col + 1] {
            if c < w {
                probes.extend([(c, 0), (c, h - 1), (c, h / 3)]);
            }
        }
        for _ in 0..12 {
            probes.push((rng.below(u64::from(w)) as u32, rng.below(u64::from(h)) as u32));
        }
        probes.retain(|&(x, y)| x < w && y < h);
        for owned in [true, false] {
            let backing: Vec<u8> = if owned { vec![] } else { vec![0u8; len] };
            let r = catch(std::panic::AssertUnwindSafe(|| -> Result<Vec<String>, String> {
                let mut page = if owned { Page::from_bytes(w, h, vec![0u8; len]) } else { Page::from_bytes(w, h, &backing[..]) }.map_err(|e| e.to_string())?;
                let mut bad = vec![];
                for &(x, y) in &probes {
                    if page.get_pixel(x, y) {
                        bad.push(format!("pixel ({},{}) of a blank page reads lit", x, y));
                    }
                    page.set_pixel(x, y, true);
                    let idx = 4 + (x as usize) * cb + (y / 8) as usize;
                    if !page.get_pixel(x, y) {
                        bad.push(format!("pixel ({},{}) reads dark right after it was lit", x, y));
                    }
                    if page.as_bytes().get(idx).copied() != Some(1u8 << (y % 8)) {
                        bad.push(format!("lighting ({},{}) made byte {} = {:?}, the layout says {:#04x}", x, y, idx, page.as_bytes().get(idx), 1u8 << (y % 8)));
                    }
                    // the neighbours in the column, the row and the dot number stay dark
                    for (nx, ny) in [(x.wrapping_sub(1), y), (x + 1, y), (x, y.wrapping_sub(1)), (x, y + 1)] {
                        if nx < w && ny < h && page.get_pixel(nx, ny) {
                            bad.push(format!("lighting ({},{}) lit ({},{}) as well", x, y, nx, ny));
                        }
                    }
                    page.set_pixel(x, y, false);
                    if page.get_pixel(x, y) || page.as_bytes().get(idx).copied() != Some(0) {
                        bad.push(format!("pixel ({},{}) still lit after it was cleared", x, y));
                    }
                }
                // two of the half-gigabyte pages are also FILLED (and cleared again): every probed pixel reads the value
                if owned && (w, h) == (65_537, 65_536) || !owned && (w, h) == (2, (1 << 30) + 1) {
                    for v in [true, false] {
                        page.set_all_pixels(v);
                        for &(x, y) in &probes {
                            if page.get_pixel(x, y) != v {
                                bad.push(format!("after set_all_pixels({}) pixel ({},{}) reads {}", v, x, y, !v));
                                break;
                            }
                        }
                        // ... and EVERY pixel, read off the bytes column by column
                        if let Some(w) = first_wrong_dot(page.as_bytes(), w, h, v) {
                            bad.push(format!("after set_all_pixels({}) {}", v, w));
                        }
                    }
                    filled_gigantic.set(filled_gigantic.get() + 1);
                }
                Ok(bad)
            }));
            match r {
                Ok(Ok(bad)) => {
                    if bad.is_empty() {
                        rep.count("gigantic_pages_probed");
                    }
                    for b in bad.into_iter().take(3) {
                        rep.violation(MON, "pixel_wrong_on_a_gigantic_page", &sig, format!("{}x{} page ({} bytes, {}): {}", w, h, len, if owned { "owned" } else { "borrowed" }, b), J::obj(vec![("workload", J::s("gigantic pages")), ("width", J::Int(i128::from(w))), ("height", J::Int(i128::from(h))), ("observed", J::s(b.clone()))]));
                    }
                }
                Ok(Err(e)) => rep.violation(MON, "gigantic_page_refused", &sig, format!("from_bytes({}x{}, {} bytes — the padded length) refused: {}", w, h, len, e), J::obj(vec![("workload", J::s("gigantic pages")), ("width", J::Int(i128::from(w))), ("height", J::Int(i128::from(h)))])),
                Err(p) => rep.violation(MON, "panic", &sig, format!("{}x{} page ({} bytes, {}): panic {} at {}", w, h, len, if owned { "owned" } else { "borrowed" }, p.msg, short_loc(&p.loc)), J::obj(vec![("workload", J::s("gigantic pages")), ("width", J::Int(i128::from(w))), ("height", J::Int(i128::from(h)))])),
            }
        }
    }
    rep.add("gigantic_pages_filled_and_cleared", filled_gigantic.get() as u64);
}

pub fn run(ctx: &Ctx) -> Outcome {
    let (bw, bh) = if ctx.quick() { (14u32, 25u32) } else { (20, 33) };
    let n_seq = ctx.size(200_000, 12_000_000);
    let seq_shards = 64usize;
    let mut sizes: Vec<(u32, u32)> = vec![];
    for w in 0..=bw {
        for h in 0..=bh {
            sizes.push((w, h));
        }
    }
    let box_n = sizes.len();
    for t in refs::TYPES.iter() {
        sizes.push((t.w, t.h));
    }
    // tall and wide pages: rows beyond 255 / 256 / 264, columns beyond 255 / 256 (an index kept in 8 bits aliases here)
    let n_tall = {
        let before = sizes.len();
        sizes.extend([(2u32, 257u32), (1, 264), (3, 300), (257, 3), (300, 2), (2, 2041), (2, 2049), (3, 2056), (1, 4100), (2049, 2)]);
        sizes.len() - before
    };
    let ns = sizes.len();
    let mut report = run_sharded(ctx, ns + seq_shards, |shard, rep| {
        if shard < ns {
            let (w, h) = sizes[shard];
            exhaustive_size((shard * 7) as u8, w, h, rep);
            rep.count(if shard < box_n { "box_sizes_done" } else if shard < box_n + 11 { "real_sizes_done" } else { "tall_and_wide_sizes_done" });
        } else {
            let mut rng = ctx.rng("seq", (shard - ns) as u64);
            if shard - ns < 4 {
                sequence_of_length(&mut rng, rep, 100_000);
                rep.count("long_sequences");
            } else if shard - ns == 4 {
                counted_histories(rep);
            } else if shard - ns == 5 {
                interleaved_pages(&mut rng, rep);
            }
            for _ in 0..n_seq / seq_shards as u64 {
                random_sequence(&mut rng, rep, 200);
            }
        }
    });
    {
        // the same calls from a thread-local destructor while a thread exits (see exitprobe.rs)
        let mut at_exit = Report::new();
        crate::exitprobe::check("page", MON, &mut at_exit);
        gigantic_pages(&mut ctx.rng("gigantic", 0), &mut at_exit);
        pages_over_other_pages_bytes(&mut ctx.rng("aliased", 0), &mut at_exit);
        crate::c07::uniform_pages_with_every_id(&mut at_exit);
        megabyte_pages_filled(&mut at_exit);
        crate::exitprobe::check_migration("page", MON, &mut at_exit);
        report.merge(at_exit);
    }
    let floors = vec![
        floor("every page asked for could be built (otherwise the bounds rules were not observed on those sizes)", report.get("pages_that_could_not_be_built") == 0, report.get("pages_that_could_not_be_built")),
        floor("pages over bytes whose pixel area is all one value, with every id 0..=255 (3 sizes, borrowed and owned), filled and cleared in both orders", report.get("uniform_pages_with_every_id") == 3 * 256 * 4, report.get("uniform_pages_with_every_id")),
        floor("pages of one to sixteen MiB around the 2^20 and 2^24 byte marks, new and over the caller's bytes, filled / cleared / filled with every pixel read off the bytes", report.get("megabyte_pages_filled_and_scanned") == 22, report.get("megabyte_pages_filled_and_scanned")),
        floor("two half-gigabyte pages filled and cleared with set_all_pixels, every probed pixel read after each", report.get("gigantic_pages_filled_and_cleared") == 2, report.get("gigantic_pages_filled_and_cleared")),
        floor("pages whose dot count passes 2^32 (65537x65536, 65536x65537, (2^28+1)x16, ...), owned and borrowed, probed at the corners, past the 2^32-dot mark and at random", report.get("gigantic_pages_probed") == 24, report.get("gigantic_pages_probed")),
        floor("out-of-bounds accesses made from a destructor while another panic unwinds (every size of the box)", report.get("oob_accesses_made_while_a_panic_unwinds") > 10_000 && report.get("oob_while_unwinding_not_reached") == 0, report.get("oob_accesses_made_while_a_panic_unwinds")),
        floor("the same coordinate written and read on pages of different strides one after the other", report.get("same_coordinate_on_one_page_after_another") > 500, report.get("same_coordinate_on_one_page_after_another")),
        floor("pages laid over a fully lit (or spare-bits-only) buffer, as many real pixels changed as spare bits are lit, then filled", report.get("pages_laid_over_another_pages_bytes") == 40, report.get("pages_laid_over_another_pages_bytes")),
        floor("every size of the box explored", report.get("box_sizes_done") == box_n as u64, report.get("box_sizes_done")),
        floor("tall and wide pages explored pixel by pixel", report.get("tall_and_wide_sizes_done") == n_tall as u64, report.get("tall_and_wide_sizes_done")),
        floor("all 11 real sizes explored", report.get("real_sizes_done") == 11, report.get("real_sizes_done")),
        floor("four sequences of 100 000 operations on one page object", report.get("long_sequences") == 4, report.get("long_sequences")),
        floor("pages alive at once and written to in turn (equal heights, equal widths, equal sizes)", report.get("interleaved_page_groups") == 4, report.get("interleaved_page_groups")),
        floor("fill / clear after exactly 255..131072 writes to one page", report.get("counted_histories") == 30, report.get("counted_histories")),
        floor("every op kind exercised", ["op/set", "op/clear", "op/fill", "op/get", "op/set_oob", "op/get_oob"].iter().all(|k| report.get(k) > 0), "set/clear/fill/get/set_oob/get_oob"),
        floor("out-of-bounds panics observed", report.get("oob_panics_observed") > report.get("nondegenerate_sizes"), report.get("oob_panics_observed")),
        floor("borrowed pages mutated", report.get("borrowed_pages_mutated") > 0, report.get("borrowed_pages_mutated")),
        floor("fresh and borrowed sequences", report.get("sequences_fresh") > 0 && report.get("sequences_borrowed") > 0, report.get("sequences_borrowed")),
    ];
    Outcome {
        report,
        level: "exploration",
        rule: format!(
            "every page size in the box 0..={} x 0..={} plus the 11 real sizes: every pixel set/re-set/cleared on a blank and a full page with a full comparison after EVERY operation, all out-of-bounds probes; plus seeded random op sequences (<=200 ops) on fresh and borrowed pages with arbitrary initial bytes; distinct = (size) for the exhaustive part and sequence seed for the random part; non-trivial = all",
            bw, bh
        ),
        exhaustive: false,
        floors,
        assumptions: vec![
            "oracle: boolean-matrix page model; after every operation id, dims, length, header bytes 1..3, padding and EVERY pixel are compared".into(),
            "unused high bits of a column's last byte are not constrained (set_all_pixels legitimately fills whole bytes)".into(),
        ],
        extra: vec![],
    }
}
