//! C01 — frame wire codec round-trips every frame in the documented Intel-HEX shape.

use flipdot_core::{Address, Data, Frame, FrameError, MsgType};

use crate::refs;
use crate::util::{self, Ctx, J, Outcome, Report, catch, floor, fnv, hex, mix, run_sharded, short_loc, show_bytes};

const MON: &str = "codec_roundtrip";

fn input_sig(addr: u16, ty: u8, data: &[u8]) -> String {
    format!("{:04X}:{:02X}:{}", addr, ty, hex(data))
}

fn detail(addr: u16, ty: u8, data: &[u8], expected: String, observed: String) -> J {
    J::obj(vec![
        ("workload", J::s("frame")),
        ("address", J::u(addr)),
        ("type", J::u(ty)),
        ("data", J::hex(data)),
        ("expected", J::s(expected)),
        ("observed", J::s(observed)),
    ])
}

/// The oracle for one frame. Every observable of the codec is compared with the reference codec.
pub fn check_frame(addr: u16, ty: u8, data: &[u8], rep: &mut Report) {
    let sig = input_sig(addr, ty, data);
    let want = refs::enc(addr, ty, data);
    let want_nl = refs::enc_crlf(addr, ty, data);
    let nontrivial = !data.is_empty() || addr != 0 || ty != 0;
    rep.case(nontrivial.then(|| mix(fnv(data), (u64::from(addr) << 8) | u64::from(ty))));
    if addr >= 0x8000 {
        rep.count("frames_addr_ge_8000");
    }
    if data.len() == 255 {
        rep.count("frames_len_255");
    }
    if want.ends_with(b"00") {
        rep.count("frames_checksum_00");
    }
    rep.seen("data_lengths", data.len() as u64);
    rep.seen("types", u64::from(ty));

    let r = catch(|| {
        let mut bad: Vec<(&'static str, String, String)> = vec![];
        // owned buffers come exactly sized or reserved far larger than what they hold: capacity is not part of a frame
        let cap = match (u64::from(addr) ^ u64::from(ty) ^ data.len() as u64) % 4 {
            0 | 1 => data.len(),
            2 => 2 * data.len() + 17,
            _ => 600,
        };
        let mut buf = Vec::with_capacity(cap.max(data.len()));
        buf.extend_from_slice(data);
        let owned = Frame::new(Address(addr), MsgType(ty), Data::try_new(buf).expect("<=255 accepted"));
        // borrowed data lies anywhere in the caller's memory: the slice starts 0..7 bytes past an 8-aligned address
        let lead = ((u64::from(addr) >> 3) ^ u64::from(ty) ^ (data.len() as u64 >> 1)) as usize % 8;
        let mut room = vec![0xEEu64; data.len() / 8 + 3];
        let room_bytes: &mut [u8] = unsafe { std::slice::from_raw_parts_mut(room.as_mut_ptr().cast::<u8>(), room.len() * 8) };
        room_bytes[lead..lead + data.len()].copy_from_slice(data);
        let placed: &[u8] = &room_bytes[lead..lead + data.len()];
        let borrowed = Frame::new(Address(addr), MsgType(ty), Data::try_new(placed).expect("<=255 accepted"));
        if owned != borrowed {
            bad.push(("owned_ne_borrowed", "equal frames".into(), "owned != borrowed".into()));
        }
        // "decodes to an equal frame" only means something if equality itself is the equality of the three fields:
        // copies are equal and hash alike, and a frame that differs in any one field is a different frame
        if data.len() <= 20 || (u32::from(addr) + u32::from(ty) + data.len() as u32) % 8 == 0 {
            use std::hash::{Hash, Hasher};
            let h = |f: &Frame<'_>| {
                let mut x = std::collections::hash_map::DefaultHasher::new();
                f.hash(&mut x);
                x.finish()
            };
            let copy = owned.clone();
            let copy_b = borrowed.clone();
            if copy != owned || copy_b != borrowed || copy_b != owned || h(&copy) != h(&owned) || h(&borrowed) != h(&owned) {
                bad.push(("clone_or_hash_differs", "clones equal, equal hashes".into(), format!("clone {:?}", copy)));
            }
            let mut longer = data.to_vec();
            let mut changed = data.to_vec();
            let mut variants: Vec<Frame<'_>> = vec![
                Frame::new(Address(addr.wrapping_add(1)), MsgType(ty), Data::try_new(data).expect("<=255")),
                Frame::new(Address(addr ^ 0x8000), MsgType(ty), Data::try_new(data).expect("<=255")),
                Frame::new(Address(addr ^ 0x0100), MsgType(ty), Data::try_new(data).expect("<=255")),
                Frame::new(Address(addr), MsgType(ty.wrapping_add(1)), Data::try_new(data).expect("<=255")),
                Frame::new(Address(addr), MsgType(ty ^ 0x80), Data::try_new(data).expect("<=255")),
            ];
            if longer.len() < 255 {
                longer.push(0);
                variants.push(Frame::new(Address(addr), MsgType(ty), Data::try_new(longer).expect("<=255")));
            }
            if !changed.is_empty() {
                let k = changed.len() - 1;
                changed[k] ^= 1;
                variants.push(Frame::new(Address(addr), MsgType(ty), Data::try_new(changed.clone()).expect("<=255")));
                changed[k] ^= 1;
                changed[0] ^= 0x80;
                variants.push(Frame::new(Address(addr), MsgType(ty), Data::try_new(changed).expect("<=255")));
                variants.push(Frame::new(Address(addr), MsgType(ty), Data::try_new(&data[..data.len() - 1]).expect("<=255")));
            }
            for v in &variants {
                if *v == owned || owned == *v || *v == borrowed {
                    bad.push(("different_frames_compare_equal", format!("{:?} != {}", v, sig), "equal".into()));
                }
            }
        }
        for (label, f) in [("owned", &owned), ("borrowed", &borrowed)] {
            let got = f.to_bytes();
            if got != want {
                bad.push(("to_bytes", show_bytes(&want), format!("{} ({})", show_bytes(&got), label)));
            }
            if refs::pair_sum(&got) != Some(0) {
                bad.push(("byte_sum", "0".into(), format!("{:?} ({})", refs::pair_sum(&got), label)));
            }
            let got_nl = f.to_bytes_with_newline();
            if got_nl != want_nl {
                bad.push(("to_bytes_with_newline", show_bytes(&want_nl), format!("{} ({})", show_bytes(&got_nl), label)));
            }
            if f.address() != Address(addr) || f.message_type() != MsgType(ty) || f.data().as_ref() != data {
                bad.push(("accessors", sig.clone(), format!("{:?}", f)));
            }
            let taken = f.clone().into_data();
            if taken.get().as_ref() != data {
                bad.push(("accessors", sig.clone(), format!("into_data gives {:?} ({})", taken, label)));
            }
        }
        // frames with the same address, type, length AND checksum but other data (the data reversed; one byte up and its
        // neighbour down) are encoded right after this one, and this one again after them: each line carries its own data
        if data.len() >= 2 && (data.len() <= 24 || (u32::from(addr) ^ u32::from(ty)) % 16 == 5) {
            let rev: Vec<u8> = data.iter().rev().copied().collect();
            let mut shifted = data.to_vec();
            shifted[0] = shifted[0].wrapping_add(1);
            shifted[1] = shifted[1].wrapping_sub(1);
            let _ = owned.to_bytes_with_newline();
            for twin in [rev, shifted] {
                let t = Frame::new(Address(addr), MsgType(ty), Data::try_new(twin.clone()).expect("<=255"));
                let got = t.to_bytes_with_newline();
                let mut sink: Vec<u8> = vec![];
                let wrote = t.write(&mut sink).is_ok();
                if got != refs::enc_crlf(addr, ty, &twin) || !wrote || sink != got {
                    bad.push(("equal_sum_twin_encoded_wrongly", show_bytes(&refs::enc_crlf(addr, ty, &twin)), format!("{} / written {}", show_bytes(&got), show_bytes(&sink))));
                }
                let again = owned.to_bytes_with_newline();
                if again != want_nl {
                    bad.push(("equal_sum_twin_encoded_wrongly", show_bytes(&want_nl), format!("{} (the frame itself, after its twin)", show_bytes(&again))));
                }
            }
        }
        // a frame that has been encoded is refilled from another (clone_from) and encoded again: it is the other frame now
        if data.len() <= 24 || (u32::from(addr) ^ u32::from(ty)) % 16 == 3 {
            let mut target = Frame::new(Address(addr ^ 0x0101), MsgType(ty.wrapping_add(7)), Data::try_new(vec![0x5A; (data.len() + 3) % 256]).expect("<=255"));
            let _ = target.to_bytes_with_newline();
            target.clone_from(&owned);
            let mut target_b = Frame::new(Address(addr), MsgType(ty), Data::try_new(&[1u8, 2, 3][..]).expect("3"));
            let _ = target_b.to_bytes();
            target_b.clone_from(&borrowed);
            for (label, t) in [("clone_from an owned frame", &target), ("clone_from a borrowed frame", &target_b)] {
                let got = t.to_bytes_with_newline();
                if got != want_nl || *t != owned || t.to_bytes() != want {
                    bad.push(("refilled_frame_differs", show_bytes(&want_nl), format!("{} ({})", show_bytes(&got), label)));
                }
            }
        }
        // Decode what the *reference* encoder produced and what the library produced (identical if the
        // checks above passed) — both terminator variants.
        for (label, wire) in [("plain", &want), ("crlf", &want_nl)] {
            match Frame::from_bytes(wire) {
                Ok(f) => {
                    if f != owned || f.address().0 != addr || f.message_type().0 != ty || f.data().as_ref() != data {
                        bad.push(("decode_differs", sig.clone(), format!("{:?} ({})", f, label)));
                    }
                    if f.clone().into_data().get().as_ref() != data {
                        bad.push(("decode_differs", sig.clone(), format!("into_data of the decoded frame gives {:?} ({})", f.clone().into_data(), label)));
                    }
                    // a DECODED frame of a few bytes less / more / none is refilled from this one (clone_from): it is this frame now
                    if data.len() <= 40 || (u32::from(addr) ^ u32::from(ty)) % 16 == 7 {
                        for other_len in [0usize, data.len().saturating_sub(1), data.len().saturating_sub(2), data.len().saturating_sub(3), data.len() / 2, (data.len() + 1).min(255), (data.len() + 2).min(255), (data.len() + 5).min(255)] {
                            let other: Vec<u8> = (0..other_len).map(|i| data.get(i).copied().unwrap_or(0xC3) ^ 0x11).collect();
                            for src in [&f, &owned] {
                                let mut t = Frame::from_bytes(&refs::enc_crlf(addr ^ 0x0100, ty ^ 1, &other)).expect("the reference encoder's line");
                                t.clone_from(src);
                                if t != owned || t.to_bytes() != want || t.data().as_ref() != data {
                                    bad.push(("refilled_frame_differs", show_bytes(&want), format!("{} (a decoded frame of {} data bytes refilled with clone_from, {})", show_bytes(&t.to_bytes()), other_len, label)));
                                }
                                // .. and the other way round: this decoded frame becomes the other one
                                let o = Frame::new(Address(addr ^ 0x0100), MsgType(ty ^ 1), Data::try_new(other.clone()).expect("<=255"));
                                let mut back = f.clone();
                                back.clone_from(&o);
                                if back != o || back.to_bytes() != refs::enc(addr ^ 0x0100, ty ^ 1, &other) {
                                    bad.push(("refilled_frame_differs", show_bytes(&refs::enc(addr ^ 0x0100, ty ^ 1, &other)), format!("{} (this decoded frame refilled from one of {} data bytes, {})", show_bytes(&back.to_bytes()), other_len, label)));
                                }
                            }
                        }
                    }
                    // equal frames hash alike, wherever they came from (a set of frames must not hold one frame twice)
                    use std::hash::{Hash, Hasher};
                    let h = |x: &Frame<'_>| {
                        let mut s = std::collections::hash_map::DefaultHasher::new();
                        x.hash(&mut s);
                        s.finish()
                    };
                    if h(&f) != h(&owned) || h(&f) != h(&borrowed) || owned != f || borrowed != f {
                        bad.push(("decoded_frame_hashes_differently", sig.clone(), format!("hash / symmetric equality of the decoded frame ({})", label)));
                    }
                }
                Err(e) => bad.push(("decode_rejected", "Ok(frame)".into(), format!("{:?} ({})", e, label))),
            }
        }
        bad
    });
    match r {
        Ok(bad) => {
            for (class, exp, obs) in bad {
                rep.violation(MON, class, &sig, format!("frame {}: {} expected {} observed {}", sig, class, exp, obs), detail(addr, ty, data, exp, obs));
            }
        }
        Err(p) => rep.violation(
            MON,
            "panic",
            &sig,
            format!("frame {}: panic {} at {}", sig, p.msg, short_loc(&p.loc)),
            detail(addr, ty, data, "no panic".into(), format!("{} at {}", p.msg, p.loc)),
        ),
    }
    if rep.wants_sample() && data.len() > 2 && data.len() < 12 {
        rep.sample(|| J::obj(vec![("frame", J::s(sig.clone())), ("wire", J::s(show_bytes(&want_nl)))]));
    }
}

/// `Data::try_new(n bytes)` is Ok iff n <= 255, and the error reports max = 255 and the real length.
fn check_try_new(n: usize, rep: &mut Report) {
    // large blocks are zero-filled (the allocator hands out untouched zero pages, so even 4 GiB costs next to nothing)
    let v = if n >= 1 << 20 { vec![0u8; n] } else { vec![0xA5u8; n] };
    rep.case(Some(mix(0x7777, n as u64)));
    rep.seen("try_new_lengths", n as u64);
    let sig = format!("try_new:{}", n);
    let r = catch(|| {
        let mut bad = vec![];
        let owned = if n >= 1 << 20 { vec![0u8; n] } else { v.clone() };
        let results = [("vec", Data::try_new(owned)), ("slice", Data::try_new(&v[..]))];
        for (label, r) in results {
            match r {
                Ok(d) => {
                    if n > 255 {
                        bad.push(("try_new_accepts_long", format!("accepted {} bytes ({})", n, label)));
                    } else if d.get().as_ref() != &v[..] {
                        bad.push(("try_new_content", format!("content differs ({})", label)));
                    }
                }
                Err(FrameError::DataTooLong { max, actual }) => {
                    if n <= 255 {
                        bad.push(("try_new_rejects_short", format!("rejected {} bytes ({})", n, label)));
                    } else if max != 255 || actual != n {
                        bad.push(("try_new_error_fields", format!("max={} actual={} for {} bytes ({})", max, actual, n, label)));
                    }
                }
                Err(e) => bad.push(("try_new_error_kind", format!("{:?} ({})", e, label))),
            }
        }
        bad
    });
    let d = |obs: String| J::obj(vec![("workload", J::s("try_new")), ("length", J::us(n)), ("observed", J::s(obs))]);
    match r {
        Ok(bad) => {
            for (class, obs) in bad {
                if class == "try_new_accepts_long" {
                    rep.count("long_data_accepted");
                }
                rep.violation(MON, class, &sig, format!("Data::try_new: {}", obs), d(obs));
            }
        }
        Err(p) => rep.violation(MON, "panic", &sig, format!("Data::try_new({} bytes) panicked: {}", n, p.msg), d(p.msg)),
    }
    if n > 255 {
        rep.count("try_new_over_255_tried");
    }
}

// ------------------------------------------------------------------------------------------------
// Other ways into `Data`: `Data::from(&'static [u8; N])`. On the pinned tree the conversion exists for N = 0..=4 only. The
// probe below uses method-resolution order ("autoref specialisation") so that it compiles whether or not a conversion
// exists for a given N: if one does, what it yields must obey the same 255-byte limit as `try_new`.

struct Probe<T>(T);

trait ViaFrom {
    fn build(&self) -> Option<Result<usize, String>>;
}

impl<T: Copy> ViaFrom for Probe<T>
where
    Data<'static>: From<T>,
{
    fn build(&self) -> Option<Result<usize, String>> {
        let value = self.0;
        Some(catch(move || Data::from(value).get().len()).map_err(|p| p.msg))
    }
}

trait NoFrom {
    fn build(&self) -> Option<Result<usize, String>>;
}

impl<T> NoFrom for &Probe<T> {
    fn build(&self) -> Option<Result<usize, String>> {
        None
    }
}

static BLOCK_4: [u8; 4] = [0x5A; 4];
static BLOCK_5: [u8; 5] = [0x5A; 5];
static BLOCK_255: [u8; 255] = [0x5A; 255];
static BLOCK_256: [u8; 256] = [0x5A; 256];

fn check_array_conversions(rep: &mut Report) {
    let probes: [(usize, Option<Result<usize, String>>); 4] = [(4, (&Probe(&BLOCK_4)).build()), (5, (&Probe(&BLOCK_5)).build()), (255, (&Probe(&BLOCK_255)).build()), (256, (&Probe(&BLOCK_256)).build())];
    for (n, r) in probes {
        rep.case(Some(mix(0xA77A, n as u64)));
        rep.count("array_conversions_probed");
        match r {
            None => rep.count("array_conversions_absent"),
            Some(Err(_)) => rep.count("array_conversions_refused_by_panic"),
            Some(Ok(held)) => {
                rep.count("array_conversions_present");
                if n > 255 || held != n {
                    rep.violation(MON, "long_data_accepted_through_from", &format!("from-array-{}", n), format!("Data::from(&'static [u8; {}]) yields a Data holding {} bytes: a block longer than 255 bytes can be placed in a frame", n, held), J::obj(vec![("workload", J::s("Data::from(&[u8; N])")), ("n", J::us(n)), ("held", J::us(held))]));
                }
            }
        }
    }
}

// ------------------------------------------------------------------------------------------------
// Frames encoded and decoded while the thread is shutting down: an application that keeps its connection in a thread-local
// and says goodbye from its destructor. Whichever of the application's and the library's own per-thread data (if it has
// any) was created first, the farewell frame must encode and decode as ever.

static FAREWELL: [std::sync::atomic::AtomicU8; 2] = [std::sync::atomic::AtomicU8::new(0), std::sync::atomic::AtomicU8::new(0)];

struct Farewell(usize);

impl Drop for Farewell {
    fn drop(&mut self) {
        let ok = std::panic::catch_unwind(|| {
            let f = Frame::new(Address(0x007F), MsgType(2), Data::try_new(vec![0x55]).expect("1 byte"));
            let w = f.to_bytes_with_newline();
            w == refs::enc_crlf(0x007F, 2, &[0x55]) && matches!(Frame::from_bytes(&w), Ok(g) if g == f)
        })
        .unwrap_or(false);
        FAREWELL[self.0].store(if ok { 1 } else { 2 }, std::sync::atomic::Ordering::SeqCst);
    }
}

thread_local! {
    static CONNECTION: std::cell::RefCell<Option<Farewell>> = const { std::cell::RefCell::new(None) };
}

fn check_frames_at_thread_exit(rep: &mut Report) {
    for order in 0..2usize {
        let t = std::thread::spawn(move || {
            let traffic = || {
                let f = Frame::new(Address(3), MsgType(2), Data::try_new(vec![0xFF]).expect("1 byte"));
                let _ = Frame::from_bytes(&f.to_bytes());
            };
            if order == 0 {
                CONNECTION.with(|c| *c.borrow_mut() = Some(Farewell(order))); // connection first, traffic afterwards
                traffic();
            } else {
                traffic();
                CONNECTION.with(|c| *c.borrow_mut() = Some(Farewell(order)));
            }
        });
        let joined = t.join().is_ok();
        let r = FAREWELL[order].load(std::sync::atomic::Ordering::SeqCst);
        rep.case(Some(mix(0xFA2E, order as u64)));
        rep.count("frames_encoded_at_thread_exit");
        if !joined || r != 1 {
            rep.violation(MON, "frame_codec_fails_at_thread_exit", &format!("thread-exit-{}", order), format!("a frame encoded and decoded from a thread-local destructor at thread exit ({}): {}", if order == 0 { "the application's thread-local was created before the thread's first frame" } else { "the thread's first frame came before the application's thread-local" }, match r { 0 => "the destructor did not run", 2 => "encoding / decoding panicked or gave a wrong result", _ => "the thread itself panicked" }), J::obj(vec![("workload", J::s("thread exit")), ("order", J::us(order))]));
        }
    }
}

fn fills(len: usize, rng: &mut util::Rng) -> Vec<Vec<u8>> {
    let mut v = vec![vec![0u8; len], vec![0xFFu8; len], (0..len).map(|i| i as u8).collect::<Vec<u8>>()];
    for _ in 0..4 {
        v.push(rng.bytes(len));
    }
    v
}

pub fn run(ctx: &Ctx) -> Outcome {
    // Sweep 1: all 65 536 addresses x 3 types x 3 data lengths          (sharded by address high byte)
    // Sweep 2: all 256 types x 8 addresses x 3 data shapes
    // Sweep 3: every data length 0..=255 x 7 fills
    // Sweep 4: all 256 values of one data byte at first / last position of several lengths
    // Sweep 5: try_new for every length 0..=300, 1000, 70000
    // Random : q 2e5, t 2e7 frames
    let n_random = ctx.size(4_000_000, 150_000_000);
    let random_shards = 64usize;
    let shards = 256 + 1 + 1 + 1 + 1 + random_shards;
    let mut report = run_sharded(ctx, shards, |shard, rep| {
        if shard < 256 {
            let hi = shard as u16;
            for lo in 0..256u16 {
                let addr = (hi << 8) | lo;
                for ty in [0x00u8, 0x04, 0xFF] {
                    check_frame(addr, ty, &[], rep);
                    check_frame(addr, ty, &[lo as u8], rep);
                    check_frame(addr, ty, &[hi as u8, 0x00, 0xFF, lo as u8 ^ 0x5A], rep);
                }
            }
            rep.add("sweep_addresses", 256);
        } else if shard == 256 {
            for ty in 0..=255u8 {
                for addr in [0u16, 1, 0x00FF, 0x0100, 0x7FFF, 0x8000, 0xABCD, 0xFFFF] {
                    check_frame(addr, ty, &[], rep);
                    check_frame(addr, ty, &[ty], rep);
                    check_frame(addr, ty, &[0x10, ty, 0xEF], rep);
                }
            }
            rep.add("sweep_types", 256);
        } else if shard == 257 {
            let mut rng = ctx.rng("fills", 0);
            for len in 0..=255usize {
                for f in fills(len, &mut rng) {
                    check_frame(rng.edgy_u16(), rng.edgy_u8(), &f, rep);
                }
            }
            // the frames whose byte sum is as large as it gets (a checksum accumulator narrower than it should be, or a
            // saturating one, first goes wrong here): long runs of FF under FF-ish headers
            for len in 248..=255usize {
                for addr in [0xFFFFu16, 0xFFFE, 0xFF00, 0x00FF, 0x0000] {
                    for ty in [0xFFu8, 0xFE, 0x00] {
                        for last in [0xFFu8, 0xFE, 0xFD, 0x00] {
                            let mut d = vec![0xFFu8; len];
                            d[len - 1] = last;
                            check_frame(addr, ty, &d, rep);
                            rep.count("largest_byte_sums");
                        }
                    }
                }
                // ... and the extremes under a SIGNED reading of the bytes: runs of 0x80 (-128) and of 0x7F (+127)
                for (fill, addrs, tys) in [(0x80u8, [0x8080u16, 0x8001, 0x8000, 0x0080, 0x0000], [0x80u8, 0x81, 0x00]), (0x7F, [0x7F7F, 0x7F7E, 0x7F00, 0x007F, 0x0000], [0x7F, 0x7E, 0x00])] {
                    for addr in addrs {
                        for ty in tys {
                            for last in [fill, fill.wrapping_add(1), fill.wrapping_sub(1), 0x00] {
                                let mut d = vec![fill; len];
                                d[len - 1] = last;
                                check_frame(addr, ty, &d, rep);
                                rep.count("largest_byte_sums");
                            }
                        }
                    }
                }
            }
            rep.add("sweep_lengths", 256);
        } else if shard == 258 {
            for len in [1usize, 2, 16, 255] {
                for pos in [0, len - 1] {
                    for v in 0..=255u8 {
                        let mut d = vec![0x33u8; len];
                        d[pos] = v;
                        check_frame(0x1234, 0x00, &d, rep);
                    }
                }
            }
            // array-literal conversions used throughout the library
            let arr: [(Data<'static>, &[u8]); 5] = [
                (Data::from(&[]), &[]),
                (Data::from(&[0xFF]), &[0xFF]),
                (Data::from(&[1, 2]), &[1, 2]),
                (Data::from(&[1, 2, 3]), &[1, 2, 3]),
                (Data::from(&[1, 2, 3, 4]), &[1, 2, 3, 4]),
            ];
            for (d, want) in arr {
                rep.case(None);
                if d.get().as_ref() != want {
                    rep.violation(MON, "array_from", &hex(want), format!("Data::from(&{:?}) holds {:?}", want, d.get()), J::Null);
                }
            }
            rep.add("sweep_byte_values", 256);
        } else if shard == 259 {
            for n in (0..=300usize).chain([1000, 70_000]) {
                check_try_new(n, rep);
            }
            check_array_conversions(rep);
            check_frames_at_thread_exit(rep);
            // lines that carry MORE than 255 data pairs, whatever their length field says (FF, the count modulo 256, 00) and
            // with a checksum that makes the byte sum come out: no frame holds more than 255 bytes, so none of them decodes
            for n in [256usize, 257, 300, 511, 512, 767, 1024] {
                for declared in [0xFFu8, (n % 256) as u8, 0x00, 0x01] {
                    for fill in [0xFFu8, 0x00, 0x5A] {
                        let mut fields = vec![declared, 0x12, 0x34, 0x00];
                        fields.extend(std::iter::repeat(fill).take(n));
                        let sum = fields.iter().fold(0u8, |a, b| a.wrapping_add(*b));
                        fields.push(sum.wrapping_neg());
                        let mut line = vec![b':'];
                        line.extend(crate::util::hex(&fields).to_ascii_uppercase().into_bytes());
                        for crlf in [false, true] {
                            let mut l = line.clone();
                            if crlf {
                                l.extend_from_slice(b"\r\n");
                            }
                            rep.case(Some(fnv(&l)));
                            rep.count("lines_with_more_than_255_data_pairs");
                            let r = catch(|| Frame::from_bytes(&l).map(|f| f.data().len()).map_err(|e| e.to_string()));
                            let what = match r {
                                Ok(Err(_)) => None,
                                Ok(Ok(len)) => Some(format!("decoded to a frame of {} data bytes", len)),
                                Err(p) => Some(format!("panic {} at {}", p.msg, short_loc(&p.loc))),
                            };
                            if let Some(w) = what {
                                rep.violation(MON, "overlong_line_decodes", &format!("overlong|{}|{:02X}|{:02X}|{}", n, declared, fill, crlf), format!("a line of {} data pairs (length field {:02X}, fill {:02X}, byte sum 0): {}", n, declared, fill, w), J::obj(vec![("workload", J::s("overlong lines")), ("pairs", J::us(n)), ("declared", J::u(declared)), ("observed", J::s(w.clone()))]));
                            }
                        }
                    }
                }
            }
            for (a, t, d) in refs::coincidence_frames() {
                check_frame(a, t, &d, rep);
                rep.count("coincidence_frames");
            }
            // lengths around every multiple of 2^8 / 2^16 / 2^24 (and, thorough tier, 2^32): a length that is compared
            // after being narrowed passes exactly there
            let mut wraps: Vec<usize> = vec![];
            let powers: &[u32] = if ctx.quick() { &[8, 16, 24] } else { &[8, 16, 24, 32] };
            for p in powers {
                for m in 1..=3usize {
                    if *p == 32 && m > 1 {
                        continue;
                    }
                    let base = m << p;
                    wraps.extend([base - 1, base, base + 1, base + 17, base + 255, base + 256]);
                }
            }
            for n in wraps {
                if n > 300 {
                    check_try_new(n, rep);
                    rep.count("try_new_wrap_lengths_tried");
                }
            }
            rep.add("sweep_try_new", 1);
        } else {
            let idx = (shard - 260) as u64;
            let mut rng = ctx.rng("random", idx);
            let n = n_random / random_shards as u64;
            for _ in 0..n {
                let len = match rng.below(10) {
                    0 => 0,
                    1 => 255,
                    2 => 16,
                    3 => rng.usize(4),
                    _ => rng.usize(256),
                };
                let data = match rng.below(6) {
                    0 => vec![0u8; len],
                    1 => vec![0xFFu8; len],
                    _ => rng.bytes(len),
                };
                check_frame(rng.edgy_u16(), rng.edgy_u8(), &data, rep);
            }
            rep.add("random_frames", n);
        }
    });
    {
        // the same calls from a thread-local destructor while a thread exits (see exitprobe.rs)
        let mut at_exit = Report::new();
        crate::exitprobe::check("codec", MON, &mut at_exit);
        crate::exitprobe::check_migration("codec", MON, &mut at_exit);
        report.merge(at_exit);
    }

    let floors = vec![
        floor("all 65536 addresses swept", report.get("sweep_addresses") == 65_536, report.get("sweep_addresses")),
        floor("all 256 types swept", report.get("sweep_types") == 256 && report.set_len("types") == 256, report.set_len("types")),
        floor("all data lengths 0..=255 swept", report.set_len("data_lengths") == 256, report.set_len("data_lengths")),
        floor("single-byte value sweep ran", report.get("sweep_byte_values") == 256, report.get("sweep_byte_values")),
        floor("frames with the largest possible byte sums", report.get("largest_byte_sums") == 480 * 3, report.get("largest_byte_sums")),
        floor("Data::from(&[u8; N]) probed for N = 4, 5, 255, 256 (present for 4 on the pinned API)", report.get("array_conversions_probed") == 4 && report.get("array_conversions_present") >= 1, report.get("array_conversions_present")),
        floor("frames encoded from a thread-local destructor at thread exit (both creation orders)", report.get("frames_encoded_at_thread_exit") == 2, report.get("frames_encoded_at_thread_exit")),
        floor("frames whose fields coincide (all fields one value, for every value; checksum equal to another field or to a syntax byte)", report.get("coincidence_frames") == 2240, report.get("coincidence_frames")),
        floor("lines of 256 .. 1024 data pairs with a consistent checksum under every plausible length field: none decodes", report.get("lines_with_more_than_255_data_pairs") == 7 * 4 * 3 * 2, report.get("lines_with_more_than_255_data_pairs")),
        floor("try_new lengths incl. > 255", report.get("try_new_over_255_tried") >= 47, report.get("try_new_over_255_tried")),
        floor("try_new lengths around the multiples of 2^8, 2^16, 2^24 (thorough: 2^32)", report.get("try_new_wrap_lengths_tried") >= 40, report.get("try_new_wrap_lengths_tried")),
        floor("frame with address >= 0x8000", report.get("frames_addr_ge_8000") > 0, report.get("frames_addr_ge_8000")),
        floor("frame with 255 data bytes", report.get("frames_len_255") > 0, report.get("frames_len_255")),
        floor("frame with checksum 00", report.get("frames_checksum_00") > 0, report.get("frames_checksum_00")),
    ];
    Outcome {
        report,
        level: "exploration",
        rule: "frames from exhaustive sweeps (all addresses x 3 types x 3 lengths; all types x 8 addresses; all lengths x 7 fills; all byte values at first/last position) plus seeded random frames; distinct by (address,type,data) hash; non-trivial = not the all-zero empty frame; Data::try_new lengths counted too".into(),
        exhaustive: false,
        floors,
        assumptions: vec![
            "oracle: hand-written Intel-HEX encoder/decoder in harness/src/refs.rs sharing no code with the library".into(),
            "checked build profile (overflow-checks, debug-assertions on); every case under catch_unwind".into(),
        ],
        extra: vec![],
    }
}

pub fn replay(d: &J, rep: &mut Report) -> bool {
    match d.get("workload").and_then(|w| w.as_str()) {
        Some("frame") => {
            let (Some(a), Some(t), Some(data)) = (
                d.get("address").and_then(|x| x.as_u64()),
                d.get("type").and_then(|x| x.as_u64()),
                d.get("data").and_then(|x| x.as_str()).and_then(util::unhex),
            ) else {
                return false;
            };
            check_frame(a as u16, t as u8, &data, rep);
            true
        }
        Some("try_new") => {
            let Some(n) = d.get("length").and_then(|x| x.as_u64()) else { return false };
            check_try_new(n as usize, rep);
            true
        }
        _ => false,
    }
}
