//! 3.5 Controller reference machine (Appendix C of DESIGN.md): a flat state machine over protocol positions,
//! written from the documentation of `Sign`. Shares no code with src/sign.rs.

use crate::refs::*;

#[derive(Clone, Debug, PartialEq, Eq, Hash)]
pub enum Op {
    Configure,
    ConfigureIfNeeded,
    SendPages,
    Show,
    LoadNext,
    ShutDown,
}

impl Op {
    pub fn name(&self) -> &'static str {
        match self {
            Op::Configure => "configure",
            Op::ConfigureIfNeeded => "configure_if_needed",
            Op::SendPages => "send_pages",
            Op::Show => "show_loaded_page",
            Op::LoadNext => "load_next_page",
            Op::ShutDown => "shut_down",
        }
    }
}

/// What the bus answered to one message.
#[derive(Clone, Debug, PartialEq, Eq, Hash)]
pub enum Reply {
    Msg(Option<RefMsg>),
    BusError,
}

impl Reply {
    pub fn show(&self) -> String {
        match self {
            Reply::Msg(m) => show_opt(m),
            Reply::BusError => "!bus-error".to_string(),
        }
    }
}

#[derive(Clone, Debug, PartialEq, Eq, Hash)]
pub enum Outcome {
    Ok,
    OkStyle { automatic: bool },
    Protocol,
    Bus,
}

impl Outcome {
    pub fn class(&self) -> &'static str {
        match self {
            Outcome::Ok | Outcome::OkStyle { .. } => "ok",
            Outcome::Protocol => "protocol_error",
            Outcome::Bus => "bus_error",
        }
    }
}

#[derive(Clone, Debug, PartialEq, Eq)]
pub enum Step {
    Emit(RefMsg),
    Done(Outcome),
}

#[derive(Clone, Copy, Debug, PartialEq, Eq)]
enum Pos {
    Start,
    CinHello,
    ResetHello1,
    ResetStartAck,
    ResetHello2,
    ResetFinishAck,
    ResetHello3,
    XferAck,
    XferChunk(usize),
    XferCount,
    XferResult,
    CompleteSent,
    FlipQuery,
    SwitchQuery,
    SwitchAck,
    GoodbyeSent,
    Finished,
}

pub struct RefCtl {
    addr: u16,
    op: Op,
    /// chunks of the current transfer, in order: (offset within its item, bytes)
    chunks: Vec<(u16, Vec<u8>)>,
    page_chunks: Vec<(u16, Vec<u8>)>,
    config_chunks: Vec<(u16, Vec<u8>)>,
    pos: Pos,
    attempt: u32,
    xfer_op: usize,
}

pub fn chunk_items(items: &[Vec<u8>]) -> Vec<(u16, Vec<u8>)> {
    let mut v = vec![];
    for item in items {
        let mut off = 0usize;
        while off < item.len() {
            let end = (off + 16).min(item.len());
            v.push(((off % 65_536) as u16, item[off..end].to_vec()));
            off = end;
        }
    }
    v
}

impl RefCtl {
    pub fn new(op: Op, addr: u16, config_block: &[u8], pages: &[Vec<u8>]) -> RefCtl {
        RefCtl {
            addr,
            op,
            chunks: vec![],
            page_chunks: chunk_items(pages),
            config_chunks: chunk_items(&[config_block.to_vec()]),
            pos: Pos::Start,
            attempt: 1,
            xfer_op: O_RECV_CFG,
        }
    }

    pub fn is_done(&self) -> bool {
        self.pos == Pos::Finished
    }

    /// Name of the current protocol position (for coverage matrices).
    pub fn pos_name(&self) -> &'static str {
        match self.pos {
            Pos::Start => "start",
            Pos::CinHello => "if_needed_hello",
            Pos::ResetHello1 => "reset_hello_1",
            Pos::ResetStartAck => "reset_start_ack",
            Pos::ResetHello2 => "reset_hello_2",
            Pos::ResetFinishAck => "reset_finish_ack",
            Pos::ResetHello3 => "reset_hello_3",
            Pos::XferAck => {
                if self.xfer_op == O_RECV_CFG { "config_request_ack" } else { "pixels_request_ack" }
            }
            Pos::XferChunk(_) => {
                if self.xfer_op == O_RECV_CFG { "config_chunk" } else { "pixels_chunk" }
            }
            Pos::XferCount => {
                if self.xfer_op == O_RECV_CFG { "config_count" } else { "pixels_count" }
            }
            Pos::XferResult => {
                if self.xfer_op == O_RECV_CFG { "config_result_query" } else { "pixels_result_query" }
            }
            Pos::CompleteSent => "pixels_complete",
            Pos::FlipQuery => "flip_style_query",
            Pos::SwitchQuery => "switch_query",
            Pos::SwitchAck => "switch_request_ack",
            Pos::GoodbyeSent => "goodbye",
            Pos::Finished => "finished",
        }
    }

    fn emit(&mut self, m: RefMsg, pos: Pos) -> Step {
        self.pos = pos;
        Step::Emit(m)
    }

    fn done(&mut self, o: Outcome) -> Step {
        self.pos = Pos::Finished;
        Step::Done(o)
    }

    fn hello(&mut self, pos: Pos) -> Step {
        let a = self.addr;
        self.emit(RefMsg::Hello(a), pos)
    }

    fn request(&mut self, op: usize, pos: Pos) -> Step {
        let a = self.addr;
        self.emit(RefMsg::Request(a, op), pos)
    }

    fn begin_transfer(&mut self, op: usize) -> Step {
        self.xfer_op = op;
        self.chunks = if op == O_RECV_CFG { self.config_chunks.clone() } else { self.page_chunks.clone() };
        self.attempt = 1;
        self.request(op, Pos::XferAck)
    }

    pub fn start(&mut self) -> Step {
        let a = self.addr;
        match self.op {
            Op::Configure => self.hello(Pos::ResetHello1),
            Op::ConfigureIfNeeded => self.hello(Pos::CinHello),
            Op::SendPages => self.begin_transfer(O_RECV_PIX),
            Op::Show | Op::LoadNext => self.emit(RefMsg::Query(a), Pos::SwitchQuery),
            Op::ShutDown => self.emit(RefMsg::Goodbye(a), Pos::GoodbyeSent),
        }
    }

    /// "expect X": a bus error ends with that bus error, any reply other than X with a protocol error.
    fn expect(&mut self, r: &Reply, want: Option<RefMsg>) -> Result<(), Step> {
        match r {
            Reply::BusError => Err(self.done(Outcome::Bus)),
            Reply::Msg(m) if *m == want => Ok(()),
            Reply::Msg(_) => Err(self.done(Outcome::Protocol)),
        }
    }

    pub fn on_reply(&mut self, r: &Reply) -> Step {
        let a = self.addr;
        let own_state = |r: &Reply| -> Option<usize> {
            match r {
                Reply::Msg(Some(RefMsg::Report(x, s))) if *x == a => Some(*s),
                _ => None,
            }
        };
        match self.pos {
            Pos::Start | Pos::Finished => Step::Done(Outcome::Protocol),

            Pos::CinHello => {
                if *r == Reply::BusError {
                    return self.done(Outcome::Bus);
                }
                match own_state(r) {
                    Some(S_CFG_RECV | S_SHOWING | S_LOADED | S_SHOW_PROG | S_SHOWN | S_LOAD_PROG) => self.done(Outcome::Ok),
                    _ => self.hello(Pos::ResetHello1),
                }
            }

            Pos::ResetHello1 => {
                if *r == Reply::BusError {
                    return self.done(Outcome::Bus);
                }
                match own_state(r) {
                    Some(S_UNCONF) => self.begin_transfer(O_RECV_CFG),
                    Some(S_READY_RESET) => self.request(O_FINISH_RESET, Pos::ResetFinishAck),
                    _ => self.request(O_START_RESET, Pos::ResetStartAck),
                }
            }
            Pos::ResetStartAck => match self.expect(r, Some(RefMsg::Ack(a, O_START_RESET))) {
                Ok(()) => self.hello(Pos::ResetHello2),
                Err(s) => s,
            },
            Pos::ResetHello2 => match self.expect(r, Some(RefMsg::Report(a, S_READY_RESET))) {
                Ok(()) => self.request(O_FINISH_RESET, Pos::ResetFinishAck),
                Err(s) => s,
            },
            Pos::ResetFinishAck => match self.expect(r, Some(RefMsg::Ack(a, O_FINISH_RESET))) {
                Ok(()) => self.hello(Pos::ResetHello3),
                Err(s) => s,
            },
            Pos::ResetHello3 => match self.expect(r, Some(RefMsg::Report(a, S_UNCONF))) {
                Ok(()) => self.begin_transfer(O_RECV_CFG),
                Err(s) => s,
            },

            Pos::XferAck => {
                let op = self.xfer_op;
                match self.expect(r, Some(RefMsg::Ack(a, op))) {
                    Ok(()) => self.next_chunk(0),
                    Err(s) => s,
                }
            }
            Pos::XferChunk(i) => match self.expect(r, None) {
                Ok(()) => self.next_chunk(i + 1),
                Err(s) => s,
            },
            Pos::XferCount => match self.expect(r, None) {
                Ok(()) => self.emit(RefMsg::Query(a), Pos::XferResult),
                Err(s) => s,
            },
            Pos::XferResult => {
                let (received, failed) = if self.xfer_op == O_RECV_CFG { (S_CFG_RECV, S_CFG_FAIL) } else { (S_PIX_RECV, S_PIX_FAIL) };
                if own_state(r) == Some(failed) && self.attempt < 3 {
                    self.attempt += 1;
                    let op = self.xfer_op;
                    return self.request(op, Pos::XferAck);
                }
                match self.expect(r, Some(RefMsg::Report(a, received))) {
                    Ok(()) => {
                        if self.op == Op::SendPages {
                            self.emit(RefMsg::Complete(a), Pos::CompleteSent)
                        } else {
                            self.done(Outcome::Ok)
                        }
                    }
                    Err(s) => s,
                }
            }
            Pos::CompleteSent => match self.expect(r, None) {
                Ok(()) => self.emit(RefMsg::Query(a), Pos::FlipQuery),
                Err(s) => s,
            },
            Pos::FlipQuery => {
                if *r == Reply::BusError {
                    return self.done(Outcome::Bus);
                }
                self.done(Outcome::OkStyle { automatic: own_state(r) == Some(S_SHOWING) })
            }

            Pos::SwitchQuery => {
                if *r == Reply::BusError {
                    return self.done(Outcome::Bus);
                }
                let (target, trigger, op) = if self.op == Op::Show { (S_SHOWN, S_LOADED, O_SHOW) } else { (S_LOADED, S_SHOWN, O_LOAD_NEXT) };
                match own_state(r) {
                    Some(S_SHOWING) => self.done(Outcome::Ok),
                    Some(s) if s == target => self.done(Outcome::Ok),
                    Some(s) if s == trigger => self.request(op, Pos::SwitchAck),
                    Some(S_LOAD_PROG | S_SHOW_PROG) => self.emit(RefMsg::Query(a), Pos::SwitchQuery),
                    _ => self.done(Outcome::Protocol),
                }
            }
            Pos::SwitchAck => {
                let op = if self.op == Op::Show { O_SHOW } else { O_LOAD_NEXT };
                match self.expect(r, Some(RefMsg::Ack(a, op))) {
                    Ok(()) => self.emit(RefMsg::Query(a), Pos::SwitchQuery),
                    Err(s) => s,
                }
            }

            Pos::GoodbyeSent => match self.expect(r, None) {
                Ok(()) => self.done(Outcome::Ok),
                Err(s) => s,
            },
        }
    }

    fn next_chunk(&mut self, i: usize) -> Step {
        if i < self.chunks.len() {
            let (off, data) = self.chunks[i].clone();
            self.emit(RefMsg::Data { offset: off, data }, Pos::XferChunk(i))
        } else {
            let n = (self.chunks.len() % 65_536) as u16;
            self.emit(RefMsg::Count(n), Pos::XferCount)
        }
    }
}
