//! 3.6 Instrumented doubles at the boundaries the library exposes: io::Read / io::Write, SerialDevice, SignBus.

use std::cell::RefCell;
use std::collections::VecDeque;
use std::io::{self, Read, Write};
use std::rc::Rc;
use std::time::{Duration, Instant};

use flipdot_core::{Message, SignBus};
use serial_core::{BaudRate, CharSize, FlowControl, Parity, PortSettings, SerialDevice, SerialPortSettings, StopBits};

use crate::refs::{self, RefMsg};

// ------------------------------------------------------------------------------------------------
// Scripted reader / writer

/// Every kind of hard I/O failure a port can report (everything but Interrupted, which means "try again").
/// The error a scripted stream / sink / port fails with. For four of the kinds the error CARRIES another error — what a
/// reader or writer that is itself built on this library (a tunnel, a bridge, a recording wrapper) hands up: a `FrameError`
/// of its own (a parse error, or an i/o error of its own), or another `io::Error`. To the caller it is an i/o failure of
/// the outer kind like any other; the payload is the stream's business and must come through untouched.
pub fn fault_error(kind: io::ErrorKind, text: &'static str) -> io::Error {
    use flipdot_core::FrameError;
    match kind {
        io::ErrorKind::InvalidData => io::Error::new(kind, FrameError::BadChecksum { data: b":zz".to_vec(), expected: 0x00, actual: 0xFE }),
        io::ErrorKind::InvalidInput => io::Error::new(kind, FrameError::FrameDataMismatch { data: b":0000000000".to_vec(), expected: 2, actual: 1 }),
        io::ErrorKind::NotFound => io::Error::new(kind, FrameError::from(io::Error::new(io::ErrorKind::TimedOut, "the tunnel's own port timed out"))),
        io::ErrorKind::Unsupported => io::Error::new(kind, io::Error::new(io::ErrorKind::Interrupted, "an interrupted call inside the stream")),
        // ... and two whose payload is an error that was ITSELF caused by an interrupted call (two levels down the source
        // chain): the failure is a broken pipe / a reset, not something to retry
        io::ErrorKind::BrokenPipe => io::Error::new(kind, FrameError::from(io::Error::new(io::ErrorKind::Interrupted, "the tunnel's own call was interrupted"))),
        io::ErrorKind::ConnectionReset => io::Error::new(kind, WrappedIoBusError(io::Error::new(io::ErrorKind::Interrupted, "interrupted, two levels down"))),
        _ => io::Error::new(kind, text),
    }
}

/// Is the payload `fault_error` put into an error of this kind still there?
pub fn payload_intact(e: &io::Error) -> bool {
    use flipdot_core::FrameError;
    let inner = e.get_ref();
    match e.kind() {
        io::ErrorKind::InvalidData => matches!(inner.and_then(|x| x.downcast_ref::<FrameError>()), Some(FrameError::BadChecksum { expected: 0x00, actual: 0xFE, .. })),
        io::ErrorKind::InvalidInput => matches!(inner.and_then(|x| x.downcast_ref::<FrameError>()), Some(FrameError::FrameDataMismatch { expected: 2, actual: 1, .. })),
        io::ErrorKind::NotFound => matches!(inner.and_then(|x| x.downcast_ref::<FrameError>()), Some(FrameError::Io { source }) if source.kind() == io::ErrorKind::TimedOut),
        io::ErrorKind::Unsupported => matches!(inner.and_then(|x| x.downcast_ref::<io::Error>()), Some(x) if x.kind() == io::ErrorKind::Interrupted),
        io::ErrorKind::BrokenPipe => matches!(inner.and_then(|x| x.downcast_ref::<FrameError>()), Some(FrameError::Io { source }) if source.kind() == io::ErrorKind::Interrupted),
        io::ErrorKind::ConnectionReset => matches!(inner.and_then(|x| x.downcast_ref::<WrappedIoBusError>()), Some(w) if w.0.kind() == io::ErrorKind::Interrupted),
        _ => true,
    }
}

pub const HARD_KINDS: [io::ErrorKind; 17] = [
    io::ErrorKind::Other,
    io::ErrorKind::TimedOut,
    io::ErrorKind::BrokenPipe,
    io::ErrorKind::WouldBlock,
    io::ErrorKind::UnexpectedEof,
    io::ErrorKind::ConnectionReset,
    io::ErrorKind::ConnectionAborted,
    io::ErrorKind::NotConnected,
    io::ErrorKind::InvalidData,
    io::ErrorKind::InvalidInput,
    io::ErrorKind::NotFound,
    io::ErrorKind::PermissionDenied,
    io::ErrorKind::WriteZero,
    io::ErrorKind::AlreadyExists,
    io::ErrorKind::AddrInUse,
    io::ErrorKind::Unsupported,
    io::ErrorKind::OutOfMemory,
];

#[derive(Clone, Copy, Debug, PartialEq, Eq)]
pub enum ReadFault {
    Interrupted,
    /// Report end of stream (Ok(0)) although bytes may remain.
    Eof,
    Fail(io::ErrorKind),
}

#[derive(Clone, Debug)]
pub struct ReadEv {
    pub at: usize,
    pub requested: usize,
    pub returned: Result<usize, io::ErrorKind>,
    pub t0: Instant,
    pub t1: Instant,
}

/// `io::Read` over a byte tape. Its behaviour is a function of the *stream position* only, so the oracle does
/// not depend on how the code under test sizes its requests:
/// * `boundaries`: a delivery never crosses one of these positions (fragmentation);
/// * `faults`: `(position, fault, times)` — a read attempted at that position returns the fault, `times` times
///   (`usize::MAX` = forever).
/// Within those limits the reader always hands over as many bytes as were requested, so code that asks for more
/// than it should consume over-consumes observably.
pub struct FragReader {
    pub tape: Vec<u8>,
    pub pos: usize,
    pub boundaries: Vec<usize>,
    pub faults: Vec<(usize, ReadFault, usize)>,
    pub calls: usize,
    pub calls_at_end: usize,
    pub faults_returned: usize,
    /// hard failures (an error other than Interrupted, or a premature end) returned since the last byte was delivered
    pub hard_failures_in_a_row: usize,
    pub log: Vec<ReadEv>,
}

impl FragReader {
    pub fn new(tape: Vec<u8>, mut boundaries: Vec<usize>, faults: Vec<(usize, ReadFault, usize)>) -> FragReader {
        boundaries.sort_unstable();
        FragReader {
            tape,
            pos: 0,
            boundaries,
            faults,
            calls: 0,
            calls_at_end: 0,
            faults_returned: 0,
            hard_failures_in_a_row: 0,
            log: vec![],
        }
    }
    pub fn plain(tape: Vec<u8>) -> FragReader {
        FragReader::new(tape, vec![], vec![])
    }
    pub fn remaining(&self) -> &[u8] {
        &self.tape[self.pos..]
    }
}

impl Read for FragReader {
    fn read(&mut self, buf: &mut [u8]) -> io::Result<usize> {
        let t0 = Instant::now();
        self.calls += 1;
        // a caller that keeps asking after the end of the stream (or spins on an error) would hang the check: the double
        // turns that into a panic, which every workload catches and reports
        if self.pos >= self.tape.len() {
            self.calls_at_end += 1;
            if self.calls_at_end > 100_000 {
                panic!("the reader was polled 100 000 times after the end of the stream");
            }
        }
        let at = self.pos;
        let mut fault = None;
        if !buf.is_empty() {
            for f in self.faults.iter_mut() {
                if f.0 == at && f.2 > 0 {
                    if f.2 != usize::MAX {
                        f.2 -= 1;
                    }
                    fault = Some(f.1);
                    break;
                }
            }
        }
        let r = match fault {
            Some(ReadFault::Interrupted) => Err(io::ErrorKind::Interrupted),
            Some(ReadFault::Eof) => Ok(0),
            Some(ReadFault::Fail(k)) => Err(k),
            None => {
                let limit = self.boundaries.iter().find(|b| **b > at).copied().unwrap_or(usize::MAX);
                let n = buf.len().min(self.tape.len() - at).min(limit - at);
                buf[..n].copy_from_slice(&self.tape[at..at + n]);
                self.pos += n;
                Ok(n)
            }
        };
        if fault.is_some() {
            self.faults_returned += 1;
        }
        match (&fault, &r) {
            (Some(ReadFault::Fail(_)) | Some(ReadFault::Eof), _) => {
                // a caller that asks again and again after a hard failure, without ever getting a byte, is spinning on it
                self.hard_failures_in_a_row += 1;
                if self.hard_failures_in_a_row > 300_000 {
                    panic!("the reader failed hard 300 000 times in a row and was asked again each time (the caller spins on a failing stream instead of giving up)");
                }
            }
            (_, Ok(n)) if *n > 0 => self.hard_failures_in_a_row = 0,
            _ => {}
        }
        self.log.push(ReadEv {
            at,
            requested: buf.len(),
            returned: r,
            t0,
            t1: Instant::now(),
        });
        r.map_err(|k| fault_error(k, "scripted read fault"))
    }
}

#[derive(Clone, Copy, Debug, PartialEq, Eq)]
pub enum WriteAct {
    /// Accept at most this many bytes (at least one if any are offered).
    Accept(usize),
    Interrupted,
    /// Accept nothing: Ok(0).
    Zero,
    Fail(io::ErrorKind),
}

#[derive(Clone, Debug)]
pub struct WriteEv {
    pub offered: usize,
    pub returned: Result<usize, io::ErrorKind>,
    pub t0: Instant,
    pub t1: Instant,
}

pub struct FragWriter {
    pub accepted: Vec<u8>,
    pub script: Vec<WriteAct>,
    pub default: WriteAct,
    pub calls: usize,
    pub log: Vec<WriteEv>,
    pub flushes: usize,
    pub fruitless_calls: usize,
    /// A gathering sink: `write_vectored` treats all the slices it is offered as one run of bytes (what a socket, a file
    /// or a `Cursor` does); otherwise it behaves like the trait's default and looks at the first non-empty slice only.
    pub gather: bool,
    pub vectored_calls: usize,
}

impl FragWriter {
    pub fn new(script: Vec<WriteAct>, default: WriteAct) -> FragWriter {
        FragWriter {
            accepted: vec![],
            script,
            default,
            calls: 0,
            log: vec![],
            flushes: 0,
            fruitless_calls: 0,
            gather: false,
            vectored_calls: 0,
        }
    }
    pub fn gathering(mut self, on: bool) -> FragWriter {
        self.gather = on;
        self
    }
}

impl Write for FragWriter {
    fn write_vectored(&mut self, bufs: &[io::IoSlice<'_>]) -> io::Result<usize> {
        self.vectored_calls += 1;
        if self.gather {
            let all: Vec<u8> = bufs.iter().flat_map(|b| b.iter().copied()).collect();
            self.write(&all)
        } else {
            let first = bufs.iter().find(|b| !b.is_empty()).map_or(&[][..], |b| &**b);
            self.write(first)
        }
    }
    fn write(&mut self, buf: &[u8]) -> io::Result<usize> {
        let t0 = Instant::now();
        let act = self.script.get(self.calls).copied().unwrap_or(self.default);
        self.calls += 1;
        if matches!(act, WriteAct::Zero | WriteAct::Interrupted | WriteAct::Fail(_)) {
            self.fruitless_calls += 1;
            if self.fruitless_calls > 100_000 {
                panic!("the sink was offered data 100 000 times in a row without accepting any (the writer spins instead of giving up)");
            }
        } else {
            self.fruitless_calls = 0;
        }
        let r = match act {
            WriteAct::Accept(k) => {
                let n = k.max(1).min(buf.len());
                self.accepted.extend_from_slice(&buf[..n]);
                Ok(n)
            }
            WriteAct::Interrupted => Err(io::ErrorKind::Interrupted),
            WriteAct::Zero => Ok(0),
            WriteAct::Fail(k) => Err(k),
        };
        self.log.push(WriteEv {
            offered: buf.len(),
            returned: r,
            t0,
            t1: Instant::now(),
        });
        r.map_err(|k| fault_error(k, "scripted write fault"))
    }
    fn flush(&mut self) -> io::Result<()> {
        self.flushes += 1;
        Ok(())
    }
}

// ------------------------------------------------------------------------------------------------
// Instrumented serial device

#[derive(Clone, Debug, PartialEq)]
pub enum PortEv {
    ReadSettings { ok: bool },
    SetBaud { rate: BaudRate, ok: bool },
    SetCharSize(CharSize),
    SetParity(Parity),
    SetStopBits(StopBits),
    SetFlow(FlowControl),
    WriteSettings { settings: PortSettings, ok: bool },
    SetTimeout { timeout: Duration, ok: bool },
    Read { requested: usize, returned: Result<usize, io::ErrorKind> },
    Write { bytes: Vec<u8>, returned: Result<usize, io::ErrorKind> },
    Flush,
    Other(&'static str),
}

#[derive(Clone, Debug)]
pub struct Stamped {
    pub ev: PortEv,
    pub t0: Instant,
    pub t1: Instant,
}

/// State shared between the port, the settings objects it hands out and the harness; it survives the port
/// being moved into (and dropped by) a constructor.
#[derive(Debug)]
pub struct PortState {
    pub log: Vec<Stamped>,
    pub settings: PortSettings,
    pub timeout: Option<Duration>,
    pub written: Vec<u8>,
    pub fail_read_settings: Option<(serial_core::ErrorKind, &'static str)>,
    pub fail_baud: Option<(serial_core::ErrorKind, &'static str)>,
    pub fail_write_settings: Option<(serial_core::ErrorKind, &'static str)>,
    pub fail_set_timeout: Option<(serial_core::ErrorKind, &'static str)>,
    /// how many more times each configuration fault fires (usize::MAX = persistent); 0 = spent
    pub fault_budget: usize,
    /// an armed configuration fault PANICS (a driver with a bug of its own) instead of returning its error
    pub panic_on_fault: bool,
    /// faults for the port's flush(): the k-th flush call returns this error kind
    pub flush_faults: Vec<(usize, io::ErrorKind)>,
    pub flush_calls: usize,
    /// every write call blocks this long inside the port before it succeeds (a slow or flow-controlled line)
    pub write_stall: Option<Duration>,
    /// the first read call blocks this long before it delivers (the sign takes its time to answer)
    pub first_read_stall: Option<Duration>,
    /// a port whose driver takes its time to apply settings (`write_settings` blocks this long)
    pub settings_stall: Option<Duration>,
    /// a line so slow that EVERY read call blocks this long before it delivers (a byte at a time at a few hundred baud)
    pub read_stall_each: Option<Duration>,
    /// the port's present framing is something the settings enums cannot name (1.5 stop bits, mark parity): the getters for
    /// character size, parity and stop bits answer None until a setter has been called
    pub opaque_framing: bool,
    pub read_calls: usize,
}

impl PortState {
    /// Returns the fault if it is armed and the budget allows it, consuming one unit of a finite budget.
    fn take(&mut self, which: u8) -> Option<(serial_core::ErrorKind, &'static str)> {
        let f = match which {
            0 => self.fail_read_settings,
            1 => self.fail_baud,
            2 => self.fail_write_settings,
            _ => self.fail_set_timeout,
        };
        if f.is_some() {
            if self.fault_budget == 0 {
                return None;
            }
            if self.fault_budget != usize::MAX {
                self.fault_budget -= 1;
            }
            if self.panic_on_fault {
                panic!("the port's driver panicked");
            }
        }
        f
    }
    fn push(&mut self, ev: PortEv, t0: Instant) {
        self.log.push(Stamped { ev, t0, t1: Instant::now() });
    }
}

pub type Shared = Rc<RefCell<PortState>>;

pub fn shared(settings: PortSettings) -> Shared {
    Rc::new(RefCell::new(PortState {
        log: vec![],
        settings,
        timeout: None,
        written: vec![],
        fail_read_settings: None,
        fail_baud: None,
        fail_write_settings: None,
        fail_set_timeout: None,
        panic_on_fault: false,
        fault_budget: usize::MAX,
        flush_faults: vec![],
        flush_calls: 0,
        write_stall: None,
        first_read_stall: None,
        settings_stall: None,
        read_stall_each: None,
        opaque_framing: false,
        read_calls: 0,
    }))
}

pub const WEIRD_SETTINGS: PortSettings = PortSettings {
    baud_rate: BaudRate::Baud110,
    char_size: CharSize::Bits7,
    parity: Parity::ParityEven,
    stop_bits: StopBits::Stop2,
    flow_control: FlowControl::FlowSoftware,
};

/// The harness's own settings type: records every setter call.
pub struct InstrSettings {
    cur: PortSettings,
    st: Shared,
    /// which of character size / parity / stop bits a setter has been called for (see `PortState::opaque_framing`)
    touched: (bool, bool, bool),
}

impl SerialPortSettings for InstrSettings {
    fn baud_rate(&self) -> Option<BaudRate> {
        Some(self.cur.baud_rate)
    }
    fn char_size(&self) -> Option<CharSize> {
        if self.st.borrow().opaque_framing && !self.touched.0 { None } else { Some(self.cur.char_size) }
    }
    fn parity(&self) -> Option<Parity> {
        if self.st.borrow().opaque_framing && !self.touched.1 { None } else { Some(self.cur.parity) }
    }
    fn stop_bits(&self) -> Option<StopBits> {
        if self.st.borrow().opaque_framing && !self.touched.2 { None } else { Some(self.cur.stop_bits) }
    }
    fn flow_control(&self) -> Option<FlowControl> {
        Some(self.cur.flow_control)
    }
    fn set_baud_rate(&mut self, baud_rate: BaudRate) -> serial_core::Result<()> {
        let t0 = Instant::now();
        let fail = self.st.borrow_mut().take(1);
        self.st.borrow_mut().push(PortEv::SetBaud { rate: baud_rate, ok: fail.is_none() }, t0);
        match fail {
            Some((k, d)) => Err(serial_core::Error::new(k, d)),
            None => {
                self.cur.baud_rate = baud_rate;
                Ok(())
            }
        }
    }
    fn set_char_size(&mut self, char_size: CharSize) {
        self.st.borrow_mut().push(PortEv::SetCharSize(char_size), Instant::now());
        self.cur.char_size = char_size;
        self.touched.0 = true;
    }
    fn set_parity(&mut self, parity: Parity) {
        self.st.borrow_mut().push(PortEv::SetParity(parity), Instant::now());
        self.cur.parity = parity;
        self.touched.1 = true;
    }
    fn set_stop_bits(&mut self, stop_bits: StopBits) {
        self.st.borrow_mut().push(PortEv::SetStopBits(stop_bits), Instant::now());
        self.cur.stop_bits = stop_bits;
        self.touched.2 = true;
    }
    fn set_flow_control(&mut self, flow_control: FlowControl) {
        self.st.borrow_mut().push(PortEv::SetFlow(flow_control), Instant::now());
        self.cur.flow_control = flow_control;
    }
}

/// A port that implements `SerialPort` DIRECTLY (not through `SerialDevice`) and is careful about it: `reconfigure` first
/// REHEARSES the caller's setup on scratch copies of its settings (`rehearsals` times — does it go through at all?) and
/// only then runs it on the live ones. The setup is an `Fn`: it may be called any number of times, and the last call
/// counts.
pub struct CarefulPort {
    pub st: Shared,
    pub rehearsals: usize,
}

impl Read for CarefulPort {
    fn read(&mut self, _buf: &mut [u8]) -> io::Result<usize> {
        Err(io::Error::new(io::ErrorKind::TimedOut, "nothing on the line"))
    }
}

impl Write for CarefulPort {
    fn write(&mut self, buf: &[u8]) -> io::Result<usize> {
        self.st.borrow_mut().written.extend_from_slice(buf);
        Ok(buf.len())
    }
    fn flush(&mut self) -> io::Result<()> {
        Ok(())
    }
}

impl serial_core::SerialPort for CarefulPort {
    fn timeout(&self) -> Duration {
        self.st.borrow().timeout.unwrap_or(Duration::ZERO)
    }
    fn set_timeout(&mut self, timeout: Duration) -> serial_core::Result<()> {
        self.st.borrow_mut().timeout = Some(timeout);
        Ok(())
    }
    fn configure(&mut self, settings: &PortSettings) -> serial_core::Result<()> {
        self.st.borrow_mut().settings = *settings;
        Ok(())
    }
    fn reconfigure(&mut self, setup: &dyn Fn(&mut dyn SerialPortSettings) -> serial_core::Result<()>) -> serial_core::Result<()> {
        let cur = self.st.borrow().settings;
        for _ in 0..self.rehearsals {
            let mut scratch = InstrSettings { cur, st: shared(cur), touched: (false, false, false) };
            setup(&mut scratch)?;
        }
        let mut live = InstrSettings { cur, st: self.st.clone(), touched: (false, false, false) };
        setup(&mut live)?;
        self.st.borrow_mut().settings = live.cur;
        Ok(())
    }
    fn set_rts(&mut self, _level: bool) -> serial_core::Result<()> {
        Ok(())
    }
    fn set_dtr(&mut self, _level: bool) -> serial_core::Result<()> {
        Ok(())
    }
    fn read_cts(&mut self) -> serial_core::Result<bool> {
        Ok(false)
    }
    fn read_dsr(&mut self) -> serial_core::Result<bool> {
        Ok(false)
    }
    fn read_ri(&mut self) -> serial_core::Result<bool> {
        Ok(false)
    }
    fn read_cd(&mut self) -> serial_core::Result<bool> {
        Ok(false)
    }
}

/// Where the port's data bytes come from / go to.
pub enum Wiring {
    /// Scripted reader (reply tape) and scripted writer.
    Scripted { reader: FragReader, writer: FragWriter },
    /// One end of an in-process duplex link.
    Link { rx: Rc<RefCell<VecDeque<u8>>>, tx: Rc<RefCell<VecDeque<u8>>>, on_line: Option<Box<dyn FnMut()>> },
}

pub struct InstrPort {
    pub st: Shared,
    pub wiring: Wiring,
}

impl InstrPort {
    pub fn scripted(st: Shared, reader: FragReader, writer: FragWriter) -> InstrPort {
        InstrPort {
            st,
            wiring: Wiring::Scripted { reader, writer },
        }
    }
}

impl Read for InstrPort {
    fn read(&mut self, buf: &mut [u8]) -> io::Result<usize> {
        let t0 = Instant::now();
        let stall = {
            let mut st = self.st.borrow_mut();
            st.read_calls += 1;
            if st.read_calls == 1 { st.first_read_stall } else { st.read_stall_each }
        };
        if let Some(d) = stall {
            std::thread::sleep(d);
        }
        let r: Result<usize, io::ErrorKind> = match &mut self.wiring {
            Wiring::Scripted { reader, .. } => reader.read(buf).map_err(|e| e.kind()),
            Wiring::Link { rx, .. } => {
                let mut q = rx.borrow_mut();
                if q.is_empty() {
                    // an empty line models a read timeout on a real port
                    Err(io::ErrorKind::TimedOut)
                } else {
                    let n = buf.len().min(q.len());
                    for b in buf.iter_mut().take(n) {
                        *b = q.pop_front().unwrap();
                    }
                    Ok(n)
                }
            }
        };
        self.st.borrow_mut().push(PortEv::Read { requested: buf.len(), returned: r }, t0);
        r.map_err(|k| fault_error(k, "port read fault"))
    }
}

impl Write for InstrPort {
    fn write_vectored(&mut self, bufs: &[io::IoSlice<'_>]) -> io::Result<usize> {
        let gather = match &self.wiring {
            Wiring::Scripted { writer, .. } => writer.gather,
            Wiring::Link { .. } => false,
        };
        if gather {
            let all: Vec<u8> = bufs.iter().flat_map(|b| b.iter().copied()).collect();
            self.write(&all)
        } else {
            let first = bufs.iter().find(|b| !b.is_empty()).map_or(&[][..], |b| &**b);
            self.write(first)
        }
    }
    fn write(&mut self, buf: &[u8]) -> io::Result<usize> {
        let t0 = Instant::now();
        let stall = self.st.borrow().write_stall;
        if let Some(d) = stall {
            std::thread::sleep(d);
        }
        let mut line_done = false;
        let r: Result<usize, io::ErrorKind> = match &mut self.wiring {
            Wiring::Scripted { writer, .. } => writer.write(buf).map_err(|e| e.kind()),
            Wiring::Link { tx, .. } => {
                tx.borrow_mut().extend(buf.iter().copied());
                line_done = buf.contains(&b'\n');
                Ok(buf.len())
            }
        };
        {
            let mut st = self.st.borrow_mut();
            if let Ok(n) = r {
                st.written.extend_from_slice(&buf[..n]);
            }
            st.push(PortEv::Write { bytes: buf.to_vec(), returned: r }, t0);
        }
        if line_done {
            if let Wiring::Link { on_line: Some(f), .. } = &mut self.wiring {
                f();
            }
        }
        r.map_err(|k| fault_error(k, "port write fault"))
    }
    fn flush(&mut self) -> io::Result<()> {
        let mut st = self.st.borrow_mut();
        let k = st.flush_calls;
        st.flush_calls += 1;
        let fault = st.flush_faults.iter().find(|f| f.0 == k).map(|f| f.1);
        st.push(PortEv::Flush, Instant::now());
        match fault {
            Some(kind) => {
                st.push(PortEv::Other("flush_failed"), Instant::now());
                Err(io::Error::new(kind, "scripted flush fault"))
            }
            None => Ok(()),
        }
    }
}

impl SerialDevice for InstrPort {
    type Settings = InstrSettings;

    fn read_settings(&self) -> serial_core::Result<InstrSettings> {
        let t0 = Instant::now();
        let fail = self.st.borrow_mut().take(0);
        self.st.borrow_mut().push(PortEv::ReadSettings { ok: fail.is_none() }, t0);
        match fail {
            Some((k, d)) => Err(serial_core::Error::new(k, d)),
            None => Ok(InstrSettings {
                cur: self.st.borrow().settings,
                st: self.st.clone(),
                touched: (false, false, false),
            }),
        }
    }

    fn write_settings(&mut self, settings: &InstrSettings) -> serial_core::Result<()> {
        let t0 = Instant::now();
        let stall = self.st.borrow().settings_stall;
        if let Some(d) = stall {
            std::thread::sleep(d);
        }
        let fail = self.st.borrow_mut().take(2);
        self.st.borrow_mut().push(PortEv::WriteSettings { settings: settings.cur, ok: fail.is_none() }, t0);
        match fail {
            Some((k, d)) => Err(serial_core::Error::new(k, d)),
            None => {
                self.st.borrow_mut().settings = settings.cur;
                Ok(())
            }
        }
    }

    fn timeout(&self) -> Duration {
        self.st.borrow_mut().push(PortEv::Other("timeout"), Instant::now());
        self.st.borrow().timeout.unwrap_or(Duration::ZERO)
    }

    fn set_timeout(&mut self, timeout: Duration) -> serial_core::Result<()> {
        let t0 = Instant::now();
        let fail = self.st.borrow_mut().take(3);
        self.st.borrow_mut().push(PortEv::SetTimeout { timeout, ok: fail.is_none() }, t0);
        match fail {
            Some((k, d)) => Err(serial_core::Error::new(k, d)),
            None => {
                self.st.borrow_mut().timeout = Some(timeout);
                Ok(())
            }
        }
    }

    fn set_rts(&mut self, _: bool) -> serial_core::Result<()> {
        self.st.borrow_mut().push(PortEv::Other("set_rts"), Instant::now());
        Ok(())
    }
    fn set_dtr(&mut self, _: bool) -> serial_core::Result<()> {
        self.st.borrow_mut().push(PortEv::Other("set_dtr"), Instant::now());
        Ok(())
    }
    fn read_cts(&mut self) -> serial_core::Result<bool> {
        self.st.borrow_mut().push(PortEv::Other("read_cts"), Instant::now());
        Ok(false)
    }
    fn read_dsr(&mut self) -> serial_core::Result<bool> {
        self.st.borrow_mut().push(PortEv::Other("read_dsr"), Instant::now());
        Ok(false)
    }
    fn read_ri(&mut self) -> serial_core::Result<bool> {
        self.st.borrow_mut().push(PortEv::Other("read_ri"), Instant::now());
        Ok(false)
    }
    fn read_cd(&mut self) -> serial_core::Result<bool> {
        self.st.borrow_mut().push(PortEv::Other("read_cd"), Instant::now());
        Ok(false)
    }
}

// ------------------------------------------------------------------------------------------------
// Sign buses

#[derive(Clone, Debug, PartialEq)]
pub struct BusEv {
    pub msg: RefMsg,
    pub reply: Result<Option<RefMsg>, String>,
}

/// Records every message and its reply, forwarding to an inner bus.
pub struct RecBus<B: SignBus> {
    pub inner: B,
    pub log: Vec<BusEv>,
}

impl<B: SignBus> RecBus<B> {
    pub fn new(inner: B) -> Self {
        RecBus { inner, log: vec![] }
    }
}

impl<B: SignBus> SignBus for RecBus<B> {
    fn process_message<'a>(&mut self, message: Message<'_>) -> Result<Option<Message<'a>>, Box<dyn std::error::Error + Send + Sync>> {
        let m = refs::to_ref(&message);
        let r = self.inner.process_message(message);
        self.log.push(BusEv {
            msg: m,
            reply: match &r {
                Ok(x) => Ok(x.as_ref().map(refs::to_ref)),
                Err(e) => Err(e.to_string()),
            },
        });
        r
    }
}

/// A bus handle that can be given away (to `Sign`, to `Odk`) while the harness keeps another handle.
pub struct SharedBus<B: SignBus>(pub Rc<RefCell<B>>);

impl<B: SignBus> SignBus for SharedBus<B> {
    fn process_message<'a>(&mut self, message: Message<'_>) -> Result<Option<Message<'a>>, Box<dyn std::error::Error + Send + Sync>> {
        self.0.borrow_mut().process_message(message)
    }
}

#[derive(Debug)]
pub struct ScriptedBusError(pub String);

impl std::fmt::Display for ScriptedBusError {
    fn fmt(&self, f: &mut std::fmt::Formatter<'_>) -> std::fmt::Result {
        write!(f, "{}", self.0)
    }
}

impl std::error::Error for ScriptedBusError {}

/// A bus error that wraps an I/O error (what a serial bus hands up when the port fails).
#[derive(Debug)]
pub struct WrappedIoBusError(pub std::io::Error);

impl std::fmt::Display for WrappedIoBusError {
    fn fmt(&self, f: &mut std::fmt::Formatter<'_>) -> std::fmt::Result {
        write!(f, "bus failed: {}", self.0)
    }
}

impl std::error::Error for WrappedIoBusError {
    fn source(&self) -> Option<&(dyn std::error::Error + 'static)> {
        Some(&self.0)
    }
}

pub const N_BUS_ERROR_FLAVOURS: u8 = 10;

/// Concrete type, kind and text of a bus error as the caller of `Sign` gets to see it: a caller that downcasts the source
/// to decide what to do (reconnect on a timeout, give up on a protocol error) depends on all three.
pub fn describe_bus_error(e: &(dyn std::error::Error + Send + Sync + 'static)) -> String {
    let tag = if let Some(io) = e.downcast_ref::<io::Error>() {
        format!("io::Error({:?})", io.kind())
    } else if let Some(fe) = e.downcast_ref::<flipdot_core::FrameError>() {
        match fe {
            flipdot_core::FrameError::Io { source } => format!("FrameError::Io({:?})", source.kind()),
            other => format!("FrameError({:?})", other),
        }
    } else if e.downcast_ref::<ScriptedBusError>().is_some() {
        "ScriptedBusError".to_string()
    } else if let Some(w) = e.downcast_ref::<WrappedIoBusError>() {
        format!("WrappedIoBusError({:?})", w.0.kind())
    } else if let Some(se) = e.downcast_ref::<flipdot::SignError>() {
        match se {
            flipdot::SignError::Bus { source } => format!("SignError::Bus({})", describe_bus_error(source.as_ref())),
            flipdot::SignError::UnexpectedResponse { expected, actual } => format!("SignError::UnexpectedResponse({} / {})", expected, actual),
            _ => "SignError(other)".to_string(),
        }
    } else {
        "some other type".to_string()
    };
    format!("{} \"{}\"", tag, e)
}

/// The error a scripted bus returns: the controller must treat every kind alike (stop, hand the error up).
pub fn bus_error(flavour: u8) -> Box<dyn std::error::Error + Send + Sync> {
    use std::io::{Error, ErrorKind};
    match flavour % N_BUS_ERROR_FLAVOURS {
        0 => Box::new(ScriptedBusError("scripted bus error".into())),
        1 => Box::new(Error::new(ErrorKind::Interrupted, "scripted bus error (interrupted)")),
        2 => Box::new(Error::new(ErrorKind::TimedOut, "scripted bus error (timed out)")),
        3 => Box::new(WrappedIoBusError(Error::new(ErrorKind::Interrupted, "scripted bus error (wrapped interrupted)"))),
        4 => Box::new(Error::new(ErrorKind::WouldBlock, "scripted bus error (would block)")),
        5 => Box::new(WrappedIoBusError(Error::new(ErrorKind::UnexpectedEof, "scripted bus error (wrapped eof)"))),
        // what a serial bus really hands up: the frame codec's own error type around the port's error
        6 => Box::new(flipdot_core::FrameError::from(Error::new(ErrorKind::TimedOut, "scripted bus error (frame error, timed out)"))),
        7 => Box::new(flipdot_core::FrameError::from(Error::new(ErrorKind::Interrupted, "scripted bus error (frame error, interrupted)"))),
        // what a relaying bus hands up (one that drives a sign further down the line): the controller's own error type —
        // to this controller it is a bus error like any other, not a verdict about its own conversation
        8 => Box::new(flipdot::SignError::UnexpectedResponse { expected: "Some(ReportState(Address(3), Unconfigured))".into(), actual: "None".into() }),
        _ => Box::new(flipdot::SignError::Bus { source: Box::new(ScriptedBusError("scripted bus error (inside a relayed SignError)".into())) }),
    }
}

/// Forwards to the inner bus until `fail_at` messages have been processed, then fails every message.
pub struct FaultBus<B: SignBus> {
    pub inner: B,
    pub fail_at: usize,
    pub seen: usize,
}

impl<B: SignBus> SignBus for FaultBus<B> {
    fn process_message<'a>(&mut self, message: Message<'_>) -> Result<Option<Message<'a>>, Box<dyn std::error::Error + Send + Sync>> {
        if self.seen >= self.fail_at {
            self.seen += 1;
            return Err(Box::new(ScriptedBusError("injected bus fault".into())));
        }
        self.seen += 1;
        self.inner.process_message(message)
    }
}
