//! Shared infrastructure: PRNG, JSON, panic capture, sharded execution, reports, evidence, known findings.

use std::cell::RefCell;
use std::collections::{BTreeMap, HashSet};
use std::fmt::Write as _;
use std::panic::{self, AssertUnwindSafe};
use std::sync::Mutex;
use std::sync::atomic::{AtomicUsize, Ordering};
use std::time::Instant;

// ------------------------------------------------------------------------------------------------
// PRNG (xoshiro256** seeded by SplitMix64)

#[derive(Clone, Debug)]
pub struct Rng {
    s: [u64; 4],
}

pub fn splitmix(x: &mut u64) -> u64 {
    *x = x.wrapping_add(0x9E37_79B9_7F4A_7C15);
    let mut z = *x;
    z = (z ^ (z >> 30)).wrapping_mul(0xBF58_476D_1CE4_E5B9);
    z = (z ^ (z >> 27)).wrapping_mul(0x94D0_49BB_1331_11EB);
    z ^ (z >> 31)
}

pub fn fnv(bytes: &[u8]) -> u64 {
    let mut h: u64 = 0xcbf2_9ce4_8422_2325;
    for &b in bytes {
        h ^= u64::from(b);
        h = h.wrapping_mul(0x0000_0100_0000_01B3);
    }
    h
}

pub fn mix(a: u64, b: u64) -> u64 {
    let mut x = a ^ b.wrapping_mul(0x9E37_79B9_7F4A_7C15).rotate_left(23);
    splitmix(&mut x)
}

impl Rng {
    pub fn new(seed: u64) -> Rng {
        let mut x = seed;
        Rng {
            s: [splitmix(&mut x), splitmix(&mut x), splitmix(&mut x), splitmix(&mut x)],
        }
    }
    /// Stream derived from (seed, label, index) — independent per shard / case.
    pub fn derive(seed: u64, label: &str, index: u64) -> Rng {
        Rng::new(mix(mix(seed, fnv(label.as_bytes())), index))
    }
    pub fn next(&mut self) -> u64 {
        let r = self.s[1].wrapping_mul(5).rotate_left(7).wrapping_mul(9);
        let t = self.s[1] << 17;
        self.s[2] ^= self.s[0];
        self.s[3] ^= self.s[1];
        self.s[1] ^= self.s[2];
        self.s[0] ^= self.s[3];
        self.s[2] ^= t;
        self.s[3] = self.s[3].rotate_left(45);
        r
    }
    pub fn below(&mut self, n: u64) -> u64 {
        if n == 0 { 0 } else { self.next() % n }
    }
    pub fn range(&mut self, lo: u64, hi_incl: u64) -> u64 {
        lo + self.below(hi_incl - lo + 1)
    }
    pub fn usize(&mut self, n: usize) -> usize {
        self.below(n as u64) as usize
    }
    pub fn u8(&mut self) -> u8 {
        self.next() as u8
    }
    pub fn u16(&mut self) -> u16 {
        self.next() as u16
    }
    pub fn bool(&mut self) -> bool {
        self.next() & 1 == 1
    }
    pub fn chance(&mut self, num: u64, den: u64) -> bool {
        self.below(den) < num
    }
    pub fn pick<'a, T>(&mut self, xs: &'a [T]) -> &'a T {
        &xs[self.usize(xs.len())]
    }
    pub fn bytes(&mut self, n: usize) -> Vec<u8> {
        (0..n).map(|_| self.u8()).collect()
    }
    /// Random bytes of a random length in 0..max_excl.
    pub fn bytes_upto(&mut self, max_excl: usize) -> Vec<u8> {
        let n = self.usize(max_excl);
        self.bytes(n)
    }
    /// Byte biased towards the interesting values 0x00 / 0xFF.
    pub fn edgy_u8(&mut self) -> u8 {
        match self.below(8) {
            0 => 0,
            1 => 0xFF,
            2 => 0x80,
            3 => 0x7F,
            _ => self.u8(),
        }
    }
    pub fn edgy_u16(&mut self) -> u16 {
        match self.below(10) {
            0 => 0,
            1 => 0xFFFF,
            2 => 0x8000,
            3 => 0x7FFF,
            4 => 0x00FF,
            5 => 0x0100,
            _ => self.u16(),
        }
    }
}

// ------------------------------------------------------------------------------------------------
// JSON value, writer and a small parser (for known_findings.json and replay files)

#[derive(Clone, Debug, PartialEq)]
pub enum J {
    Null,
    Bool(bool),
    Int(i128),
    Num(f64),
    Str(String),
    Arr(Vec<J>),
    Obj(Vec<(String, J)>),
}

impl J {
    pub fn s<T: Into<String>>(x: T) -> J {
        J::Str(x.into())
    }
    pub fn u<T: Into<u64>>(x: T) -> J {
        J::Int(i128::from(x.into()))
    }
    pub fn us(x: usize) -> J {
        J::Int(x as i128)
    }
    pub fn obj(pairs: Vec<(&str, J)>) -> J {
        J::Obj(pairs.into_iter().map(|(k, v)| (k.to_string(), v)).collect())
    }
    pub fn hex(bytes: &[u8]) -> J {
        J::Str(hex(bytes))
    }
    pub fn get(&self, key: &str) -> Option<&J> {
        match self {
            J::Obj(v) => v.iter().find(|(k, _)| k == key).map(|(_, v)| v),
            _ => None,
        }
    }
    pub fn as_str(&self) -> Option<&str> {
        match self {
            J::Str(s) => Some(s),
            _ => None,
        }
    }
    pub fn as_u64(&self) -> Option<u64> {
        match self {
            J::Int(i) => u64::try_from(*i).ok(),
            _ => None,
        }
    }
    pub fn as_arr(&self) -> Option<&[J]> {
        match self {
            J::Arr(v) => Some(v),
            _ => None,
        }
    }
    pub fn render(&self) -> String {
        let mut s = String::new();
        self.write(&mut s, 0, true);
        s
    }
    pub fn compact(&self) -> String {
        let mut s = String::new();
        self.write(&mut s, 0, false);
        s
    }
    fn write(&self, out: &mut String, ind: usize, pretty: bool) {
        match self {
            J::Null => out.push_str("null"),
            J::Bool(b) => out.push_str(if *b { "true" } else { "false" }),
            J::Int(i) => {
                let _ = write!(out, "{}", i);
            }
            J::Num(f) => {
                if f.is_finite() {
                    let _ = write!(out, "{}", f);
                } else {
                    out.push_str("null");
                }
            }
            J::Str(s) => write_str(out, s),
            J::Arr(v) => {
                // arrays of scalars stay on one line
                let scalar = v.iter().all(|x| !matches!(x, J::Arr(_) | J::Obj(_)));
                out.push('[');
                for (i, x) in v.iter().enumerate() {
                    if i > 0 {
                        out.push(',');
                        if scalar && pretty {
                            out.push(' ');
                        }
                    }
                    if pretty && !scalar {
                        out.push('\n');
                        out.push_str(&" ".repeat(ind + 1));
                    }
                    x.write(out, ind + 1, pretty);
                }
                if pretty && !scalar && !v.is_empty() {
                    out.push('\n');
                    out.push_str(&" ".repeat(ind));
                }
                out.push(']');
            }
            J::Obj(v) => {
                out.push('{');
                for (i, (k, x)) in v.iter().enumerate() {
                    if i > 0 {
                        out.push(',');
                    }
                    if pretty {
                        out.push('\n');
                        out.push_str(&" ".repeat(ind + 1));
                    }
                    write_str(out, k);
                    out.push(':');
                    if pretty {
                        out.push(' ');
                    }
                    x.write(out, ind + 1, pretty);
                }
                if pretty && !v.is_empty() {
                    out.push('\n');
                    out.push_str(&" ".repeat(ind));
                }
                out.push('}');
            }
        }
    }
}

fn write_str(out: &mut String, s: &str) {
    out.push('"');
    for c in s.chars() {
        match c {
            '"' => out.push_str("\\\""),
            '\\' => out.push_str("\\\\"),
            '\n' => out.push_str("\\n"),
            '\r' => out.push_str("\\r"),
            '\t' => out.push_str("\\t"),
            c if (c as u32) < 0x20 => {
                let _ = write!(out, "\\u{:04x}", c as u32);
            }
            c => out.push(c),
        }
    }
    out.push('"');
}

pub fn hex(bytes: &[u8]) -> String {
    let mut s = String::with_capacity(bytes.len() * 2);
    for b in bytes {
        let _ = write!(s, "{:02x}", b);
    }
    s
}

pub fn unhex(s: &str) -> Option<Vec<u8>> {
    let b = s.as_bytes();
    if b.len() % 2 != 0 {
        return None;
    }
    let nib = |c: u8| -> Option<u8> {
        match c {
            b'0'..=b'9' => Some(c - b'0'),
            b'a'..=b'f' => Some(c - b'a' + 10),
            b'A'..=b'F' => Some(c - b'A' + 10),
            _ => None,
        }
    };
    let mut v = Vec::with_capacity(b.len() / 2);
    for p in b.chunks(2) {
        v.push(nib(p[0])? << 4 | nib(p[1])?);
    }
    Some(v)
}

/// Printable rendering of a wire string for samples and replay files.
pub fn show_bytes(bytes: &[u8]) -> String {
    let mut s = String::new();
    for &b in bytes.iter().take(200) {
        match b {
            b'\r' => s.push_str("\\r"),
            b'\n' => s.push_str("\\n"),
            b'\\' => s.push_str("\\\\"),
            0x20..=0x7E => s.push(b as char),
            _ => {
                let _ = write!(s, "\\x{:02x}", b);
            }
        }
    }
    if bytes.len() > 200 {
        let _ = write!(s, "...(+{} bytes)", bytes.len() - 200);
    }
    s
}

pub fn parse_json(text: &str) -> Result<J, String> {
    let mut p = Parser { b: text.as_bytes(), i: 0 };
    p.ws();
    let v = p.value()?;
    p.ws();
    if p.i != p.b.len() {
        return Err(format!("trailing data at {}", p.i));
    }
    Ok(v)
}

struct Parser<'a> {
    b: &'a [u8],
    i: usize,
}

impl Parser<'_> {
    fn ws(&mut self) {
        while self.i < self.b.len() && matches!(self.b[self.i], b' ' | b'\n' | b'\r' | b'\t') {
            self.i += 1;
        }
    }
    fn eat(&mut self, lit: &str) -> bool {
        if self.b[self.i..].starts_with(lit.as_bytes()) {
            self.i += lit.len();
            true
        } else {
            false
        }
    }
    fn value(&mut self) -> Result<J, String> {
        self.ws();
        if self.i >= self.b.len() {
            return Err("eof".into());
        }
        if self.eat("null") {
            return Ok(J::Null);
        }
        if self.eat("true") {
            return Ok(J::Bool(true));
        }
        if self.eat("false") {
            return Ok(J::Bool(false));
        }
        match self.b[self.i] {
            b'"' => Ok(J::Str(self.string()?)),
            b'[' => {
                self.i += 1;
                let mut v = vec![];
                self.ws();
                if self.eat("]") {
                    return Ok(J::Arr(v));
                }
                loop {
                    v.push(self.value()?);
                    self.ws();
                    if self.eat(",") {
                        continue;
                    }
                    if self.eat("]") {
                        return Ok(J::Arr(v));
                    }
                    return Err(format!("expected , or ] at {}", self.i));
                }
            }
            b'{' => {
                self.i += 1;
                let mut v = vec![];
                self.ws();
                if self.eat("}") {
                    return Ok(J::Obj(v));
                }
                loop {
                    self.ws();
                    let k = self.string()?;
                    self.ws();
                    if !self.eat(":") {
                        return Err(format!("expected : at {}", self.i));
                    }
                    let x = self.value()?;
                    v.push((k, x));
                    self.ws();
                    if self.eat(",") {
                        continue;
                    }
                    if self.eat("}") {
                        return Ok(J::Obj(v));
                    }
                    return Err(format!("expected , or }} at {}", self.i));
                }
            }
            _ => {
                let st = self.i;
                while self.i < self.b.len() && matches!(self.b[self.i], b'-' | b'+' | b'.' | b'e' | b'E' | b'0'..=b'9') {
                    self.i += 1;
                }
                let t = std::str::from_utf8(&self.b[st..self.i]).map_err(|e| e.to_string())?;
                if let Ok(i) = t.parse::<i128>() {
                    Ok(J::Int(i))
                } else {
                    t.parse::<f64>().map(J::Num).map_err(|_| format!("bad number at {}", st))
                }
            }
        }
    }
    fn string(&mut self) -> Result<String, String> {
        if self.i >= self.b.len() || self.b[self.i] != b'"' {
            return Err(format!("expected string at {}", self.i));
        }
        self.i += 1;
        let mut out = Vec::new();
        while self.i < self.b.len() {
            let c = self.b[self.i];
            self.i += 1;
            match c {
                b'"' => return String::from_utf8(out).map_err(|e| e.to_string()),
                b'\\' => {
                    let e = *self.b.get(self.i).ok_or("eof in escape")?;
                    self.i += 1;
                    match e {
                        b'n' => out.push(b'\n'),
                        b'r' => out.push(b'\r'),
                        b't' => out.push(b'\t'),
                        b'b' => out.push(8),
                        b'f' => out.push(12),
                        b'u' => {
                            let h = std::str::from_utf8(self.b.get(self.i..self.i + 4).ok_or("eof in \\u")?).map_err(|e| e.to_string())?;
                            let cp = u32::from_str_radix(h, 16).map_err(|e| e.to_string())?;
                            self.i += 4;
                            let ch = char::from_u32(cp).unwrap_or('?');
                            let mut buf = [0u8; 4];
                            out.extend_from_slice(ch.encode_utf8(&mut buf).as_bytes());
                        }
                        other => out.push(other),
                    }
                }
                c => out.push(c),
            }
        }
        Err("unterminated string".into())
    }
}

// ------------------------------------------------------------------------------------------------
// Panic capture

#[derive(Clone, Debug)]
pub struct PanicInfo {
    pub msg: String,
    pub loc: String,
}

thread_local! {
    static LAST_PANIC: RefCell<Option<PanicInfo>> = const { RefCell::new(None) };
}

pub fn install_panic_hook() {
    panic::set_hook(Box::new(|info| {
        let msg = if let Some(s) = info.payload().downcast_ref::<&str>() {
            (*s).to_string()
        } else if let Some(s) = info.payload().downcast_ref::<String>() {
            s.clone()
        } else {
            "<non-string panic payload>".to_string()
        };
        let loc = info.location().map(|l| format!("{}:{}", l.file(), l.line())).unwrap_or_default();
        LAST_PANIC.with(|p| *p.borrow_mut() = Some(PanicInfo { msg, loc }));
    }));
}

/// Runs `f`, returning `Err` with the panic message and location if it unwound.
pub fn catch<T>(f: impl FnOnce() -> T) -> Result<T, PanicInfo> {
    LAST_PANIC.with(|p| *p.borrow_mut() = None);
    match panic::catch_unwind(AssertUnwindSafe(f)) {
        Ok(v) => Ok(v),
        Err(_) => Err(LAST_PANIC.with(|p| p.borrow_mut().take()).unwrap_or(PanicInfo {
            msg: "<unknown>".into(),
            loc: String::new(),
        })),
    }
}

/// Path of a panic location relative to the repository (so signatures do not depend on where the tree lives).
pub fn short_loc(loc: &str) -> String {
    for marker in ["/libs/", "/src/"] {
        if let Some(i) = loc.rfind(marker) {
            return loc[i + 1..].to_string();
        }
    }
    loc.to_string()
}

// ------------------------------------------------------------------------------------------------
// Run context, reports, violations

#[derive(Clone, Copy, Debug, PartialEq, Eq)]
pub enum Tier {
    Quick,
    Thorough,
}

#[derive(Clone, Debug)]
pub struct Ctx {
    pub prop: String,
    pub tier: Tier,
    pub seed: u64,
    pub threads: usize,
    pub verif_dir: String,
    pub miri: bool,
    pub scale: f64,
}

impl Ctx {
    pub fn quick(&self) -> bool {
        self.tier == Tier::Quick
    }
    /// Picks the per-tier size, scaled by VERIF_SCALE (used by sanitizer legs to shrink workloads).
    pub fn size(&self, quick: u64, thorough: u64) -> u64 {
        let n = if self.quick() { quick } else { thorough };
        ((n as f64 * self.scale) as u64).max(1)
    }
    pub fn rng(&self, label: &str, index: u64) -> Rng {
        Rng::derive(self.seed, &format!("{}/{}", self.prop, label), index)
    }
}

#[derive(Clone, Debug)]
pub struct Violation {
    /// Name of the monitor that fired.
    pub monitor: String,
    /// First differing observable (used for de-duplication).
    pub class: String,
    /// `class:input` — canonical signature of what failed on which input (known-finding matching).
    pub signature: String,
    /// One-line human description.
    pub what: String,
    /// The concrete case, expected and observed values.
    pub detail: J,
}

const DISTINCT_CAP: usize = 1 << 21;
const SAMPLE_CAP: usize = 8;
const VIOLATION_CAP: usize = 64;

/// Per-worker monitor output; merged after the workers join.
#[derive(Default, Debug)]
pub struct Report {
    pub evaluations: u64,
    distinct: HashSet<u64>,
    distinct_saturated: bool,
    pub counters: BTreeMap<String, u64>,
    pub mins: BTreeMap<String, f64>,
    pub maxs: BTreeMap<String, f64>,
    pub sets: BTreeMap<String, HashSet<u64>>,
    pub samples: Vec<J>,
    next_sample_at: u64,
    pub violations: Vec<Violation>,
    pub known_hits: BTreeMap<String, String>,
    pub notes: BTreeMap<String, J>,
}

/// One entry of /verif/known_findings.json ("findings" list), restricted to the property being run.
#[derive(Clone, Debug)]
pub struct Known {
    pub monitor: String,
    pub signature: String,
    pub what: String,
}

pub static KNOWN: std::sync::OnceLock<Vec<Known>> = std::sync::OnceLock::new();

impl Report {
    pub fn new() -> Report {
        Report::default()
    }
    /// Records one executed case. `nontrivial_key` is `Some(content hash)` when the case satisfies the
    /// property's non-triviality rule.
    pub fn case(&mut self, nontrivial_key: Option<u64>) {
        self.evaluations += 1;
        if let Some(k) = nontrivial_key {
            if self.distinct.len() < DISTINCT_CAP {
                self.distinct.insert(k);
            } else {
                self.distinct_saturated = true;
            }
        }
    }
    pub fn count(&mut self, key: &str) {
        self.add(key, 1);
    }
    pub fn add(&mut self, key: &str, n: u64) {
        if let Some(c) = self.counters.get_mut(key) {
            *c += n;
        } else {
            self.counters.insert(key.to_string(), n);
        }
    }
    pub fn get(&self, key: &str) -> u64 {
        self.counters.get(key).copied().unwrap_or(0)
    }
    pub fn min(&mut self, key: &str, v: f64) {
        let e = self.mins.entry(key.to_string()).or_insert(f64::INFINITY);
        if v < *e {
            *e = v;
        }
    }
    pub fn max(&mut self, key: &str, v: f64) {
        let e = self.maxs.entry(key.to_string()).or_insert(f64::NEG_INFINITY);
        if v > *e {
            *e = v;
        }
    }
    /// Adds an element to a named set (distinct states, conversations, request sizes …).
    pub fn seen(&mut self, set: &str, key: u64) {
        if let Some(s) = self.sets.get_mut(set) {
            if s.len() < DISTINCT_CAP {
                s.insert(key);
            }
        } else {
            let mut s = HashSet::new();
            s.insert(key);
            self.sets.insert(set.to_string(), s);
        }
    }
    pub fn set_len(&self, set: &str) -> u64 {
        self.sets.get(set).map(|s| s.len() as u64).unwrap_or(0)
    }
    /// Keeps a few samples spread (exponentially) over the run rather than the first few cases.
    pub fn sample(&mut self, j: impl FnOnce() -> J) {
        if self.wants_sample() {
            self.samples.push(j());
            self.next_sample_at = self.evaluations * 3 + 1;
        }
    }
    pub fn wants_sample(&self) -> bool {
        self.samples.len() < SAMPLE_CAP && self.evaluations >= self.next_sample_at
    }
    /// Unconditional sample (for workloads with few, hand-picked cases).
    pub fn sample_always(&mut self, j: J) {
        if self.samples.len() < SAMPLE_CAP * 2 {
            self.samples.push(j);
        }
    }
    /// Records a violation. `class` names the first differing observable; `input` canonically identifies the
    /// failing input / history. The signature `class:input` is what known findings are matched on; at most
    /// three violations per (monitor, class) are kept so one defect does not flood the report.
    pub fn violation(&mut self, monitor: &str, class: &str, input: &str, what: String, detail: J) {
        let signature = format!("{}:{}", class, input);
        // Known findings are set aside *before* the per-class cap, so that a listed finding can never
        // crowd out a different violation of the same class.
        if let Some(k) = KNOWN.get().and_then(|ks| ks.iter().find(|k| k.monitor == monitor && k.signature == signature)) {
            self.count(&format!("known_finding_hits/{}/{}", monitor, class));
            self.known_hits.insert(format!("{}: {}", monitor, signature), k.what.clone());
            return;
        }
        self.count(&format!("violations_raised/{}/{}", monitor, class));
        let same_class = self.violations.iter().filter(|v| v.monitor == monitor && v.class == class).count();
        if self.violations.len() < VIOLATION_CAP && same_class < 3 && !self.violations.iter().any(|v| v.monitor == monitor && v.signature == signature) {
            self.violations.push(Violation {
                monitor: monitor.to_string(),
                class: class.to_string(),
                signature,
                what,
                detail,
            });
        }
    }
    /// False once three violations of this (monitor, class) are kept: callers can then skip expensive work
    /// (shrinking a witness) for further occurrences, which would be dropped anyway.
    pub fn wants_violation(&self, monitor: &str, class: &str) -> bool {
        self.violations.iter().filter(|v| v.monitor == monitor && v.class == class).count() < 3
    }
    pub fn violations_total(&self) -> usize {
        self.violations.len()
    }
    pub fn note(&mut self, key: &str, v: J) {
        self.notes.insert(key.to_string(), v);
    }
    pub fn merge(&mut self, other: Report) {
        self.evaluations += other.evaluations;
        self.distinct_saturated |= other.distinct_saturated;
        for k in other.distinct {
            if self.distinct.len() < DISTINCT_CAP * 4 {
                self.distinct.insert(k);
            } else {
                self.distinct_saturated = true;
            }
        }
        for (k, v) in other.counters {
            *self.counters.entry(k).or_insert(0) += v;
        }
        for (k, v) in other.mins {
            let e = self.mins.entry(k).or_insert(f64::INFINITY);
            if v < *e {
                *e = v;
            }
        }
        for (k, v) in other.maxs {
            let e = self.maxs.entry(k).or_insert(f64::NEG_INFINITY);
            if v > *e {
                *e = v;
            }
        }
        for (k, v) in other.sets {
            let e = self.sets.entry(k).or_default();
            for x in v {
                if e.len() < DISTINCT_CAP * 4 {
                    e.insert(x);
                }
            }
        }
        // interleave so that the merged list draws from every worker
        let mut theirs = other.samples.into_iter();
        let mut merged = Vec::new();
        let mut mine = std::mem::take(&mut self.samples).into_iter();
        loop {
            let a = mine.next();
            let b = theirs.next();
            if a.is_none() && b.is_none() {
                break;
            }
            merged.extend(a);
            merged.extend(b);
        }
        self.samples = merged;
        for v in other.violations {
            let same_class = self.violations.iter().filter(|w| w.monitor == v.monitor && w.class == v.class).count();
            if self.violations.len() < VIOLATION_CAP && same_class < 3 && !self.violations.iter().any(|w| w.monitor == v.monitor && w.signature == v.signature) {
                self.violations.push(v);
            }
        }
        for (k, v) in other.notes {
            self.notes.insert(k, v);
        }
        for (k, v) in other.known_hits {
            self.known_hits.insert(k, v);
        }
    }
    pub fn distinct_nontrivial(&self) -> u64 {
        self.distinct.len() as u64
    }
    pub fn distinct_saturated(&self) -> bool {
        self.distinct_saturated
    }
}

/// Runs `n_shards` work items on `ctx.threads` workers; each shard gets its own `Report`; returns the merge.
pub fn run_sharded<F>(ctx: &Ctx, n_shards: usize, f: F) -> Report
where
    F: Fn(usize, &mut Report) + Sync,
{
    run_sharded_on(ctx.threads, n_shards, f)
}

static STARTED: std::sync::OnceLock<(std::time::Instant, u64)> = std::sync::OnceLock::new();

/// Called once by main: when the run started and after how many seconds workloads should wind down.
pub fn set_soft_deadline(seconds: u64) {
    let _ = STARTED.set((std::time::Instant::now(), seconds));
}

/// True once the run has used up its soft time budget (well before the driver's watchdog): shards not yet started are
/// skipped and long loops stop, so that what HAS been observed — violations first of all — is still reported instead of
/// being lost to the watchdog. A run that stopped early is inconclusive (a coverage floor fails), never "held".
pub fn soft_deadline_passed() -> bool {
    match STARTED.get() {
        Some((t0, secs)) => t0.elapsed().as_secs() >= *secs,
        None => false,
    }
}

/// Same, with an explicit worker count (workloads that mostly sleep use more workers than cores).
pub fn run_sharded_on<F>(threads: usize, n_shards: usize, f: F) -> Report
where
    F: Fn(usize, &mut Report) + Sync,
{
    let next = AtomicUsize::new(0);
    let merged = Mutex::new(Report::new());
    let workers = threads.min(n_shards).max(1);
    std::thread::scope(|s| {
        for _ in 0..workers {
            s.spawn(|| {
                let mut local = Report::new();
                loop {
                    let i = next.fetch_add(1, Ordering::Relaxed);
                    if i >= n_shards {
                        break;
                    }
                    if soft_deadline_passed() {
                        local.count("shards_skipped_at_the_soft_deadline");
                        continue;
                    }
                    // A panic escaping a shard is a harness error for that shard; it is recorded and
                    // turned into an inconclusive run by the driver (never a violation).
                    if let Err(p) = catch(|| f(i, &mut local)) {
                        local.count("harness_panics");
                        local.note("harness_panic", J::s(format!("shard {}: {} at {}", i, p.msg, p.loc)));
                    }
                }
                merged.lock().unwrap().merge(local);
            });
        }
    });
    merged.into_inner().unwrap()
}

/// A coverage floor: the run is inconclusive if `ok` is false.
#[derive(Clone, Debug)]
pub struct Floor {
    pub name: String,
    pub ok: bool,
    pub observed: String,
}

pub fn floor(name: &str, ok: bool, observed: impl std::fmt::Display) -> Floor {
    Floor {
        name: name.to_string(),
        ok,
        observed: observed.to_string(),
    }
}

pub struct Outcome {
    pub report: Report,
    pub level: &'static str,
    pub rule: String,
    pub exhaustive: bool,
    pub floors: Vec<Floor>,
    pub assumptions: Vec<String>,
    pub extra: Vec<(String, J)>,
}

pub fn now() -> Instant {
    Instant::now()
}

// ------------------------------------------------------------------------------------------------
// Log sink. The library logs through the `log` facade; its macros evaluate their arguments only when the global level
// admits the record, so code inside a log statement runs or not depending on the process's log level. Checks run with
// a Trace-level sink that formats every record (Display paths executed, side effects of arguments happen) unless
// FDMON_LOG=off (the thorough tier's second leg).

pub static LOG_RECORDS: std::sync::atomic::AtomicU64 = std::sync::atomic::AtomicU64::new(0);
pub static LOG_BYTES: std::sync::atomic::AtomicU64 = std::sync::atomic::AtomicU64::new(0);
static LOGGING_ON: std::sync::atomic::AtomicBool = std::sync::atomic::AtomicBool::new(false);
/// how often the logger used the library itself, and how often what it did there went wrong (see `Sink::log`)
/// how often the background thread moved the process's log level (see `install_log_sink`)
static ENABLED_SAYS: std::sync::atomic::AtomicBool = std::sync::atomic::AtomicBool::new(true);
pub static LEVEL_CHANGES: std::sync::atomic::AtomicU64 = std::sync::atomic::AtomicU64::new(0);
pub static LOGGER_REENTRIES: std::sync::atomic::AtomicU64 = std::sync::atomic::AtomicU64::new(0);
pub static LOGGER_TROUBLE: std::sync::atomic::AtomicU64 = std::sync::atomic::AtomicU64::new(0);
thread_local! {
    static LOGGER_STATE: std::cell::Cell<(bool, u64)> = const { std::cell::Cell::new((false, 0)) };
}

struct Sink;

struct CountWriter(u64);

impl std::fmt::Write for CountWriter {
    fn write_str(&mut self, s: &str) -> std::fmt::Result {
        self.0 += s.len() as u64;
        Ok(())
    }
}

impl log::Log for Sink {
    fn enabled(&self, _: &log::Metadata<'_>) -> bool {
        // what `log_enabled!` reports is the LOGGER's business (a logger may decline a target or a level that the global
        // maximum admits, and the other way round); the rotor thread flips this answer independently of the level
        ENABLED_SAYS.load(Ordering::Relaxed)
    }
    fn log(&self, record: &log::Record<'_>) {
        let mut w = CountWriter(0);
        let _ = std::fmt::write(&mut w, *record.args());
        LOG_RECORDS.fetch_add(1, Ordering::Relaxed);
        LOG_BYTES.fetch_add(w.0, Ordering::Relaxed);
        // A logger is application code, and an application's logger may itself USE THE LIBRARY (one that mirrors its log to
        // a sign does): every 32nd record of a thread, this one configures a virtual sign of its own with another type's
        // block, encodes and decodes a frame, converts a message and draws on a page — while the library call that logged
        // is still in progress on this thread.
        LOGGER_STATE.with(|st| {
            let (busy, n) = st.get();
            if busy {
                return;
            }
            st.set((false, n.wrapping_add(1)));
            if n % 32 != 31 {
                return;
            }
            st.set((true, n.wrapping_add(1)));
            let k = (n / 32) as usize;
            let r = std::panic::catch_unwind(|| {
                use flipdot_core::{Address, Data, Frame, Message, MsgType, Offset, Operation, Page, PageId};
                let ty = crate::refs::TYPES[k % crate::refs::TYPES.len()].ty;
                let mut sign = flipdot_testing::VirtualSign::new(Address(0x0066), flipdot::PageFlipStyle::Manual);
                let _ = sign.process_message(&Message::RequestOperation(Address(0x0066), Operation::ReceiveConfig));
                let _ = sign.process_message(&Message::SendData(Offset(0), Data::try_new(ty.to_bytes().to_vec()).expect("16 bytes")));
                let _ = sign.process_message(&Message::DataChunksSent(flipdot_core::ChunkCount(1)));
                let ok_type = sign.sign_type() == Some(ty);
                let f = Frame::new(Address(0x6600 | (k as u16 & 0xFF)), MsgType(0), Data::try_new(vec![k as u8; k % 20]).expect("<=255"));
                let ok_frame = Frame::from_bytes(&f.to_bytes_with_newline()).map(|g| g == f).unwrap_or(false) && Frame::from(Message::from(f.clone())) == f;
                let mut p = Page::new(PageId(k as u8), 9 + (k % 7) as u32, 3 + (k % 19) as u32);
                p.set_pixel(k as u32 % 9, k as u32 % 3, true);
                let ok_page = p.get_pixel(k as u32 % 9, k as u32 % 3);
                ok_type && ok_frame && ok_page
            });
            LOGGER_REENTRIES.fetch_add(1, Ordering::Relaxed);
            if !matches!(r, Ok(true)) {
                LOGGER_TROUBLE.fetch_add(1, Ordering::Relaxed);
            }
            st.set((false, n.wrapping_add(1)));
        });
    }
    fn flush(&self) {}
}

static SINK: Sink = Sink;

pub fn install_log_sink() {
    if log::set_logger(&SINK).is_ok() {
        log::set_max_level(log::LevelFilter::Trace);
        LOGGING_ON.store(true, Ordering::Relaxed);
        // The process's log level is part of the environment too (a `log` macro evaluates its arguments only for records the
        // level admits, and `log_enabled!` branches on it), and an application may run at ANY level. A background thread
        // moves the level through all of them while the workloads run — Trace half of the time, the others in turn, a few
        // milliseconds each. Correct code behaves alike at every level, so this can never raise a false alarm; what a
        // level-dependent defect needs is for some workload to meet its level, which over millions of calls it does.
        std::thread::spawn(|| {
            let levels = [log::LevelFilter::Debug, log::LevelFilter::Info, log::LevelFilter::Warn, log::LevelFilter::Error, log::LevelFilter::Off];
            let mut k = 0usize;
            loop {
                log::set_max_level(log::LevelFilter::Trace);
                ENABLED_SAYS.store(k % 4 != 2, Ordering::Relaxed);
                std::thread::sleep(std::time::Duration::from_millis(6));
                log::set_max_level(levels[k % levels.len()]);
                ENABLED_SAYS.store(k % 3 != 1, Ordering::Relaxed);
                LEVEL_CHANGES.fetch_add(1, Ordering::Relaxed);
                k += 1;
                std::thread::sleep(std::time::Duration::from_millis(if k % 5 == 2 { 9 } else { 4 }));
            }
        });
    }
}

pub fn logging_on() -> bool {
    LOGGING_ON.load(Ordering::Relaxed)
}
