//! C19 — sign-type configuration blocks are self-consistent and decoding them is total.

use flipdot_core::{SignType, SignTypeError};

use crate::refs::{self, *};
use crate::util::{Ctx, J, Outcome, Report, catch, floor, fnv, hex, run_sharded, short_loc};
use crate::vsx::{self, Pair};

const MON_T: &str = "type_block_consistency";
const MON_D: &str = "type_decode_total";

fn ceil8(h: u32) -> u32 {
    8 * ((h + 7) / 8)
}

/// Field arithmetic of a 16-byte block against reported dimensions (documented layout).
fn block_vs_dims(b: &[u8], w: u32, h: u32) -> Vec<(&'static str, String)> {
    let mut bad = vec![];
    if b.len() != 16 {
        bad.push(("block_length", format!("block has {} bytes", b.len())));
        return bad;
    }
    match b[0] {
        4 => {
            if u32::from(b[4]) != h {
                bad.push(("height_field", format!("height byte {} vs dimensions height {}", b[4], h)));
            }
            let sum: u32 = b[5..9].iter().map(|&x| u32::from(x)).sum();
            if sum != w {
                bad.push(("width_field", format!("panel widths {:?} sum to {} vs dimensions width {}", &b[5..9], sum, w)));
            }
            if u32::from(b[9]) != ceil8(h) {
                bad.push(("bits_per_column_field", format!("bits-per-column byte {} vs {} for height {}", b[9], ceil8(h), h)));
            }
        }
        8 => {
            if u32::from(b[5]) != h {
                bad.push(("height_field", format!("height byte {} vs dimensions height {}", b[5], h)));
            }
            if u32::from(b[7]) != w {
                bad.push(("width_field", format!("width byte {} vs dimensions width {}", b[7], w)));
            }
            let prod = u32::from(b[8]) * u32::from(b[10]) + u32::from(b[9]) * u32::from(b[11]);
            if prod != u32::from(b[7]) {
                bad.push(("panel_product_field", format!("A1*B1 + A2*B2 = {}*{} + {}*{} = {} vs width byte {}", b[8], b[10], b[9], b[11], prod, b[7])));
            }
        }
        f => bad.push(("family_field", format!("family byte {}", f))),
    }
    bad
}

/// Everything the statement says about one supported type.
fn check_type(ty: SignType, name: &str, expect: Option<(u8, u8, u32, u32)>, rep: &mut Report) {
    rep.case(Some(fnv(name.as_bytes())));
    let r = catch(|| {
        let mut bad: Vec<(&'static str, String)> = vec![];
        let block = ty.to_bytes().to_vec();
        let (w, h) = ty.dimensions();
        if block.len() != 16 {
            bad.push(("block_length", format!("to_bytes() has {} bytes", block.len())));
            return (bad, block, w, h);
        }
        match SignType::from_bytes(&block) {
            Ok(t) if t == ty => {}
            other => bad.push(("roundtrip", format!("from_bytes(to_bytes()) = {:?}", other))),
        }
        bad.extend(block_vs_dims(&block, w, h));
        if let Some((family, id, ew, eh)) = expect {
            if block[0] != family || block[1] != id {
                bad.push(("family_id", format!("block starts {:02X} {:02X}, the harness lists {:02X} {:02X}", block[0], block[1], family, id)));
            }
            if (w, h) != (ew, eh) {
                bad.push(("dimensions", format!("dimensions() = {}x{}, the harness lists {}x{}", w, h, ew, eh)));
            }
        }
        (bad, block, w, h)
    });
    let (bad, block, w, h) = match r {
        Ok(x) => x,
        Err(p) => {
            rep.violation(MON_T, "panic", name, format!("{}: panic {} at {}", name, p.msg, short_loc(&p.loc)), J::Null);
            return;
        }
    };
    for (cls, what) in bad {
        rep.violation(MON_T, cls, name, format!("{}: {}", name, what), J::obj(vec![("type", J::s(name)), ("block", J::hex(&block)), ("dimensions", J::s(format!("{}x{}", w, h))), ("observed", J::s(what.clone()))]));
    }
    // the virtual sign as downstream consumer: configured with the block (raw messages) it must store a page of
    // exactly dimensions() and refuse the neighbouring sizes
    if block.len() == 16 {
        let own = 0x0021u16;
        for (dw, dh, should_store) in [(0i64, 0i64, true), (1, 0, false), (-1, 0, false), (0, 8, false), (0, -8, false)] {
            let (pw, ph) = ((i64::from(w) + dw).max(0) as u32, (i64::from(h) + dh).max(0) as u32);
            if refs::padded_len(pw, ph) == refs::padded_len(w, h) && !should_store {
                continue; // same byte length: indistinguishable on the wire
            }
            let mut pair = Pair::new(own, false);
            let mut msgs = vsx::configure_msgs(own, &block);
            let img = RefPage::new(7, pw, ph).image();
            msgs.push(RefMsg::Request(own, O_RECV_PIX));
            let mut n = 0u16;
            for (i, c) in img.chunks(16).enumerate() {
                msgs.push(RefMsg::Data { offset: (i * 16) as u16, data: c.to_vec() });
                n += 1;
            }
            msgs.push(RefMsg::Count(n));
            let mut panicked = None;
            for m in &msgs {
                let out = vsx::step(&mut pair, m);
                if let Some(p) = out.panic {
                    panicked = Some(p);
                    break;
                }
            }
            rep.count("virtual_sign_configurations");
            let what = if let Some(p) = panicked {
                Some(format!("virtual sign panicked: {} at {}", p.msg, short_loc(&p.loc)))
            } else {
                let pages = pair.sign.pages();
                let stored = pages.len() == 1 && pages[0].width() == w && pages[0].height() == h && pages[0].as_bytes() == &img[..];
                let ty_ok = pair.sign.sign_type() == Some(ty);
                if !ty_ok {
                    Some(format!("virtual sign records type {:?} after being configured with the block", pair.sign.sign_type()))
                } else if should_store && !stored {
                    Some(format!("virtual sign did not store a {}x{} page ({} pages held)", w, h, pages.len()))
                } else if !should_store && !pages.is_empty() {
                    Some(format!("virtual sign stored a page of the neighbouring size {}x{}", pw, ph))
                } else {
                    None
                }
            };
            if let Some(what) = what {
                rep.violation(MON_T, "virtual_sign_disagrees", &format!("{}:{}x{}", name, pw, ph), format!("{}: {}", name, what), J::obj(vec![("type", J::s(name)), ("block", J::hex(&block)), ("page_sent", J::s(format!("{}x{}", pw, ph))), ("observed", J::s(what.clone()))]));
            }
        }
    }
    // ... and the same when the sign was first (unsuccessfully) configured as ANOTHER type, or got two blocks in one
    // transfer: the dimensions must be those of the LAST accepted block
    if block.len() == 16 {
        let own = 0x0021u16;
        for other in TYPES.iter().filter(|o| o.ty != ty) {
            for variant in 0..2 {
                let ob = other.ty.to_bytes().to_vec();
                let mut msgs = vec![RefMsg::Request(own, O_RECV_CFG), RefMsg::Data { offset: 0, data: ob }];
                if variant == 0 {
                    // failed transfer (wrong count), then a retry straight from ConfigFailed with this type's block
                    msgs.push(RefMsg::Count(2));
                    msgs.push(RefMsg::Request(own, O_RECV_CFG));
                    msgs.push(RefMsg::Data { offset: 0, data: block.clone() });
                    msgs.push(RefMsg::Count(1));
                } else {
                    msgs.push(RefMsg::Data { offset: 0, data: block.clone() });
                    msgs.push(RefMsg::Count(2));
                }
                let img = RefPage::new(9, w, h).image();
                msgs.push(RefMsg::Request(own, O_RECV_PIX));
                let mut n = 0u16;
                for (i, c) in img.chunks(16).enumerate() {
                    msgs.push(RefMsg::Data { offset: (i * 16) as u16, data: c.to_vec() });
                    n += 1;
                }
                msgs.push(RefMsg::Count(n));
                let mut pair = Pair::new(own, variant == 1);
                let mut panicked = false;
                for m in &msgs {
                    if vsx::step(&mut pair, m).panic.is_some() {
                        panicked = true;
                        break;
                    }
                }
                rep.count("virtual_sign_reconfigurations");
                let pages = pair.sign.pages();
                let ok = !panicked && pair.sign.sign_type() == Some(ty) && pages.len() == 1 && pages[0].width() == w && pages[0].height() == h && pages[0].as_bytes() == &img[..];
                if !ok {
                    let what = format!("after {} as {} the virtual sign records type {:?} and holds {} page(s){}", if variant == 0 { "a failed configuration" } else { "an earlier block in the same transfer" }, other.name, pair.sign.sign_type(), pages.len(), if panicked { " (panicked)" } else { "" });
                    rep.violation(MON_T, "virtual_sign_disagrees_after_reconfiguration", &format!("{}<-{}:{}", name, other.name, variant), format!("{}: {}", name, what), J::obj(vec![("type", J::s(name)), ("previous_type", J::s(other.name)), ("history", J::Arr(msgs.iter().take(8).map(|m| J::s(m.show())).collect())), ("observed", J::s(what.clone()))]));
                }
            }
        }
    }
    // ... and a block the decoder REJECTS (this type's block with an id nobody has) that arrives after this type's block
    // leaves the sign without a recorded type: what the sign records is the decoding of the last block, not a memory of
    // an earlier one
    if block.len() == 16 {
        let own = 0x0022u16;
        for bad_id in [0x99u8, 0x00, 0xFF] {
            let mut bad = block.clone();
            bad[1] = bad_id;
            if flipdot_core::SignType::from_bytes(&bad).is_ok() {
                continue; // happens to be another supported type
            }
            for variant in 0..2 {
                let mut msgs = vec![RefMsg::Request(own, O_RECV_CFG), RefMsg::Data { offset: 0, data: block.clone() }];
                if variant == 0 {
                    msgs.push(RefMsg::Count(2));
                    msgs.push(RefMsg::Request(own, O_RECV_CFG));
                    msgs.push(RefMsg::Data { offset: 0, data: bad.clone() });
                    msgs.push(RefMsg::Count(1));
                } else {
                    msgs.push(RefMsg::Data { offset: 0, data: bad.clone() });
                    msgs.push(RefMsg::Count(2));
                }
                let mut pair = Pair::new(own, false);
                let mut panicked = false;
                for m in &msgs {
                    if vsx::step(&mut pair, m).panic.is_some() {
                        panicked = true;
                        break;
                    }
                }
                rep.count("virtual_sign_unsupported_block_after_supported");
                if panicked || pair.sign.sign_type().is_some() {
                    let what = format!("after this type's block and then a block with unsupported id {:02X} ({}), the virtual sign records type {:?}{}", bad_id, if variant == 0 { "retry after a failed transfer" } else { "same transfer" }, pair.sign.sign_type(), if panicked { " (panicked)" } else { "" });
                    rep.violation(MON_T, "virtual_sign_keeps_type_after_unsupported_block", &format!("{}:{:02X}:{}", name, bad_id, variant), format!("{}: {}", name, what), J::obj(vec![("type", J::s(name)), ("unsupported_block", J::hex(&bad)), ("history", J::Arr(msgs.iter().map(|m| J::s(m.show())).collect())), ("observed", J::s(what.clone()))]));
                }
            }
        }
    }
    // ... and a block of the SAME family and id whose size bytes are off (it decodes to the same type: only the first two
    // bytes decide that) followed, without a reset, by the genuine block: what counts is the last block — the sign reports
    // this type AND stores pages of this type's size
    // ... and the block is accepted whatever the sign has been through before: transfers that were opened and left with a
    // goodbye (after one or two counted chunks, after a count that failed), a reset handshake, pages — then the
    // configuration, a page of the type's size and a query, the reference sign deciding at every message
    if block.len() == 16 && w > 0 && h > 0 {
        let own = 0x0026u16;
        let pasts: Vec<Vec<RefMsg>> = vec![
            vec![RefMsg::Request(own, O_RECV_CFG), RefMsg::Data { offset: 0, data: block.clone() }, RefMsg::Goodbye(own)],
            vec![RefMsg::Request(own, O_RECV_CFG), RefMsg::Data { offset: 0, data: block.clone() }, RefMsg::Data { offset: 0, data: block.clone() }, RefMsg::Goodbye(own)],
            vec![RefMsg::Request(own, O_RECV_CFG), RefMsg::Data { offset: 0, data: block.clone() }, RefMsg::Count(2), RefMsg::Goodbye(own)],
            vec![RefMsg::Request(own, O_RECV_CFG), RefMsg::Data { offset: 0, data: block.clone() }, RefMsg::Count(1), RefMsg::Request(own, O_RECV_PIX), RefMsg::Data { offset: 0, data: vec![7; 16] }, RefMsg::Data { offset: 16, data: vec![7; 16] }, RefMsg::Goodbye(own)],
            vec![RefMsg::Request(own, O_RECV_CFG), RefMsg::Data { offset: 0, data: block.clone() }, RefMsg::Request(own, O_START_RESET), RefMsg::Request(own, O_FINISH_RESET)],
            vec![RefMsg::Request(own, O_RECV_CFG), RefMsg::Data { offset: 0, data: block.clone() }, RefMsg::Count(1), RefMsg::Request(own, O_RECV_PIX), RefMsg::Data { offset: 0, data: vec![7; 16] }, RefMsg::Request(own, O_START_RESET), RefMsg::Request(own, O_FINISH_RESET)],
        ];
        let img = RefPage::new(9, w, h).image();
        for (pi, past) in pasts.iter().enumerate() {
            for auto in [false, true] {
                let mut msgs = past.clone();
                msgs.extend([RefMsg::Hello(own), RefMsg::Request(own, O_RECV_CFG), RefMsg::Data { offset: 0, data: block.clone() }, RefMsg::Count(1), RefMsg::Query(own), RefMsg::Request(own, O_RECV_PIX)]);
                msgs.extend(img.chunks(16).enumerate().map(|(i, c)| RefMsg::Data { offset: (i * 16) as u16, data: c.to_vec() }));
                msgs.extend([RefMsg::Count(img.len().div_ceil(16) as u16), RefMsg::Query(own), RefMsg::Complete(own), RefMsg::Query(own)]);
                let mut pair = Pair::new(own, auto);
                for (k, m) in msgs.iter().enumerate() {
                    let out = vsx::step(&mut pair, m);
                    let trouble = if out.panic.is_some() { Some("panicked".to_string()) } else { out.diffs.first().map(|(cls, d)| format!("{}: {}", cls, d)) };
                    if let Some(t) = trouble {
                        let what = format!("past #{} ({}), then the configuration: at message #{} ({}): {}", pi, past.iter().map(|m| m.show().chars().take(14).collect::<String>()).collect::<Vec<_>>().join(" "), k, m.show().chars().take(30).collect::<String>(), t);
                        rep.violation(MON_T, "virtual_sign_refuses_the_block_after_a_past", &format!("{}:past{}:{}", name, pi, auto), format!("{}: {}", name, what), J::obj(vec![("type", J::s(name)), ("past", J::Arr(past.iter().map(|m| J::s(m.show())).collect())), ("observed", J::s(what.clone()))]));
                        break;
                    }
                }
                rep.count("virtual_sign_configured_after_a_past");
            }
        }
    }
    if block.len() == 16 && w > 0 && h > 0 {
        let own = 0x0025u16;
        let img = RefPage::new(6, w, h).image();
        for tweak in 0..5usize {
            let mut off = block.clone();
            match (block[0], tweak) {
                // the panel widths moved to the LAST two slots (the first two empty), and to the second and fourth
                (4, 3) => {
                    off[7] = block[5];
                    off[8] = block[6];
                    off[5] = 0;
                    off[6] = 0;
                }
                (4, 4) => {
                    off[8] = block[5];
                    off[5] = 0;
                }
                (_, 3) => off[7] = 0,
                (_, 4) => continue,
                (4, 0) => off[5] = off[5].wrapping_add(1),
                (4, 1) => off[4] = off[4].wrapping_add(8),
                (4, _) => off[7] = 0,
                (_, 0) => off[7] = off[7].wrapping_add(1),
                (_, 1) => off[5] = off[5].wrapping_add(8),
                (_, _) => off[7] = off[7] / 2,
            }
            if off == block {
                continue;
            }
            // ... and the off-size block ALONE: the sign takes its size from the block's size fields (the sum of the four panel
            // widths / the width byte, and the height), whatever the type's own size is, and stores pages of that size
            // (a page of the GENUINE size after the off-size block alone: whether it is kept is for the reference machine to say)
            {
                let gimg = RefPage::new(8, w, h).image();
                let mut msgs = vec![RefMsg::Request(own, O_RECV_CFG), RefMsg::Data { offset: 0, data: off.clone() }, RefMsg::Count(1), RefMsg::Query(own), RefMsg::Request(own, O_RECV_PIX)];
                msgs.extend(gimg.chunks(16).enumerate().map(|(i, c)| RefMsg::Data { offset: (i * 16) as u16, data: c.to_vec() }));
                msgs.push(RefMsg::Count(gimg.len().div_ceil(16) as u16));
                msgs.push(RefMsg::Query(own));
                let mut pair = Pair::new(own, false);
                for m in &msgs {
                    let out = vsx::step(&mut pair, m);
                    let trouble = if out.panic.is_some() { Some("panicked".to_string()) } else { out.diffs.first().map(|(cls, d)| format!("{}: {}", cls, d)) };
                    if let Some(t) = trouble {
                        let what = format!("configured with a block of this family and id whose size fields were changed, then sent a page of the type's own size: {}", t);
                        rep.violation(MON_T, "virtual_sign_misreads_the_size_fields", &format!("{}:{}:genuine-page", name, tweak), format!("{}: {}", name, what), J::obj(vec![("type", J::s(name)), ("off_size_block", J::hex(&off)), ("observed", J::s(what.clone()))]));
                        break;
                    }
                }
                rep.count("virtual_sign_genuine_page_after_an_off_size_block");
            }
            if let Some((ow, oh)) = refs::block_dims(&off) {
                if ow > 0 && oh > 0 {
                    let oimg = RefPage::new(7, ow, oh).image();
                    let mut msgs = vec![RefMsg::Request(own, O_RECV_CFG), RefMsg::Data { offset: 0, data: off.clone() }, RefMsg::Count(1), RefMsg::Query(own), RefMsg::Request(own, O_RECV_PIX)];
                    msgs.extend(oimg.chunks(16).enumerate().map(|(i, c)| RefMsg::Data { offset: (i * 16) as u16, data: c.to_vec() }));
                    msgs.push(RefMsg::Count(oimg.len().div_ceil(16) as u16));
                    msgs.push(RefMsg::Query(own));
                    let mut pair = Pair::new(own, false);
                    let mut trouble: Option<String> = None;
                    for m in &msgs {
                        let out = vsx::step(&mut pair, m);
                        if out.panic.is_some() {
                            trouble = Some("panicked".into());
                            break;
                        }
                        if let Some((cls, d)) = out.diffs.first() {
                            trouble = Some(format!("{}: {}", cls, d));
                            break;
                        }
                    }
                    rep.count("virtual_sign_off_size_block_alone");
                    let pages = pair.sign.pages();
                    let stored_ok = pages.len() == 1 && pages[0].width() == ow && pages[0].height() == oh && pages[0].as_bytes() == &oimg[..];
                    if trouble.is_some() || !stored_ok {
                        let what = format!("configured with a block of this family and id whose size fields say {} x {}, then sent a page of that size: the virtual sign holds {} page(s) of {:?}{}", ow, oh, pages.len(), pages.first().map(|p| (p.width(), p.height())), trouble.map(|t| format!(" ({})", t)).unwrap_or_default());
                        rep.violation(MON_T, "virtual_sign_misreads_the_size_fields", &format!("{}:{}:alone", name, tweak), format!("{}: {}", name, what), J::obj(vec![("type", J::s(name)), ("off_size_block", J::hex(&off)), ("observed", J::s(what.clone()))]));
                    }
                }
            }
            for variant in 0..2 {
                let mut msgs = vec![RefMsg::Request(own, O_RECV_CFG), RefMsg::Data { offset: 0, data: off.clone() }];
                if variant == 0 {
                    msgs.push(RefMsg::Data { offset: 0, data: block.clone() });
                    msgs.push(RefMsg::Count(2));
                } else {
                    msgs.push(RefMsg::Count(2)); // wrong count: the configuration fails and is tried again
                    msgs.push(RefMsg::Query(own));
                    msgs.push(RefMsg::Request(own, O_RECV_CFG));
                    msgs.push(RefMsg::Data { offset: 0, data: block.clone() });
                    msgs.push(RefMsg::Count(1));
                }
                msgs.push(RefMsg::Query(own));
                msgs.push(RefMsg::Request(own, O_RECV_PIX));
                msgs.extend(img.chunks(16).enumerate().map(|(i, c)| RefMsg::Data { offset: (i * 16) as u16, data: c.to_vec() }));
                msgs.push(RefMsg::Count(img.len().div_ceil(16) as u16));
                msgs.push(RefMsg::Query(own));
                let mut pair = Pair::new(own, false);
                let mut trouble: Option<String> = None;
                for m in &msgs {
                    let out = vsx::step(&mut pair, m);
                    if out.panic.is_some() {
                        trouble = Some("panicked".into());
                        break;
                    }
                    if let Some((cls, d)) = out.diffs.first() {
                        trouble = Some(format!("{}: {}", cls, d));
                        break;
                    }
                }
                rep.count("virtual_sign_off_size_block_before_the_genuine_one");
                let pages = pair.sign.pages();
                let stored_ok = pages.len() == 1 && pages[0].width() == w && pages[0].height() == h && pages[0].as_bytes() == &img[..];
                if trouble.is_some() || pair.sign.sign_type() != Some(ty) || !stored_ok {
                    let what = format!("after a block of this family and id with other size bytes and then the genuine block ({}), the virtual sign records type {:?} and holds {} page(s) of {:?}{}", if variant == 0 { "same transfer" } else { "retry after a failed configuration" }, pair.sign.sign_type(), pages.len(), pages.first().map(|p| (p.width(), p.height())), trouble.map(|t| format!(" ({})", t)).unwrap_or_default());
                    rep.violation(MON_T, "virtual_sign_keeps_dimensions_of_an_earlier_block", &format!("{}:{}:{}", name, tweak, variant), format!("{}: {}", name, what), J::obj(vec![("type", J::s(name)), ("off_size_block", J::hex(&off)), ("history", J::Arr(msgs.iter().take(9).map(|m| J::s(m.show())).collect())), ("observed", J::s(what.clone()))]));
                }
            }
        }
    }
    // ... whereas a 16-byte chunk the sign does NOT TAKE for a configuration block at all (its first byte is neither of the
    // two families: noise on the bus, a damaged copy of the block) changes nothing: the sign goes on to report this type
    // and this type's dimensions — in the same transfer (count 1: the chunk was not counted) and on a retry
    if block.len() == 16 {
        let own = 0x0024u16;
        for other_family in [0xA1u8, 0x00, 0x0F, 0xFF, 0x05, 0x09, 0x14, block[0] ^ 0x0C] {
            if other_family == 4 || other_family == 8 {
                continue;
            }
            let mut noise = block.clone();
            noise[0] = other_family;
            for variant in 0..2 {
                let mut msgs = vec![RefMsg::Request(own, O_RECV_CFG), RefMsg::Data { offset: 0, data: block.clone() }];
                if variant == 0 {
                    msgs.push(RefMsg::Data { offset: 0, data: noise.clone() });
                    msgs.push(RefMsg::Count(1));
                } else {
                    msgs.push(RefMsg::Count(1));
                    msgs.push(RefMsg::Query(own));
                    msgs.push(RefMsg::Request(own, O_RECV_CFG));
                    msgs.push(RefMsg::Data { offset: 0, data: noise.clone() });
                    msgs.push(RefMsg::Data { offset: 0, data: block.clone() });
                    msgs.push(RefMsg::Data { offset: 0, data: noise.clone() });
                    msgs.push(RefMsg::Count(1));
                }
                msgs.push(RefMsg::Query(own));
                let mut pair = Pair::new(own, false);
                let mut trouble: Option<String> = None;
                for m in &msgs {
                    let out = vsx::step(&mut pair, m);
                    if out.panic.is_some() {
                        trouble = Some("panicked".into());
                        break;
                    }
                    if let Some((cls, d)) = out.diffs.first() {
                        trouble = Some(format!("{}: {}", cls, d));
                        break;
                    }
                }
                rep.count("virtual_sign_noise_chunk_next_to_the_block");
                if trouble.is_some() || pair.sign.sign_type() != Some(ty) {
                    let what = format!("after this type's block and a 16-byte chunk of family {:02X} next to it ({}), the virtual sign records type {:?}{}", other_family, if variant == 0 { "same transfer" } else { "retry" }, pair.sign.sign_type(), trouble.map(|t| format!(" ({})", t)).unwrap_or_default());
                    rep.violation(MON_T, "virtual_sign_loses_type_to_a_chunk_it_does_not_take", &format!("{}:{:02X}:{}", name, other_family, variant), format!("{}: {}", name, what), J::obj(vec![("type", J::s(name)), ("noise_chunk", J::hex(&noise)), ("history", J::Arr(msgs.iter().map(|m| J::s(m.show())).collect())), ("observed", J::s(what.clone()))]));
                }
            }
        }
    }
    // ... and what the sign derived from the block stays put through whatever happens to PIXEL transfers afterwards
    // (a lost chunk, a wrong count, an abandoned transfer, page flips): same type, and the repeat stores a full page
    if block.len() == 16 {
        let own = 0x0023u16;
        let img = RefPage::new(5, w, h).image();
        let chunks: Vec<RefMsg> = img.chunks(16).enumerate().map(|(i, c)| RefMsg::Data { offset: (i * 16) as u16, data: c.to_vec() }).collect();
        let n = chunks.len() as u16;
        for variant in 0..4 {
            let mut msgs = vsx::configure_msgs(own, &block);
            msgs.push(RefMsg::Request(own, O_RECV_PIX));
            match variant {
                0 => {
                    msgs.extend(chunks.iter().skip(1).cloned()); // first chunk lost
                    msgs.push(RefMsg::Count(n));
                }
                1 => {
                    msgs.extend(chunks.iter().cloned());
                    msgs.push(RefMsg::Count(n.wrapping_add(1))); // wrong count
                }
                2 => {
                    msgs.extend(chunks.iter().take(1).cloned()); // abandoned, then asked again
                }
                _ => {
                    msgs.extend(chunks.iter().cloned());
                    msgs.push(RefMsg::Count(n));
                    msgs.push(RefMsg::Complete(own));
                    msgs.push(RefMsg::Request(own, O_SHOW));
                    msgs.push(RefMsg::Query(own));
                }
            }
            let mut pair = Pair::new(own, variant == 3);
            let mut bad: Option<String> = None;
            for m in &msgs {
                if vsx::step(&mut pair, m).panic.is_some() {
                    bad = Some("panicked".into());
                    break;
                }
            }
            if bad.is_none() && pair.sign.sign_type() != Some(ty) {
                bad = Some(format!("records type {:?} after {}", pair.sign.sign_type(), ["a pixel transfer with a lost chunk", "a pixel transfer with a wrong count", "an abandoned pixel transfer", "a completed transfer and a page flip"][variant]));
            }
            if bad.is_none() {
                // the repeat
                let mut again = vec![RefMsg::Request(own, O_RECV_PIX)];
                again.extend(chunks.iter().cloned());
                again.push(RefMsg::Count(n));
                for m in &again {
                    if vsx::step(&mut pair, m).panic.is_some() {
                        bad = Some("panicked in the repeated transfer".into());
                        break;
                    }
                }
                let pages = pair.sign.pages();
                // (whether the repeat is accepted from where the history left the sign is the state machine's business
                // — C13; here: IF a page was due, it is a full page of this type's size, and the type is still recorded)
                let page_due = pair.model.pages.len() == 1;
                if page_due {
                    rep.count("virtual_sign_repeat_stored_a_page");
                }
                if bad.is_none() && (pair.sign.sign_type() != Some(ty) || (page_due && (pages.len() != 1 || pages[0].width() != w || pages[0].height() != h || pages[0].as_bytes() != &img[..]))) {
                    bad = Some(format!("after the repeated transfer it records type {:?} and holds {} page(s)", pair.sign.sign_type(), pages.len()));
                }
            }
            rep.count("virtual_sign_type_through_pixel_transfers");
            if let Some(what) = bad {
                rep.violation(MON_T, "virtual_sign_loses_type_after_pixel_transfer", &format!("{}:{}", name, variant), format!("{}: the virtual sign {}", name, what), J::obj(vec![("type", J::s(name)), ("history_head", J::Arr(msgs.iter().take(10).map(|m| J::s(m.show())).collect())), ("observed", J::s(what.clone()))]));
            }
        }
    }
    // ... and through the controller: a sign that some controller has configured as ANOTHER type (and left there: no
    // pages, no reset) is then configured by a controller of this type — what it records and stores is this type's
    if block.len() == 16 {
        use std::cell::RefCell;
        use std::rc::Rc;
        let own = 0x0024u16;
        let ti = TYPES.iter().position(|t| t.ty == ty).unwrap();
        for (oi, other) in TYPES.iter().enumerate() {
            if other.ty == ty {
                continue;
            }
            for with_pages in [false, true] {
                let bus = Rc::new(RefCell::new(flipdot_testing::VirtualSignBus::new(vec![flipdot_testing::VirtualSign::new(flipdot::Address(own), flipdot::PageFlipStyle::Manual)])));
                let first = crate::ctl::mk_sign(bus.clone(), own, oi);
                let a = crate::ctl::run_op(&first, &crate::refctl::Op::Configure, &[]);
                if with_pages {
                    let p = crate::ctl::page_from_image(other.w, other.h, RefPage::new(1, other.w, other.h).image());
                    let _ = crate::ctl::run_op(&first, &crate::refctl::Op::SendPages, &[p]);
                }
                drop(first);
                let second = crate::ctl::mk_sign(bus.clone(), own, ti);
                let b = crate::ctl::run_op(&second, &crate::refctl::Op::Configure, &[]);
                let img = RefPage::new(2, w, h).image();
                let c = crate::ctl::run_op(&second, &crate::refctl::Op::SendPages, &[crate::ctl::page_from_image(w, h, img.clone())]);
                drop(second);
                rep.count("controller_reconfigurations");
                let vb = bus.borrow();
                let s = vb.sign(0);
                let pages = s.pages();
                let ok = a.is_ok() && b.is_ok() && c.is_ok() && s.sign_type() == Some(ty) && pages.len() == 1 && pages[0].width() == w && pages[0].height() == h && pages[0].as_bytes() == &img[..];
                if !ok {
                    let what = format!("after Sign({}).configure(){} and then Sign({}).configure() + send_pages: results {} / {} / {}; the virtual sign records type {:?} and holds {} page(s){}", other.name, if with_pages { " + send_pages" } else { "" }, name, a.show(), b.show(), c.show(), s.sign_type(), pages.len(), pages.first().map(|p| format!(" of {}x{}", p.width(), p.height())).unwrap_or_default());
                    rep.violation(MON_T, "virtual_sign_disagrees_after_controller_reconfiguration", &format!("{}<-{}:{}", name, other.name, with_pages), format!("{}: {}", name, what), J::obj(vec![("type", J::s(name)), ("previous_type", J::s(other.name)), ("observed", J::s(what.clone()))]));
                }
            }
        }
    }
    rep.count("types_checked");
    rep.sample_always(J::obj(vec![("type", J::s(name)), ("block", J::hex(&block)), ("dimensions", J::s(format!("{}x{}", w, h)))]));
}

/// Decoding an arbitrary byte string: total, length-strict, accepts exactly the supported (family, id) pairs.
fn check_decode(bytes: &[u8], rep: &mut Report) {
    rep.case(Some(fnv(bytes)));
    if bytes.len() <= 40 {
        rep.seen("lengths", bytes.len() as u64);
    } else {
        rep.seen("long_lengths", bytes.len() as u64);
    }
    let r = catch(|| SignType::from_bytes(bytes).map_err(|e| match e {
        SignTypeError::WrongConfigLength { expected, actual } => format!("WrongConfigLength({},{})", expected, actual),
        SignTypeError::UnknownConfig { bytes: b } => format!("UnknownConfig({})", hex(&b)),
        other => format!("Other({:?})", other),
    }));
    let sig = if bytes.len() <= 64 { hex(bytes) } else { format!("{}..({} bytes)", hex(&bytes[..32]), bytes.len()) };
    let fail = |rep: &mut Report, class: &str, what: String| {
        rep.violation(MON_D, class, &sig, format!("from_bytes({}): {}", sig, what), J::obj(vec![("bytes", J::hex(bytes)), ("observed", J::s(what.clone()))]));
    };
    let res = match r {
        Err(p) => {
            fail(rep, "panic", format!("panic {} at {}", p.msg, short_loc(&p.loc)));
            return;
        }
        Ok(x) => x,
    };
    if bytes.len() != 16 {
        let want = format!("WrongConfigLength(16,{})", bytes.len());
        match res {
            Err(e) if e == want => {}
            other => fail(rep, "wrong_length_not_rejected", format!("{:?}, expected Err({})", other, want)),
        }
        return;
    }
    let listed = refs::lookup_type(bytes[0], bytes[1]);
    match (res, listed) {
        (Ok(t), Some(i)) => {
            rep.count("accepted_listed");
            if t != TYPES[i].ty {
                fail(rep, "accepted_as_wrong_type", format!("decoded as {:?}, the pair {:02X} {:02X} is {}", t, bytes[0], bytes[1], TYPES[i].name));
            }
        }
        (Ok(t), None) => {
            // a type the harness does not list (added upstream?): examine it generically rather than ignore it
            rep.count("accepted_unlisted");
            let block = t.to_bytes();
            let consistent = block.len() == 16 && block[0] == bytes[0] && block[1] == bytes[1] && block_vs_dims(block, t.dimensions().0, t.dimensions().1).is_empty() && matches!(SignType::from_bytes(block), Ok(u) if u == t);
            if consistent {
                // a genuinely new supported type (family/id/dimensions all agree with its own block): not a violation
                rep.count("accepted_unlisted_self_consistent_new_type");
            } else {
                fail(rep, "unlisted_pair_accepted", format!("pair {:02X} {:02X} is not a supported type's pair but decodes as {:?}, whose own block starts {:02X} {:02X}", bytes[0], bytes[1], t, block.first().copied().unwrap_or(0), block.get(1).copied().unwrap_or(0)));
            }
        }
        (Err(e), Some(i)) => fail(rep, "listed_pair_rejected", format!("{} for the pair of {}", e, TYPES[i].name)),
        (Err(e), None) => {
            rep.count("rejected_unlisted");
            if e != format!("UnknownConfig({})", hex(bytes)) {
                fail(rep, "unknown_config_payload", format!("{} (expected UnknownConfig carrying the input)", e));
            }
        }
    }
}

pub fn run(ctx: &Ctx) -> Outcome {
    let fills = ctx.size(20_000, 40_000_000);
    let mut report = run_sharded(ctx, 1 + 256 + 41, |shard, rep| {
        if shard == 0 {
            for t in TYPES.iter() {
                check_type(t.ty, t.name, Some((t.family, t.id, t.w, t.h)), rep);
            }
            // "decodes to THAT type" only means something if the eleven types are eleven different values: each equals its
            // copy (and hashes alike) and nothing else
            {
                use std::hash::{Hash, Hasher};
                let h = |x: &flipdot_core::SignType| {
                    let mut s = std::collections::hash_map::DefaultHasher::new();
                    x.hash(&mut s);
                    s.finish()
                };
                for (i, a) in TYPES.iter().enumerate() {
                    for (j, b) in TYPES.iter().enumerate() {
                        rep.case(Some(0xC19_E000 + (i * 16 + j) as u64));
                        let copy = a.ty;
                        let same = a.ty == b.ty;
                        if same != (i == j) || (i == j && (copy != a.ty || h(&copy) != h(&a.ty))) || (i != j && a.ty.to_bytes() == b.ty.to_bytes()) {
                            rep.violation(MON_T, "sign_types_not_eleven_distinct_values", &format!("{}|{}", a.name, b.name), format!("{} == {} gives {}; blocks {} / {}", a.name, b.name, same, hex(&a.ty.to_bytes()), hex(&b.ty.to_bytes())), J::obj(vec![("a", J::s(a.name)), ("b", J::s(b.name))]));
                        }
                        rep.count("type_pairs_compared");
                    }
                }
            }
        } else if shard <= 256 {
            // all 256 ids for this family byte x 8 tails
            let family = (shard - 1) as u8;
            let mut rng = ctx.rng("pairs", shard as u64);
            for id in 0..=255u8 {
                let genuine_tail: Vec<u8> = refs::lookup_type(family, id).map(|i| TYPES[i].ty.to_bytes()[2..].to_vec()).unwrap_or_else(|| TYPES[(id % 11) as usize].ty.to_bytes()[2..].to_vec());
                let mut tails: Vec<Vec<u8>> = vec![genuine_tail, vec![0; 14], vec![0xFF; 14]];
                for _ in 0..5 {
                    tails.push(rng.bytes(14));
                }
                for tail in tails {
                    let mut b = vec![family, id];
                    b.extend(tail);
                    check_decode(&b, rep);
                }
                rep.count("pairs_swept");
            }
        } else {
            let len = shard - 257;
            if len == 16 {
                // every supported type's block with its id (and its family) replaced by every other value: only the
                // (family, id) pair decides, never the rest of the block — and a supported pair stays supported whatever
                // the other 14 bytes are (all 00, all FF, another type's, its own shifted)
                for t in TYPES.iter() {
                    let genuine = t.ty.to_bytes().to_vec();
                    for v in 0..=255u8 {
                        let mut b = genuine.clone();
                        b[1] = v;
                        check_decode(&b, rep);
                        let mut b = genuine.clone();
                        b[0] = v;
                        check_decode(&b, rep);
                    }
                    for other in TYPES.iter() {
                        let mut b = other.ty.to_bytes().to_vec();
                        b[0] = t.family;
                        b[1] = t.id;
                        check_decode(&b, rep);
                    }
                    for fill in [0x00u8, 0xFF, 0x55, 0x20, 0x04, 0x08] {
                        let mut b = vec![fill; 16];
                        b[0] = t.family;
                        b[1] = t.id;
                        check_decode(&b, rep);
                    }
                    let mut shifted = genuine.clone();
                    shifted[2..].rotate_left(1);
                    check_decode(&shifted, rep);
                    rep.count("genuine_blocks_with_foreign_ids_and_tails");
                }
                // genuine blocks followed by more bytes, at lengths that are 16 again once narrowed to 8 / 16 / 24 bits
                for t in TYPES.iter() {
                    for total in [16 + 256usize, 16 + 512, 16 + 65_536, 16 + (1 << 24), 256, 65_536] {
                        let b: Vec<u8> = t.ty.to_bytes().iter().copied().chain(std::iter::repeat(0)).take(total).collect();
                        check_decode(&b, rep);
                    }
                }
            }
            let mut rng = ctx.rng("len", len as u64);
            let n = if len == 16 { fills * 4 } else { fills };
            for k in 0..n {
                let mut b = match k % 4 {
                    0 => vec![0u8; len],
                    1 => vec![0xFFu8; len],
                    _ => rng.bytes(len),
                };
                // bias towards genuine prefixes so that wrong lengths of genuine blocks are tried
                if len >= 2 && rng.chance(1, 2) {
                    let t = rng.pick(&TYPES);
                    b[0] = t.family;
                    b[1] = t.id;
                }
                if rng.chance(1, 8) {
                    let t = rng.pick(&TYPES).ty.to_bytes();
                    b = t.iter().copied().cycle().take(len).collect();
                }
                check_decode(&b, rep);
            }
        }
    });
    {
        // the same calls from a thread-local destructor while a thread exits (see exitprobe.rs)
        let mut at_exit = Report::new();
        crate::exitprobe::check("sign_type", MON_D, &mut at_exit);
        report.merge(at_exit);
    }
    let floors = vec![
        floor("11/11 supported types checked", report.get("types_checked") == 11, report.get("types_checked")),
        floor("all 65536 (family, id) pairs swept", report.get("pairs_swept") == 65_536, report.get("pairs_swept")),
        floor("every type's block under every other id / family, and every supported pair over constant and foreign tails", report.get("genuine_blocks_with_foreign_ids_and_tails") == 11, report.get("genuine_blocks_with_foreign_ids_and_tails")),
        floor("every length 0..=40", report.set_len("lengths") == 41, report.set_len("lengths")),
        floor("lengths that are 16 modulo 2^8 / 2^16 / 2^24", report.set_len("long_lengths") == 6, report.set_len("long_lengths")),
        floor("listed pairs accepted and unlisted pairs rejected", report.get("accepted_listed") >= 11 * 8 && report.get("rejected_unlisted") > 500_000, report.get("accepted_listed")),
        floor("recorded type followed through failed / abandoned / completed pixel transfers, for every type", report.get("virtual_sign_type_through_pixel_transfers") == 44 && report.get("virtual_sign_repeat_stored_a_page") >= 22, report.get("virtual_sign_type_through_pixel_transfers")),
        floor("a sign configured by a controller of every other type, then by a controller of this type (11 x 10 x 2)", report.get("controller_reconfigurations") == 220, report.get("controller_reconfigurations")),
        floor("a 16-byte chunk of neither family next to the block, for every type", report.get("virtual_sign_noise_chunk_next_to_the_block") >= 11 * 14, report.get("virtual_sign_noise_chunk_next_to_the_block")),
        floor("a block of the same family and id with other size bytes before the genuine block, then a page of the genuine size, for every type", report.get("virtual_sign_off_size_block_before_the_genuine_one") >= 11 * 4, report.get("virtual_sign_off_size_block_before_the_genuine_one")),
        floor("a block of a supported family and id with other size fields alone, then a page of the size those fields give", report.get("virtual_sign_off_size_block_alone") >= 30, report.get("virtual_sign_off_size_block_alone")),
        floor("every type's block after six pasts (transfers left with a goodbye after counted chunks, reset handshakes), both flip styles, then a page and its completion", report.get("virtual_sign_configured_after_a_past") == 11 * 12, report.get("virtual_sign_configured_after_a_past")),
        floor("an unsupported block after a supported one, for every type", report.get("virtual_sign_unsupported_block_after_supported") >= 44, report.get("virtual_sign_unsupported_block_after_supported")),
        floor("virtual sign reconfigured from every other type (11 x 10 x 2 histories)", report.get("virtual_sign_reconfigurations") == 220, report.get("virtual_sign_reconfigurations")),
        floor("virtual sign configured with every type's block", report.get("virtual_sign_configurations") >= 11, report.get("virtual_sign_configurations")),
    ];
    Outcome {
        report,
        level: "exploration",
        rule: format!("the 11 supported types exhaustively (block length, round trip, field arithmetic vs dimensions(), a virtual sign configured with the block storing exactly a page of dimensions() and refusing neighbouring sizes); all 65536 (family,id) pairs x 8 tails; every length 0..=40 x {} fills; distinct by byte-string hash; all non-trivial", fills),
        exhaustive: false,
        floors,
        assumptions: vec!["oracle: the harness's own list of the 11 (family, id, width, height) tuples (Appendix D) and the documented block layout".into()],
        extra: vec![],
    }
}
