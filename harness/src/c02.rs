//! C02 — corrupted wire frames are rejected, never decoded as a different frame.

use flipdot_core::{Frame, FrameError};

use crate::refs;
use crate::util::{self, Ctx, J, Outcome, Report, Rng, catch, floor, fnv, hex, run_sharded, short_loc, show_bytes};

const MON: &str = "corruption_reject";

#[derive(Clone)]
struct Base {
    addr: u16,
    ty: u8,
    data: Vec<u8>,
}

fn field_class(pos: usize, wire_len: usize, crlf: bool) -> &'static str {
    // ':' LL AAAA TT DD.. CC [\r \n]
    let body_end = if crlf { wire_len - 2 } else { wire_len };
    if pos == 0 {
        "colon"
    } else if pos < 3 {
        "length"
    } else if pos < 7 {
        "address"
    } else if pos < 9 {
        "type"
    } else if pos < body_end - 2 {
        "data"
    } else if pos < body_end {
        "checksum"
    } else if pos == body_end {
        "cr"
    } else {
        "lf"
    }
}

/// The oracle: decoding `corrupt` must fail, or yield exactly the original frame.
fn check(base: &Base, base_wire: &[u8], corrupt: &[u8], kind: &'static str, class: &'static str, rep: &mut Report) {
    let changed = corrupt != base_wire;
    rep.case(changed.then(|| fnv(corrupt)));
    let r = catch(|| Frame::from_bytes(corrupt).map(|f| (f.address().0, f.message_type().0, f.data().to_vec())));
    // ... and once more straight away: whether a string is accepted cannot depend on what was decoded just before it
    let again = catch(|| Frame::from_bytes(corrupt).map(|f| (f.address().0, f.message_type().0, f.data().to_vec())));
    let same = match (&r, &again) {
        (Ok(Ok(a)), Ok(Ok(b))) => a == b,
        (Ok(Err(_)), Ok(Err(_))) => true,
        (Err(_), Err(_)) => true,
        _ => false,
    };
    let fail = |rep: &mut Report, cls: &str, obs: String| {
        let sig = format!("{}>{}", hex(base_wire), hex(corrupt));
        rep.violation(
            MON,
            cls,
            &sig,
            format!("{} in {} field: [{}] -> [{}] decoded as {}", kind, class, show_bytes(base_wire), show_bytes(corrupt), obs),
            J::obj(vec![
                ("workload", J::s("corruption")),
                ("kind", J::s(kind)),
                ("field", J::s(class)),
                ("base_wire", J::hex(base_wire)),
                ("corrupt_wire", J::hex(corrupt)),
                ("base_frame", J::s(format!("{:04X}:{:02X}:{}", base.addr, base.ty, hex(&base.data)))),
                ("expected", J::s("Err(_) or Ok(original frame)")),
                ("observed", J::s(obs)),
            ]),
        );
    };
    match &r {
        Ok(Ok((a, t, d))) => {
            let (a, t, d) = (*a, *t, d.clone());
            if a == base.addr && t == base.ty && d == base.data {
                rep.count("outcome_ok_original");
                if changed {
                    rep.count(&format!("ok_original/{}/{}", kind, class));
                }
            } else {
                fail(rep, "accepted_as_different_frame", format!("Ok({:04X}:{:02X}:{})", a, t, hex(&d)));
            }
        }
        Ok(Err(_)) => {
            rep.count("outcome_rejected");
            rep.count(&format!("rejected/{}/{}", kind, class));
        }
        Err(p) => fail(rep, "panic", format!("panic {} at {}", p.msg, short_loc(&p.loc))),
    }
    if !same {
        let show = |x: &Result<Result<(u16, u8, Vec<u8>), flipdot_core::FrameError>, crate::util::PanicInfo>| match x {
            Ok(Ok((a, t, d))) => format!("Ok({:04X}:{:02X}:{})", a, t, hex(d)),
            Ok(Err(e)) => format!("Err({:?})", e),
            Err(p) => format!("panic {}", p.msg),
        };
        fail(rep, "second_decode_differs", format!("{} the first time and {} the second time", show(&r), show(&again)));
    }
    rep.count("decoded_twice_in_a_row");
    if changed && rep.wants_sample() {
        rep.sample(|| J::obj(vec![("kind", J::s(kind)), ("field", J::s(class)), ("base", J::s(show_bytes(base_wire))), ("corrupt", J::s(show_bytes(corrupt)))]));
    }
}

/// The same oracle through the stream entry point: `Frame::read` over a fragmenting reader (deliveries that split
/// hex pairs included) must also fail or yield exactly the original frame.
fn check_read(base: &Base, base_wire: &[u8], corrupt: &[u8], rng: &mut Rng, rep: &mut Report) {
    use crate::doubles::FragReader;
    let n = corrupt.len();
    let density = 1 + rng.below(3);
    let boundaries: Vec<usize> = (1..n).filter(|_| rng.chance(density, 4)).collect();
    let mut reader = FragReader::new(corrupt.to_vec(), boundaries.clone(), vec![]);
    let r = catch(|| Frame::read(&mut reader).map(|f| (f.address().0, f.message_type().0, f.data().to_vec())));
    rep.count("corruptions_also_read_from_a_stream");
    let obs = match r {
        Ok(Ok((a, t, d))) if a == base.addr && t == base.ty && d == base.data => return,
        Ok(Ok((a, t, d))) => format!("Ok({:04X}:{:02X}:{})", a, t, hex(&d)),
        Ok(Err(_)) => return,
        Err(p) => format!("panic {} at {}", p.msg, short_loc(&p.loc)),
    };
    rep.violation(
        MON,
        "accepted_as_different_frame_via_read",
        &format!("{}>{}|{:?}", hex(base_wire), hex(corrupt), boundaries),
        format!("[{}] -> [{}] read from a stream with deliveries split at {:?}: decoded as {}", show_bytes(base_wire), show_bytes(corrupt), boundaries, obs),
        J::obj(vec![("workload", J::s("corruption_via_read")), ("base_wire", J::hex(base_wire)), ("corrupt_wire", J::hex(corrupt)), ("boundaries", J::s(format!("{:?}", boundaries))), ("observed", J::s(obs.clone()))]),
    );
}

fn all_corruptions(base: &Base, rep: &mut Report) {
    for crlf in [false, true] {
        let wire = if crlf { refs::enc_crlf(base.addr, base.ty, &base.data) } else { refs::enc(base.addr, base.ty, &base.data) };
        let n = wire.len();
        let mut buf = wire.clone();
        let mut srng = Rng::new(fnv(&wire) ^ 0x5EED);
        // every position x every replacement byte
        for pos in 0..n {
            let class = field_class(pos, n, crlf);
            let orig = buf[pos];
            for v in 0..=255u8 {
                buf[pos] = v;
                check(base, &wire, &buf, "substitution", class, rep);
                // hex-digit substitutions (the ones that can survive the text check) also through the stream entry
                // point, each with its own random fragmentation; short frames only (cost)
                if n <= 64 && v.is_ascii_hexdigit() {
                    check_read(base, &wire, &buf, &mut srng, rep);
                }
            }
            buf[pos] = orig;
        }
        // every single deletion
        for pos in 0..n {
            let mut c = wire.clone();
            c.remove(pos);
            check(base, &wire, &c, "deletion", field_class(pos, n, crlf), rep);
        }
        // every single duplication
        for pos in 0..n {
            let mut c = wire.clone();
            c.insert(pos, wire[pos]);
            check(base, &wire, &c, "duplication", field_class(pos, n, crlf), rep);
        }
        // every adjacent transposition of unequal characters
        for pos in 0..n - 1 {
            if wire[pos] != wire[pos + 1] {
                let mut c = wire.clone();
                c.swap(pos, pos + 1);
                check(base, &wire, &c, "transposition", field_class(pos, n, crlf), rep);
            }
        }
        // every proper prefix
        for len in 0..n {
            check(base, &wire, &wire[..len], "truncation", field_class(len, n, crlf), rep);
        }
    }
    rep.count("base_frames");
    // is some proper suffix of the field bytes a valid frame of its own? (see base_frames)
    let wire = refs::enc(base.addr, base.ty, &base.data);
    if (3..=wire.len().saturating_sub(10)).step_by(2).any(|k| {
        let mut tail = vec![b':'];
        tail.extend_from_slice(&wire[k..]);
        matches!(refs::dec(&tail), refs::Dec::Ok { .. })
    }) {
        rep.count("nested_base_frames");
    }
    rep.seen("base_lengths", base.data.len() as u64);
    if base.data.len() >= 254 {
        rep.count("longest_base_frames");
    }
}

/// Shape-valid strings whose declared length (resp. checksum) is wrong must be rejected with the matching kind.
fn wrong_length_or_checksum(rng: &mut Rng, rep: &mut Report) {
    let mut len = match rng.below(4) {
        0 => rng.usize(4),
        1 => 16,
        _ => rng.usize(256),
    };
    // one case in eight carries MORE than 255 data pairs — a length no valid frame has, so the one-byte length field
    // can only be "right" modulo 256
    let overlong = rng.chance(1, 8);
    if overlong {
        len += 256 * (1 + rng.usize(2));
    }
    let data = rng.bytes(len);
    let addr = rng.edgy_u16();
    let ty = rng.edgy_u8();
    let crlf = rng.bool();
    let nibs = b"0123456789ABCDEFabcdef";
    let hexpair = |b: u8, rng: &mut Rng| -> [u8; 2] {
        let up = b"0123456789ABCDEF";
        let lo = b"0123456789abcdef";
        let t = if rng.bool() { up } else { lo };
        [t[(b >> 4) as usize], t[(b & 15) as usize]]
    };
    let _ = nibs;
    if rng.bool() {
        // wrong declared length, checksum made *consistent* with the wrong length so only the length is wrong
        let mut declared = if overlong && rng.chance(3, 4) { (len % 256) as u8 } else { rng.u8() };
        if overlong {
            rep.count("overlong_wrong_length_strings");
        }
        if declared as usize == len {
            declared = declared.wrapping_add(1 + rng.below(255) as u8);
            if declared as usize == len {
                declared = declared.wrapping_add(1);
            }
        }
        let mut fields = vec![declared, (addr >> 8) as u8, addr as u8, ty];
        fields.extend_from_slice(&data);
        let c = if rng.bool() { refs::lrc(&fields) } else { rng.u8() };
        fields.push(c);
        let mut wire = vec![b':'];
        for f in &fields {
            wire.extend_from_slice(&hexpair(*f, rng));
        }
        if crlf {
            wire.extend_from_slice(b"\r\n");
        }
        rep.case(Some(fnv(&wire)));
        rep.count("wrong_length_strings");
        let r = catch(|| match Frame::from_bytes(&wire) {
            Ok(f) => format!("Ok({:?})", f),
            Err(FrameError::FrameDataMismatch { expected, actual, .. }) if expected == declared as usize && actual == len => "good".to_string(),
            Err(e) => format!("Err({:?})", e),
        });
        let obs = match r {
            Ok(s) => s,
            Err(p) => format!("panic {}", p.msg),
        };
        if obs != "good" {
            rep.violation(
                MON,
                "wrong_length_not_rejected_as_mismatch",
                &hex(&wire),
                format!("[{}] declares {} data bytes but has {}: {}", show_bytes(&wire), declared, len, obs),
                J::obj(vec![("workload", J::s("wrong_length")), ("wire", J::hex(&wire)), ("expected", J::s(format!("FrameDataMismatch{{expected:{},actual:{}}}", declared, len))), ("observed", J::s(obs))]),
            );
        }
    } else {
        if overlong {
            return; // a wrong checksum on an over-long frame is the length case again
        }
        let mut fields = vec![len as u8, (addr >> 8) as u8, addr as u8, ty];
        fields.extend_from_slice(&data);
        let good = refs::lrc(&fields);
        let delta = 1 + rng.below(255) as u8;
        let bad = good.wrapping_add(delta);
        fields.push(bad);
        let mut wire = vec![b':'];
        for f in &fields {
            wire.extend_from_slice(&hexpair(*f, rng));
        }
        if crlf {
            wire.extend_from_slice(b"\r\n");
        }
        rep.case(Some(fnv(&wire)));
        rep.count("wrong_checksum_strings");
        rep.seen("checksum_deltas", u64::from(delta));
        let r = catch(|| match Frame::from_bytes(&wire) {
            Ok(f) => format!("Ok({:?})", f),
            Err(FrameError::BadChecksum { expected, actual, .. }) if expected == bad && actual == good => "good".to_string(),
            Err(e) => format!("Err({:?})", e),
        });
        let obs = match r {
            Ok(s) => s,
            Err(p) => format!("panic {}", p.msg),
        };
        if obs != "good" {
            rep.violation(
                MON,
                "wrong_checksum_not_rejected_as_bad_checksum",
                &hex(&wire),
                format!("[{}] carries checksum {:02X}, correct is {:02X}: {}", show_bytes(&wire), bad, good, obs),
                J::obj(vec![("workload", J::s("wrong_checksum")), ("wire", J::hex(&wire)), ("expected", J::s(format!("BadChecksum{{expected:{:02X},actual:{:02X}}}", bad, good))), ("observed", J::s(obs))]),
            );
        }
    }
}

fn base_frames(ctx: &Ctx) -> Vec<Base> {
    let mut v = vec![];
    let mut rng = ctx.rng("bases", 0);
    // hand-picked: fields containing A-F digits (case sensitivity), 00 and FF, the protocol's real codes
    let picks: [(u16, u8, &[u8]); 12] = [
        (0x0000, 0x00, &[]),
        (0xFFFF, 0xFF, &[]),
        (0xABCD, 0xEF, &[]),
        (0x007F, 0x02, &[0xFF]),
        (0x0003, 0x02, &[0x00]),
        (0x0003, 0x04, &[0x0F]),
        (0x00FF, 0x04, &[0x0D]),
        (0xFACE, 0x05, &[0x95]),
        (0x0010, 0x00, &[0x00, 0xFF]),
        (0xBEEF, 0x0A, &[0xAB, 0xCD, 0xEF]),
        (0x0000, 0x01, &[]),
        (0x0D0A, 0x3A, &[0x3A, 0x0D, 0x0A, 0x3A]), // bytes whose values are ':', CR, LF
    ];
    // the two frames with the largest byte sums there are (66 045 and 65 790: beyond what 16 bits hold)
    v.push(Base { addr: 0xFFFF, ty: 0xFF, data: vec![0xFF; 255] });
    v.push(Base { addr: 0xFFFF, ty: 0xFF, data: vec![0xFF; 254] });
    // ... and three almost as heavy (byte sums 65 791 .. 65 793) whose TRUE checksum is 01, 00, FF: if a decoder's checksum
    // arithmetic gives out on sums this large, the value it gives is most likely one of these — then the base line still
    // decodes, and so does every line that differs from it in one data digit
    for last in [0x01u8, 0x02, 0x03] {
        let mut data = vec![0xFFu8; 255];
        data[254] = last;
        v.push(Base { addr: 0xFFFF, ty: 0xFF, data });
    }
    for (a, t, d) in picks {
        v.push(Base { addr: a, ty: t, data: d.to_vec() });
    }
    // every state report, every acknowledgement and every request of the protocol for one address: their codes are
    // neighbours (0x10 page loaded, 0x11 show in progress, 0x12 shown, 0x13 load in progress, ...), so a decoder that is
    // lenient about these frames turns one into another
    for s in refs::STATES.iter() {
        v.push(Base { addr: 0x0003, ty: 0x04, data: vec![s.1] });
    }
    for o in refs::OPS.iter() {
        v.push(Base { addr: 0x0003, ty: 0x03, data: vec![o.1] });
        v.push(Base { addr: 0x0003, ty: 0x05, data: vec![o.2] });
    }
    // frames whose true checksum is 00, 01, FF, 0D, 0A and 3A (a decoder that gives one of these a special meaning),
    // for several lengths: the first data byte (or the type) is chosen to make the sum come out
    for want in [0x00u8, 0x01, 0xFF, 0x0D, 0x0A, 0x3A] {
        for len in [0usize, 1, 2, 5, 16] {
            let mut data: Vec<u8> = (0..len).map(|i| (i as u8).wrapping_mul(29).wrapping_add(7)).collect();
            let addr = 0x00ECu16.wrapping_add(len as u16);
            let mut ty = 0x04u8;
            let sum = |ty: u8, data: &[u8]| data.iter().fold((len as u8).wrapping_add((addr >> 8) as u8).wrapping_add(addr as u8).wrapping_add(ty), |a, b| a.wrapping_add(*b));
            let adjust = want.wrapping_neg().wrapping_sub(sum(ty, &data));
            if len == 0 { ty = ty.wrapping_add(adjust) } else { data[0] = data[0].wrapping_add(adjust) }
            v.push(Base { addr, ty, data });
        }
    }
    // constant payloads (blank and full columns) whose digits re-pair to the same bytes when one is dropped
    for (fill, len) in [(0x00u8, 4usize), (0xFF, 4), (0x11, 3), (0x7F, 6), (0x01, 2), (0x10, 2)] {
        v.push(Base { addr: 0x0010, ty: 0x00, data: vec![fill; len] });
    }
    let lens: &[usize] = &[0, 1, 2, 3, 4, 5, 6, 7, 8, 15, 16, 17, 32, 127, 254, 255];
    let (per_len, extra_long) = if ctx.quick() { (12, 0) } else { (170, 200) };
    for &len in lens {
        for _ in 0..per_len {
            // long frames are expensive (523 x 256 substitutions): fewer of them in the quick tier
            // — but some of EVERY long length, the longest possible frame included
            if ctx.quick() && len >= 127 && v.iter().filter(|b: &&Base| b.data.len() == len).count() >= 4 {
                continue;
            }
            let data = match rng.below(4) {
                0 => vec![0u8; len],
                1 => vec![0xFFu8; len],
                _ => rng.bytes(len),
            };
            v.push(Base { addr: rng.edgy_u16(), ty: rng.edgy_u8(), data });
        }
    }
    // "nested" frames: the tail of the frame, from some byte m on, is itself a complete valid frame (the bytes
    // before m sum to 0 mod 256 and byte m is a correct length for what follows). A decoder that can be made to
    // resynchronise inside the string (e.g. by one digit turning into ':') would accept the tail as a different frame.
    for m in 2..=7usize {
        for inner_len in 0..=3usize {
            let mut inner = vec![inner_len as u8, rng.u8(), rng.u8(), rng.u8()];
            inner.extend(rng.bytes(inner_len));
            let total = m + inner.len();
            let mut p: Vec<u8> = vec![(total - 4) as u8];
            for _ in 1..m - 1 {
                p.push(rng.u8());
            }
            let s: u32 = p.iter().map(|&b| u32::from(b)).sum();
            p.push(((256 - s % 256) % 256) as u8);
            let mut fields = p;
            fields.extend(inner);
            v.push(Base { addr: u16::from(fields[1]) << 8 | u16::from(fields[2]), ty: fields[3], data: fields[4..].to_vec() });
        }
    }
    for _ in 0..extra_long {
        let len = 128 + rng.usize(128);
        v.push(Base { addr: rng.u16(), ty: rng.u8(), data: rng.bytes(len) });
    }
    v
}

pub fn run(ctx: &Ctx) -> Outcome {
    let bases = base_frames(ctx);
    let n_gen = ctx.size(1_000_000, 10_000_000);
    let gen_shards = 32usize;
    let nb = bases.len();
    let report = run_sharded(ctx, nb + gen_shards, |shard, rep| {
        if shard < nb {
            all_corruptions(&bases[shard], rep);
        } else {
            let mut rng = ctx.rng("gen", (shard - nb) as u64);
            for _ in 0..n_gen / gen_shards as u64 {
                wrong_length_or_checksum(&mut rng, rep);
            }
        }
    });

    let mut floors = vec![];
    for class in ["colon", "length", "address", "type", "data", "checksum", "cr", "lf"] {
        for kind in ["substitution", "deletion", "duplication", "transposition", "truncation"] {
            if class == "lf" && kind == "transposition" {
                continue; // LF is the last character: nothing follows it to swap with
            }
            let n = report.get(&format!("rejected/{}/{}", kind, class)) + report.get(&format!("ok_original/{}/{}", kind, class));
            floors.push(floor(&format!("{} observed in {} field", kind, class), n > 0, n));
        }
    }
    let ok_orig: u64 = report.counters.iter().filter(|(k, _)| k.starts_with("ok_original/")).map(|(_, v)| *v).sum();
    floors.push(floor("changed strings that still decode to the original (case change / terminator loss) observed", ok_orig > 0, ok_orig));
    floors.push(floor("wrong-length strings generated", report.get("wrong_length_strings") > 1000, report.get("wrong_length_strings")));
    floors.push(floor("over-long strings whose length field is right modulo 256", report.get("overlong_wrong_length_strings") > 100, report.get("overlong_wrong_length_strings")));
    floors.push(floor("wrong-checksum strings with every delta 1..=255", report.set_len("checksum_deltas") == 255, report.set_len("checksum_deltas")));
    floors.push(floor("corruptions also decoded through Frame::read with split deliveries", report.get("corruptions_also_read_from_a_stream") > 10_000, report.get("corruptions_also_read_from_a_stream")));
    floors.push(floor("nested base frames (a suffix is itself a valid frame)", report.get("nested_base_frames") >= 20, report.get("nested_base_frames")));
    floors.push(floor("base frames of >= 12 distinct lengths incl. 255", report.set_len("base_lengths") >= 12, report.set_len("base_lengths")));
    floors.push(floor("base frames of the two longest lengths (254, 255 data bytes)", report.get("longest_base_frames") >= 6, report.get("longest_base_frames")));

    let n_bases = report.get("base_frames");
    Outcome {
        report,
        level: "fault_enumeration",
        rule: "for each base frame (both terminator variants) EVERY single substitution (256 values x every position), deletion, duplication, adjacent transposition of unequal characters and proper prefix; plus generated shape-valid strings with a wrong length field or wrong checksum; distinct by hash of the corrupted string; non-trivial = differs from the base string".into(),
        exhaustive: false,
        floors,
        assumptions: vec![
            "the fault space per base frame is enumerated completely; base frames are hand-picked + seeded random (lengths 0..8, 15, 16, 17, 32, 127, 254, 255)".into(),
            "oracle: Err(_) or Ok(frame equal to the base frame in address, type and data)".into(),
        ],
        extra: vec![("base_frames".into(), J::Int(n_bases as i128)), ("faults_exhaustive_per_base_frame".into(), J::Bool(true))],
    }
}

pub fn replay(d: &J, rep: &mut Report) -> bool {
    match d.get("workload").and_then(|w| w.as_str()) {
        Some("corruption") => {
            let (Some(bw), Some(cw)) = (
                d.get("base_wire").and_then(|x| x.as_str()).and_then(util::unhex),
                d.get("corrupt_wire").and_then(|x| x.as_str()).and_then(util::unhex),
            ) else {
                return false;
            };
            let refs::Dec::Ok { addr, ty, data } = refs::dec(&bw) else { return false };
            check(&Base { addr, ty, data }, &bw, &cw, "replayed", "?", rep);
            true
        }
        _ => false,
    }
}
