//! Reference models written independently of the library: Intel-HEX codec, protocol code table, page layout.
//! Nothing in this file calls into flipdot except to convert its public enums to / from the reference types.

use flipdot_core::{Address, ChunkCount, Data, Frame, Message, MsgType, Offset, Operation, SignType, State};

// ------------------------------------------------------------------------------------------------
// 3.1 Reference codec

fn nib(n: u8) -> u8 {
    if n < 10 { b'0' + n } else { b'A' + (n - 10) }
}

fn unnib(c: u8) -> Option<u8> {
    if c.is_ascii_digit() {
        Some(c - b'0')
    } else if (b'a'..=b'f').contains(&c) {
        Some(c - b'a' + 10)
    } else if (b'A'..=b'F').contains(&c) {
        Some(c - b'A' + 10)
    } else {
        None
    }
}

pub fn lrc(fields: &[u8]) -> u8 {
    let sum: u32 = fields.iter().map(|&b| u32::from(b)).sum();
    ((256 - (sum % 256)) % 256) as u8
}

/// Wire encoding without terminator.
pub fn enc(addr: u16, ty: u8, data: &[u8]) -> Vec<u8> {
    assert!(data.len() <= 255);
    let mut fields = vec![data.len() as u8, (addr / 256) as u8, (addr % 256) as u8, ty];
    fields.extend_from_slice(data);
    let c = lrc(&fields);
    fields.push(c);
    let mut out = vec![b':'];
    for f in fields {
        out.push(nib(f / 16));
        out.push(nib(f % 16));
    }
    out
}

pub fn enc_crlf(addr: u16, ty: u8, data: &[u8]) -> Vec<u8> {
    let mut v = enc(addr, ty, data);
    v.extend_from_slice(b"\r\n");
    v
}

#[derive(Clone, Debug, PartialEq, Eq)]
pub enum Dec {
    Ok { addr: u16, ty: u8, data: Vec<u8> },
    Malformed,
    Length { declared: usize, actual: usize },
    Checksum { declared: u8, computed: u8 },
}

impl Dec {
    pub fn class(&self) -> &'static str {
        match self {
            Dec::Ok { .. } => "ok",
            Dec::Malformed => "malformed",
            Dec::Length { .. } => "length",
            Dec::Checksum { .. } => "checksum",
        }
    }
}

/// The decoded hex pairs of a string of the documented shape (':' + >= 5 hex pairs in either case + optional
/// single CRLF, nothing before or after), or `None` if the text is malformed.
pub fn fields(bytes: &[u8]) -> Option<Vec<u8>> {
    if bytes.first() != Some(&b':') {
        return None;
    }
    let mut body = &bytes[1..];
    if body.len() >= 2 && body[body.len() - 2] == b'\r' && body[body.len() - 1] == b'\n' {
        body = &body[..body.len() - 2];
    }
    if body.len() % 2 != 0 || body.len() < 10 {
        return None;
    }
    let mut fields = Vec::with_capacity(body.len() / 2);
    for pair in body.chunks(2) {
        match (unnib(pair[0]), unnib(pair[1])) {
            (Some(h), Some(l)) => fields.push(h * 16 + l),
            _ => return None,
        }
    }
    Some(fields)
}

/// Reference decoder: malformed text, then length test, then checksum test.
pub fn dec(bytes: &[u8]) -> Dec {
    let Some(fields) = fields(bytes) else {
        return Dec::Malformed;
    };
    let n = fields.len();
    let declared = fields[0] as usize;
    let actual = n - 5;
    if declared != actual {
        return Dec::Length { declared, actual };
    }
    let computed = lrc(&fields[..n - 1]);
    if computed != fields[n - 1] {
        return Dec::Checksum {
            declared: fields[n - 1],
            computed,
        };
    }
    Dec::Ok {
        addr: u16::from(fields[1]) * 256 + u16::from(fields[2]),
        ty: fields[3],
        data: fields[4..n - 1].to_vec(),
    }
}

/// Upper-cases hex letters and strips one trailing CRLF (the normalisation under which an accepted string
/// must equal its re-encoding).
pub fn normalise(bytes: &[u8]) -> Vec<u8> {
    let mut b = bytes;
    if b.len() >= 2 && &b[b.len() - 2..] == b"\r\n" {
        b = &b[..b.len() - 2];
    }
    b.iter().map(|c| c.to_ascii_uppercase()).collect()
}

/// Sum of the decoded hex pairs of an encoding produced by the library (must be 0 mod 256).
pub fn pair_sum(encoding: &[u8]) -> Option<u8> {
    let body = normalise(encoding);
    if body.first() != Some(&b':') || (body.len() - 1) % 2 != 0 {
        return None;
    }
    let mut sum = 0u8;
    for pair in body[1..].chunks(2) {
        sum = sum.wrapping_add(unnib(pair[0])? * 16 + unnib(pair[1])?);
    }
    Some(sum)
}

// ------------------------------------------------------------------------------------------------
// 3.2 Protocol code table

pub const N_STATES: usize = 13;
pub const N_OPS: usize = 6;

/// (library value, wire code, name) — Appendix A of DESIGN.md.
pub const STATES: [(State, u8, &str); N_STATES] = [
    (State::Unconfigured, 0x0F, "Unconfigured"),
    (State::ConfigInProgress, 0x0D, "ConfigInProgress"),
    (State::ConfigReceived, 0x07, "ConfigReceived"),
    (State::ConfigFailed, 0x0C, "ConfigFailed"),
    (State::PixelsInProgress, 0x03, "PixelsInProgress"),
    (State::PixelsReceived, 0x01, "PixelsReceived"),
    (State::PixelsFailed, 0x0B, "PixelsFailed"),
    (State::PageLoaded, 0x10, "PageLoaded"),
    (State::PageLoadInProgress, 0x13, "PageLoadInProgress"),
    (State::PageShown, 0x12, "PageShown"),
    (State::PageShowInProgress, 0x11, "PageShowInProgress"),
    (State::ShowingPages, 0x00, "ShowingPages"),
    (State::ReadyToReset, 0x08, "ReadyToReset"),
];

/// (library value, request code, ack code, name)
pub const OPS: [(Operation, u8, u8, &str); N_OPS] = [
    (Operation::ReceiveConfig, 0xA1, 0x95, "ReceiveConfig"),
    (Operation::ReceivePixels, 0xA2, 0x91, "ReceivePixels"),
    (Operation::ShowLoadedPage, 0xA9, 0x96, "ShowLoadedPage"),
    (Operation::LoadNextPage, 0xAA, 0x97, "LoadNextPage"),
    (Operation::StartReset, 0xA6, 0x93, "StartReset"),
    (Operation::FinishReset, 0xA7, 0x94, "FinishReset"),
];

// Indices into STATES, used by the reference machines.
pub const S_UNCONF: usize = 0;
pub const S_CFG_PROG: usize = 1;
pub const S_CFG_RECV: usize = 2;
pub const S_CFG_FAIL: usize = 3;
pub const S_PIX_PROG: usize = 4;
pub const S_PIX_RECV: usize = 5;
pub const S_PIX_FAIL: usize = 6;
pub const S_LOADED: usize = 7;
pub const S_LOAD_PROG: usize = 8;
pub const S_SHOWN: usize = 9;
pub const S_SHOW_PROG: usize = 10;
pub const S_SHOWING: usize = 11;
pub const S_READY_RESET: usize = 12;

pub const O_RECV_CFG: usize = 0;
pub const O_RECV_PIX: usize = 1;
pub const O_SHOW: usize = 2;
pub const O_LOAD_NEXT: usize = 3;
pub const O_START_RESET: usize = 4;
pub const O_FINISH_RESET: usize = 5;

pub fn st_index(s: State) -> usize {
    STATES.iter().position(|(x, _, _)| *x == s).unwrap_or(99)
}

pub fn op_index(o: Operation) -> usize {
    OPS.iter().position(|(x, _, _, _)| *x == o).unwrap_or(99)
}

pub fn st_name(i: usize) -> &'static str {
    STATES.get(i).map(|x| x.2).unwrap_or("?state")
}

pub fn op_name(i: usize) -> &'static str {
    OPS.get(i).map(|x| x.3).unwrap_or("?op")
}

/// Reference message: the harness's own representation, independent of `Message`.
#[derive(Clone, Debug, PartialEq, Eq, Hash)]
pub enum RefMsg {
    Data { offset: u16, data: Vec<u8> },
    Count(u16),
    Hello(u16),
    Query(u16),
    Goodbye(u16),
    Request(u16, usize),
    Ack(u16, usize),
    Report(u16, usize),
    Complete(u16),
    Unknown { addr: u16, ty: u8, data: Vec<u8> },
}

impl RefMsg {
    pub fn kind(&self) -> &'static str {
        match self {
            RefMsg::Data { .. } => "SendData",
            RefMsg::Count(_) => "DataChunksSent",
            RefMsg::Hello(_) => "Hello",
            RefMsg::Query(_) => "QueryState",
            RefMsg::Goodbye(_) => "Goodbye",
            RefMsg::Request(..) => "RequestOperation",
            RefMsg::Ack(..) => "AckOperation",
            RefMsg::Report(..) => "ReportState",
            RefMsg::Complete(_) => "PixelsComplete",
            RefMsg::Unknown { .. } => "Unknown",
        }
    }

    /// Compact textual form used in samples, replay files and known-finding signatures.
    pub fn show(&self) -> String {
        match self {
            RefMsg::Data { offset, data } => format!("D@{:04X}[{}]{}", offset, data.len(), crate::util::hex(data)),
            RefMsg::Count(n) => format!("N{}", n),
            RefMsg::Hello(a) => format!("H{:04X}", a),
            RefMsg::Query(a) => format!("Q{:04X}", a),
            RefMsg::Goodbye(a) => format!("G{:04X}", a),
            RefMsg::Request(a, o) => format!("R{:04X}:{}", a, op_name(*o)),
            RefMsg::Ack(a, o) => format!("A{:04X}:{}", a, op_name(*o)),
            RefMsg::Report(a, s) => format!("S{:04X}:{}", a, st_name(*s)),
            RefMsg::Complete(a) => format!("C{:04X}", a),
            RefMsg::Unknown { addr, ty, data } => format!("U{:04X}:{:02X}:{}", addr, ty, crate::util::hex(data)),
        }
    }

    pub fn parse(s: &str) -> Option<RefMsg> {
        let (tag, rest) = s.split_at(1);
        let a = |r: &str| u16::from_str_radix(r.get(0..4)?, 16).ok();
        match tag {
            "D" => {
                let offset = u16::from_str_radix(rest.get(1..5)?, 16).ok()?;
                let close = rest.find(']')?;
                Some(RefMsg::Data {
                    offset,
                    data: crate::util::unhex(&rest[close + 1..])?,
                })
            }
            "N" => Some(RefMsg::Count(rest.parse().ok()?)),
            "H" => Some(RefMsg::Hello(a(rest)?)),
            "Q" => Some(RefMsg::Query(a(rest)?)),
            "G" => Some(RefMsg::Goodbye(a(rest)?)),
            "C" => Some(RefMsg::Complete(a(rest)?)),
            "R" => Some(RefMsg::Request(a(rest)?, OPS.iter().position(|o| o.3 == &rest[5..])?)),
            "A" => Some(RefMsg::Ack(a(rest)?, OPS.iter().position(|o| o.3 == &rest[5..])?)),
            "S" => Some(RefMsg::Report(a(rest)?, STATES.iter().position(|o| o.2 == &rest[5..])?)),
            "U" => {
                let mut it = rest.split(':');
                let addr = u16::from_str_radix(it.next()?, 16).ok()?;
                let ty = u8::from_str_radix(it.next()?, 16).ok()?;
                Some(RefMsg::Unknown {
                    addr,
                    ty,
                    data: crate::util::unhex(it.next()?)?,
                })
            }
            _ => None,
        }
    }
}

/// The table: which (type, length, first byte) is which message.
pub fn classify(addr: u16, ty: u8, data: &[u8]) -> RefMsg {
    let unknown = || RefMsg::Unknown {
        addr,
        ty,
        data: data.to_vec(),
    };
    if ty == 0 {
        return RefMsg::Data {
            offset: addr,
            data: data.to_vec(),
        };
    }
    if ty == 1 {
        return if data.is_empty() { RefMsg::Count(addr) } else { unknown() };
    }
    if data.len() != 1 {
        return unknown();
    }
    let b = data[0];
    match ty {
        2 => match b {
            0xFF => RefMsg::Hello(addr),
            0x00 => RefMsg::Query(addr),
            0x55 => RefMsg::Goodbye(addr),
            _ => unknown(),
        },
        3 => OPS.iter().position(|o| o.1 == b).map(|i| RefMsg::Request(addr, i)).unwrap_or_else(unknown),
        4 => STATES.iter().position(|s| s.1 == b).map(|i| RefMsg::Report(addr, i)).unwrap_or_else(unknown),
        5 => OPS.iter().position(|o| o.2 == b).map(|i| RefMsg::Ack(addr, i)).unwrap_or_else(unknown),
        6 => {
            if b == 0 {
                RefMsg::Complete(addr)
            } else {
                unknown()
            }
        }
        _ => unknown(),
    }
}

/// Inverse of `classify`: (address, type, data) of a reference message.
pub fn build(m: &RefMsg) -> (u16, u8, Vec<u8>) {
    match m {
        RefMsg::Data { offset, data } => (*offset, 0, data.clone()),
        RefMsg::Count(n) => (*n, 1, vec![]),
        RefMsg::Hello(a) => (*a, 2, vec![0xFF]),
        RefMsg::Query(a) => (*a, 2, vec![0x00]),
        RefMsg::Goodbye(a) => (*a, 2, vec![0x55]),
        RefMsg::Request(a, o) => (*a, 3, vec![OPS[*o].1]),
        RefMsg::Report(a, s) => (*a, 4, vec![STATES[*s].1]),
        RefMsg::Ack(a, o) => (*a, 5, vec![OPS[*o].2]),
        RefMsg::Complete(a) => (*a, 6, vec![0x00]),
        RefMsg::Unknown { addr, ty, data } => (*addr, *ty, data.clone()),
    }
}

/// Wire bytes (with CRLF) of a reference message, via the reference codec only.
pub fn wire(m: &RefMsg) -> Vec<u8> {
    let (a, t, d) = build(m);
    enc_crlf(a, t, &d)
}

/// Library message -> reference message, by matching on the public enum only.
pub fn to_ref(m: &Message<'_>) -> RefMsg {
    match m {
        Message::SendData(Offset(o), d) => RefMsg::Data {
            offset: *o,
            data: d.get().to_vec(),
        },
        Message::DataChunksSent(ChunkCount(n)) => RefMsg::Count(*n),
        Message::Hello(Address(a)) => RefMsg::Hello(*a),
        Message::QueryState(Address(a)) => RefMsg::Query(*a),
        Message::Goodbye(Address(a)) => RefMsg::Goodbye(*a),
        Message::RequestOperation(Address(a), o) => RefMsg::Request(*a, op_index(*o)),
        Message::AckOperation(Address(a), o) => RefMsg::Ack(*a, op_index(*o)),
        Message::ReportState(Address(a), s) => RefMsg::Report(*a, st_index(*s)),
        Message::PixelsComplete(Address(a)) => RefMsg::Complete(*a),
        Message::Unknown(f) => RefMsg::Unknown {
            addr: f.address().0,
            ty: f.message_type().0,
            data: f.data().to_vec(),
        },
        _ => RefMsg::Unknown {
            addr: 0xDEAD,
            ty: 0xEE,
            data: b"unmatched message variant".to_vec(),
        },
    }
}

/// Reference message -> library message (owned data), by constructing the public enum only.
/// An owned copy of `data` in a buffer whose capacity varies with (data, salt): exactly sized, a little larger, or far
/// larger than what it holds (a reused line buffer). Capacity is not part of a message.
pub fn owned_with_slack(data: &[u8], salt: usize) -> Vec<u8> {
    let cap = match (salt / 16 + data.len()) % 5 {
        0 | 1 => data.len(),
        2 => data.len() + 7,
        3 => 2 * data.len() + 17,
        _ => 1024,
    };
    let mut v = Vec::with_capacity(cap.max(data.len()));
    v.extend_from_slice(data);
    v
}

/// Frames in which fields COINCIDE — coincidences that sweeps of one field at a time never produce: every field (address
/// bytes, type, every data byte, and for one length the length byte too) holding the same value v, for every v (so also
/// the values of ':', CR, LF, '0', 'F'); and frames whose last data byte is chosen so that the CHECKSUM equals another
/// field of the same frame (length, type, either address byte, first data byte) or a byte of the wire syntax.
pub fn coincidence_frames() -> Vec<(u16, u8, Vec<u8>)> {
    let mut v = vec![];
    for x in 0..=255u8 {
        for n in [0usize, 1, 2, 3, usize::from(x), 255] {
            v.push((u16::from(x) * 0x0101, x, vec![x; n]));
        }
        v.push((u16::from(x), x, vec![x]));
        v.push((u16::from(x) << 8, x, vec![x, x]));
    }
    for (addr, ty) in [(0x0003u16, 0x04u8), (0x0010, 0x00), (0xA5C3, 0x7E), (0x3A0D, 0x0A)] {
        for n in [1usize, 2, 16, 255] {
            let mut data: Vec<u8> = (0..n).map(|i| (i as u8).wrapping_mul(31).wrapping_add(5)).collect();
            let first = if n > 1 { data[0] } else { 0x5A };
            for target in [n as u8, ty, addr as u8, (addr >> 8) as u8, first, 0x3A, 0x0D, 0x0A, 0x00, 0xFF, 0x30, 0x46] {
                // checksum = -(sum of all other bytes); choose the last data byte so that it equals `target`
                let s = data[..n - 1].iter().fold((n as u8).wrapping_add((addr >> 8) as u8).wrapping_add(addr as u8).wrapping_add(ty), |a, b| a.wrapping_add(*b));
                data[n - 1] = target.wrapping_neg().wrapping_sub(s);
                v.push((addr, ty, data.clone()));
            }
        }
    }
    v
}

/// Data that is almost all one value: every length 1..=40 and 248..=255, all bytes `base` (00 or FF) except ONE byte at
/// each position in turn (set to 01 / 7F / 80 / the other base) — what a mostly blank or mostly lit page column, or a
/// shortcut that looks at the first and last byte or at whole words only, meets.
pub fn sparse_data() -> Vec<Vec<u8>> {
    let mut v = vec![];
    for len in (1usize..=40).chain(248..=255) {
        for base in [0x00u8, 0xFF] {
            for pos in 0..len {
                // long chunks: the ends and a stride in the middle
                if len > 40 && !(pos < 9 || pos + 9 >= len || pos % 37 == 0) {
                    continue;
                }
                for odd in [0x01u8, 0x7F, 0x80, !base] {
                    if odd == base {
                        continue;
                    }
                    let mut d = vec![base; len];
                    d[pos] = odd;
                    v.push(d);
                }
            }
        }
    }
    v
}

pub fn from_ref(m: &RefMsg) -> Message<'static> {
    match m {
        RefMsg::Data { offset, data } => Message::SendData(Offset(*offset), Data::try_new(owned_with_slack(data, usize::from(*offset))).expect("<=255")),
        RefMsg::Count(n) => Message::DataChunksSent(ChunkCount(*n)),
        RefMsg::Hello(a) => Message::Hello(Address(*a)),
        RefMsg::Query(a) => Message::QueryState(Address(*a)),
        RefMsg::Goodbye(a) => Message::Goodbye(Address(*a)),
        RefMsg::Request(a, o) => Message::RequestOperation(Address(*a), OPS[*o].0),
        RefMsg::Ack(a, o) => Message::AckOperation(Address(*a), OPS[*o].0),
        RefMsg::Report(a, s) => Message::ReportState(Address(*a), STATES[*s].0),
        RefMsg::Complete(a) => Message::PixelsComplete(Address(*a)),
        RefMsg::Unknown { addr, ty, data } => Message::Unknown(Frame::new(
            Address(*addr),
            MsgType(*ty),
            Data::try_new(data.clone()).expect("<=255"),
        )),
    }
}

/// The same message with its data BORROWED from `m` (the library keeps chunk data in a `Cow`: owned when it comes off the
/// wire, borrowed when the controller sends slices of a page — both must be treated alike).
pub fn from_ref_borrowed(m: &RefMsg) -> Message<'_> {
    match m {
        RefMsg::Data { offset, data } => Message::SendData(Offset(*offset), Data::try_new(&data[..]).expect("<=255")),
        RefMsg::Unknown { addr, ty, data } => Message::Unknown(Frame::new(Address(*addr), MsgType(*ty), Data::try_new(&data[..]).expect("<=255"))),
        other => from_ref(other),
    }
}

/// Owned or borrowed data, decided by the message itself (so that a replayed history makes the same choice).
pub fn from_ref_either(m: &RefMsg) -> Message<'_> {
    match m {
        RefMsg::Data { offset, data } if (usize::from(*offset) / 16 + data.len()) % 2 == 1 => from_ref_borrowed(m),
        RefMsg::Unknown { data, .. } if data.len() % 2 == 1 => from_ref_borrowed(m),
        _ => from_ref(m),
    }
}

pub fn show_opt(m: &Option<RefMsg>) -> String {
    match m {
        Some(m) => m.show(),
        None => "-".to_string(),
    }
}

// ------------------------------------------------------------------------------------------------
// 3.3 Reference page

#[derive(Clone, Debug, PartialEq, Eq)]
pub struct RefPage {
    pub id: u8,
    pub w: u32,
    pub h: u32,
    pub px: Vec<bool>, // row-major: px[y*w + x]
}

pub fn col_bytes(h: u32) -> usize {
    let mut n = (h / 8) as usize;
    if h % 8 != 0 {
        n += 1;
    }
    n
}

pub fn padded_len(w: u32, h: u32) -> usize {
    let raw = 4 + (w as usize) * col_bytes(h);
    let rem = raw % 16;
    if rem == 0 { raw } else { raw + (16 - rem) }
}

impl RefPage {
    pub fn new(id: u8, w: u32, h: u32) -> RefPage {
        RefPage {
            id,
            w,
            h,
            px: vec![false; (w as usize) * (h as usize)],
        }
    }
    pub fn get(&self, x: u32, y: u32) -> bool {
        self.px[(y as usize) * (self.w as usize) + x as usize]
    }
    pub fn set(&mut self, x: u32, y: u32, v: bool) {
        let w = self.w as usize;
        self.px[(y as usize) * w + x as usize] = v;
    }
    pub fn fill(&mut self, v: bool) {
        for p in self.px.iter_mut() {
            *p = v;
        }
    }
    pub fn data_end(&self) -> usize {
        4 + (self.w as usize) * col_bytes(self.h)
    }
    /// Byte image from the documented layout. Unused high bits of the last byte of a column are 0.
    pub fn image(&self) -> Vec<u8> {
        let cb = col_bytes(self.h);
        let total = padded_len(self.w, self.h);
        let mut out = vec![0u8; total];
        out[0] = self.id;
        out[1] = 0x10;
        for x in 0..self.w {
            for y in 0..self.h {
                if self.get(x, y) {
                    out[4 + (x as usize) * cb + (y / 8) as usize] |= 1u8 << (y % 8);
                }
            }
        }
        for b in out.iter_mut().skip(self.data_end()) {
            *b = 0xFF;
        }
        out
    }
}

// ------------------------------------------------------------------------------------------------
// Sign types: the harness's own transcription of the 11 supported (family, id) pairs and sizes (Appendix D).

pub struct RefType {
    pub ty: SignType,
    pub name: &'static str,
    pub family: u8,
    pub id: u8,
    pub w: u32,
    pub h: u32,
}

pub const TYPES: [RefType; 11] = [
    RefType { ty: SignType::Max3000Front112x16, name: "Max3000Front112x16", family: 4, id: 0x47, w: 112, h: 16 },
    RefType { ty: SignType::Max3000Front98x16, name: "Max3000Front98x16", family: 4, id: 0x4D, w: 98, h: 16 },
    RefType { ty: SignType::Max3000Side90x7, name: "Max3000Side90x7", family: 4, id: 0x20, w: 90, h: 7 },
    RefType { ty: SignType::Max3000Rear30x10, name: "Max3000Rear30x10", family: 4, id: 0x62, w: 30, h: 10 },
    RefType { ty: SignType::Max3000Rear23x10, name: "Max3000Rear23x10", family: 4, id: 0x61, w: 23, h: 10 },
    RefType { ty: SignType::Max3000Dash30x7, name: "Max3000Dash30x7", family: 4, id: 0x26, w: 30, h: 7 },
    RefType { ty: SignType::HorizonFront160x16, name: "HorizonFront160x16", family: 8, id: 0xB1, w: 160, h: 16 },
    RefType { ty: SignType::HorizonFront140x16, name: "HorizonFront140x16", family: 8, id: 0xB2, w: 140, h: 16 },
    RefType { ty: SignType::HorizonSide96x8, name: "HorizonSide96x8", family: 8, id: 0xB4, w: 96, h: 8 },
    RefType { ty: SignType::HorizonRear48x16, name: "HorizonRear48x16", family: 8, id: 0xB5, w: 48, h: 16 },
    RefType { ty: SignType::HorizonDash40x12, name: "HorizonDash40x12", family: 8, id: 0xB9, w: 40, h: 12 },
];

pub fn type_index(t: SignType) -> Option<usize> {
    TYPES.iter().position(|r| r.ty == t)
}

pub fn lookup_type(family: u8, id: u8) -> Option<usize> {
    TYPES.iter().position(|r| r.family == family && r.id == id)
}

/// Dimensions a sign derives from a 16-byte configuration block (documented field layout), `None` if the
/// family byte is neither 4 nor 8.
pub fn block_dims(block: &[u8]) -> Option<(u32, u32)> {
    if block.len() != 16 {
        return None;
    }
    match block[0] {
        4 => Some((block[5..9].iter().map(|&b| u32::from(b)).sum(), u32::from(block[4]))),
        8 => Some((u32::from(block[7]), u32::from(block[5]))),
        _ => None,
    }
}

/// The 16-byte configuration blocks of the 11 supported types, transcribed once from the pinned protocol
/// documentation (same order as `TYPES`). Used as an oracle independent of `SignType::to_bytes`.
pub const BLOCKS: [[u8; 16]; 11] = [
    [0x04, 0x47, 0x00, 0x0F, 0x10, 0x1C, 0x1C, 0x1C, 0x1C, 0x10, 0x00, 0x00, 0x00, 0x00, 0x00, 0x00],
    [0x04, 0x4D, 0x00, 0x0D, 0x10, 0x0E, 0x1C, 0x1C, 0x1C, 0x10, 0x00, 0x00, 0x00, 0x00, 0x00, 0x00],
    [0x04, 0x20, 0x00, 0x06, 0x07, 0x1E, 0x1E, 0x1E, 0x00, 0x08, 0x00, 0x00, 0x00, 0x00, 0x00, 0x00],
    [0x04, 0x62, 0x00, 0x04, 0x0A, 0x1E, 0x00, 0x00, 0x00, 0x10, 0x00, 0x00, 0x00, 0x00, 0x00, 0x00],
    [0x04, 0x61, 0x00, 0x04, 0x0A, 0x17, 0x00, 0x00, 0x00, 0x10, 0x00, 0x00, 0x00, 0x00, 0x00, 0x00],
    [0x04, 0x26, 0x00, 0x03, 0x07, 0x1E, 0x00, 0x00, 0x00, 0x08, 0x00, 0x00, 0x00, 0x00, 0x00, 0x00],
    [0x08, 0xB1, 0x00, 0x15, 0x0C, 0x10, 0x00, 0xA0, 0x04, 0x00, 0x28, 0x00, 0x00, 0x00, 0x00, 0x00],
    [0x08, 0xB2, 0x00, 0x12, 0x04, 0x10, 0x00, 0x8C, 0x01, 0x03, 0x14, 0x28, 0x00, 0x00, 0x00, 0x00],
    [0x08, 0xB4, 0x00, 0x07, 0x0C, 0x08, 0x00, 0x60, 0x02, 0x00, 0x30, 0x00, 0x00, 0x00, 0x00, 0x00],
    [0x08, 0xB5, 0x00, 0x07, 0x0C, 0x10, 0x00, 0x30, 0x01, 0x00, 0x30, 0x00, 0x00, 0x00, 0x00, 0x00],
    [0x08, 0xB9, 0x00, 0x06, 0x8C, 0x0C, 0x00, 0x28, 0x01, 0x00, 0x28, 0x00, 0x04, 0x00, 0x00, 0x00],
];
