#![allow(dead_code)]
//! fdmon — runtime monitors for the flipdot properties C01..C20.
//!
//! usage: fdmon <ID> [--tier quick|thorough] [--seed N] [--replay FILE] [--verif-dir DIR] [--miri] [--no-evidence]
//! exit: 0 held on everything observed; 1 violation (a `VIOLATION property=<id> replay=<path>` line was
//! printed); 2 inconclusive (coverage floor missed or harness error; an `INCONCLUSIVE` line was printed).

mod doubles;
mod exitprobe;
mod refs;
mod refctl;
mod refsign;
mod util;

mod c01;
mod c02;
mod c03;
mod c04;
mod c05;
mod c06;
mod c07;
mod c08;
mod c09;
mod c10;
mod c12;
mod c13;
mod c14;
mod c15;
mod c16;
mod c17;
mod c18;
mod c19;
mod c20;
mod ctl;
mod vsx;

use std::time::Instant;

use util::{Ctx, J, Outcome, Tier};

fn usage() -> ! {
    eprintln!("usage: fdmon <C01..C20> [--tier quick|thorough] [--seed N] [--replay FILE] [--verif-dir DIR] [--miri] [--no-evidence]");
    std::process::exit(2);
}

fn main() {
    let args: Vec<String> = std::env::args().collect();
    if args.len() < 2 {
        usage();
    }
    let prop = args[1].to_uppercase();
    let mut tier = match std::env::var("VERIF_TIER").as_deref() {
        Ok("thorough") => Tier::Thorough,
        _ => Tier::Quick,
    };
    let mut tier_explicit = false;
    let mut seed: u64 = std::env::var("VERIF_SEED").ok().and_then(|s| s.trim().parse::<i128>().ok()).map(|v| v as u64).unwrap_or(1);
    let mut replay: Option<String> = None;
    let mut verif_dir = std::env::var("VERIF_DIR").unwrap_or_else(|_| "/verif".to_string());
    let mut miri = false;
    let mut write_evidence = true;
    let mut i = 2;
    while i < args.len() {
        match args[i].as_str() {
            "--tier" => {
                i += 1;
                tier = match args.get(i).map(|s| s.as_str()) {
                    Some("quick") => Tier::Quick,
                    Some("thorough") => Tier::Thorough,
                    _ => usage(),
                };
                tier_explicit = true;
            }
            "--seed" => {
                i += 1;
                seed = args.get(i).and_then(|s| s.parse::<i128>().ok()).map(|v| v as u64).unwrap_or_else(|| usage());
            }
            "--replay" => {
                i += 1;
                replay = Some(args.get(i).cloned().unwrap_or_else(|| usage()));
            }
            "--verif-dir" => {
                i += 1;
                verif_dir = args.get(i).cloned().unwrap_or_else(|| usage());
            }
            "--miri" => miri = true,
            "--no-evidence" => write_evidence = false,
            _ => usage(),
        }
        i += 1;
    }
    let _ = tier_explicit;
    let threads = std::env::var("VERIF_THREADS")
        .ok()
        .and_then(|s| s.parse().ok())
        .unwrap_or_else(|| std::thread::available_parallelism().map(|n| n.get()).unwrap_or(4));
    let scale = std::env::var("VERIF_SCALE").ok().and_then(|s| s.parse().ok()).unwrap_or(1.0);
    let ctx = Ctx {
        prop: prop.clone(),
        tier,
        seed,
        threads,
        verif_dir,
        miri,
        scale,
    };

    util::install_panic_hook();
    if std::env::var("FDMON_LOG").map(|v| v != "off").unwrap_or(true) {
        util::install_log_sink();
    }
    let _ = util::KNOWN.set(load_known(&ctx));
    let start = Instant::now();

    if let Some(path) = replay {
        std::process::exit(run_replay(&ctx, &path));
    }

    let outcome: Outcome = dispatch(&ctx);
    let wall = start.elapsed().as_secs_f64();
    std::process::exit(finish(&ctx, outcome, wall, write_evidence));
}

fn util_clip(s: &str, n: usize) -> String {
    clip(s, n)
}

fn dispatch(ctx: &Ctx) -> Outcome {
    // wind down well before the driver's watchdog (900 s quick / 7200 s thorough) so that findings are reported, not lost
    let soft = std::env::var("FDMON_SOFT_SECS").ok().and_then(|s| s.parse().ok()).unwrap_or(if ctx.quick() { 660 } else { 6300 });
    util::set_soft_deadline(soft);
    let mut out = dispatch_inner(ctx);
    {
        use std::sync::atomic::Ordering;
        let (n, bad) = (util::LOGGER_REENTRIES.load(Ordering::Relaxed), util::LOGGER_TROUBLE.load(Ordering::Relaxed));
        out.extra.push(("log_level_moved".into(), J::s(format!("{} times through Trace / Debug / Info / Warn / Error / Off while the workloads ran", util::LEVEL_CHANGES.load(Ordering::Relaxed)))));
        out.extra.push(("logger_used_the_library_itself".into(), J::s(format!("{} times while a library call was logging ({} went wrong)", n, bad))));
        if bad > 0 && ["C12", "C13", "C14", "C19"].contains(&ctx.prop.as_str()) {
            out.report.violation("reentrant_logger", "library_misbehaves_inside_a_logger", "reentrant-logger", format!("a logger that configures a virtual sign of its own, codes a frame and draws on a page while the library call that logged is still running got a wrong result {} time(s) out of {}", bad, n), J::obj(vec![("workload", J::s("re-entrant logger"))]));
        }
    }
    let cut = out.report.get("shards_skipped_at_the_soft_deadline") + out.report.get("loops_cut_short_at_the_soft_deadline");
    if cut > 0 {
        out.floors.push(util::floor(&format!("the workload ran to its end within {} s (otherwise what was observed is reported, and the run is inconclusive)", soft), false, format!("{} shard(s) / loop(s) cut short", cut)));
    }
    // (the Miri leg interprets a small decoder-only workload: the probes below are not part of it)
    if !ctx.miri && ["C01", "C03", "C04", "C05", "C06", "C07", "C08", "C09", "C10", "C11", "C12", "C13", "C14", "C15", "C19"].contains(&ctx.prop.as_str()) && out.report.violations.is_empty() {
        let n = out.report.get("thread_exit_probes_ok");
        out.floors.push(util::floor("the group's small workload run from a thread-local destructor while a thread exits, in both orders of first use, equal to the same calls on an ordinary thread", n == 2, n));
        let n = out.report.get("unwinding_probes_ok");
        out.floors.push(util::floor("the same workload run from a destructor while a panic unwinds, and once more right after that panic was caught", n == 2, n));
    }
    if !ctx.miri && ["C01", "C03", "C04", "C05", "C06", "C07", "C12", "C13", "C14", "C15"].contains(&ctx.prop.as_str()) && out.report.violations.is_empty() {
        let n = out.report.get("migration_probes_ok");
        out.floors.push(util::floor("objects built on one thread, used on a second and a third, read on a fourth: same results as on one thread", n == 1, n));
    }
    out
}

fn dispatch_inner(ctx: &Ctx) -> Outcome {
    match ctx.prop.as_str() {
        "C01" => c01::run(ctx),
        "C02" => c02::run(ctx),
        "C03" => c03::run(ctx),
        "C04" => c04::run(ctx),
        "C05" => c05::run(ctx),
        "C06" => c06::run(ctx),
        "C07" => c07::run(ctx),
        "C08" => c08::run(ctx),
        "C09" => c09::run(ctx),
        "C10" => c10::run(ctx, false),
        "C11" => c10::run(ctx, true),
        "C12" => c12::run(ctx),
        "C13" => c13::run(ctx),
        "C14" => c14::run(ctx),
        "C15" => c15::run(ctx),
        "C16" => c16::run(ctx),
        "C17" => c17::run(ctx),
        "C18" => c18::run(ctx),
        "C19" => c19::run(ctx),
        "C20" => c20::run(ctx),
        _ => usage(),
    }
}

/// Known findings: `{ "findings": [ {property, monitor, signature, what} ], "fixed": [ "fixed: ..." ] }`.
/// Read once at start-up, never written.
fn load_known(ctx: &Ctx) -> Vec<util::Known> {
    let path = format!("{}/known_findings.json", ctx.verif_dir);
    let Ok(text) = std::fs::read_to_string(&path) else {
        return vec![];
    };
    let Ok(j) = util::parse_json(&text) else {
        eprintln!("warning: {} does not parse; treating as empty", path);
        return vec![];
    };
    let mut out = vec![];
    if let Some(arr) = j.get("findings").and_then(|f| f.as_arr()) {
        for f in arr {
            let g = |k: &str| f.get(k).and_then(|v| v.as_str()).unwrap_or("").to_string();
            if g("property") == ctx.prop {
                out.push(util::Known {
                    monitor: g("monitor"),
                    signature: g("signature"),
                    what: g("what"),
                });
            }
        }
    }
    out
}

fn finish(ctx: &Ctx, outcome: Outcome, wall: f64, write_evidence: bool) -> i32 {
    let Outcome {
        report,
        level,
        rule,
        exhaustive,
        floors,
        assumptions,
        extra,
    } = outcome;
    let new_violations: Vec<&util::Violation> = report.violations.iter().collect();
    let known_hits = &report.known_hits;
    for (sig, what) in known_hits {
        println!("KNOWN-FINDING: property={} {} [{}]", ctx.prop, what, sig);
    }

    // replay files
    let out_dir = std::env::var("VERIF_OUT").unwrap_or_else(|_| ctx.verif_dir.clone());
    let replay_dir = format!("{}/replays", out_dir);
    let mut lines = vec![];
    for (n, v) in new_violations.iter().enumerate().take(20) {
        let _ = std::fs::create_dir_all(&replay_dir);
        let path = format!("{}/{}-{}-{}.json", replay_dir, ctx.prop, ctx.seed, n);
        let j = J::obj(vec![
            ("property", J::s(ctx.prop.clone())),
            ("tier", J::s(if ctx.quick() { "quick" } else { "thorough" })),
            ("seed", J::Int(ctx.seed as i128)),
            ("monitor", J::s(v.monitor.clone())),
            ("signature", J::s(v.signature.clone())),
            ("what", J::s(v.what.clone())),
            ("detail", v.detail.clone()),
        ]);
        let _ = std::fs::write(&path, j.render());
        lines.push((path, v));
    }

    let failed_floors: Vec<_> = floors.iter().filter(|f| !f.ok).collect();
    let harness_panics = report.get("harness_panics");

    if write_evidence {
        let mut cov: Vec<(String, J)> = vec![
            ("evaluations".into(), J::Int(report.evaluations as i128)),
            ("distinct_nontrivial".into(), J::Int(report.distinct_nontrivial() as i128)),
            (
                "rule".into(),
                J::s(if report.distinct_saturated() {
                    format!("{} [distinct counter saturated at its memory cap: the true number is larger]", rule)
                } else {
                    rule.clone()
                }),
            ),
            ("samples".into(), J::Arr(pick_samples(&report.samples))),
            ("exhaustive".into(), J::Bool(exhaustive)),
            (
                "counters".into(),
                J::Obj(report.counters.iter().map(|(k, v)| (k.clone(), J::Int(*v as i128))).collect()),
            ),
            (
                "distinct_sets".into(),
                J::Obj(report.sets.iter().map(|(k, v)| (k.clone(), J::Int(v.len() as i128))).collect()),
            ),
            (
                "floors".into(),
                J::Arr(
                    floors
                        .iter()
                        .map(|f| J::obj(vec![("name", J::s(f.name.clone())), ("met", J::Bool(f.ok)), ("observed", J::s(f.observed.clone()))]))
                        .collect(),
                ),
            ),
        ];
        if !report.mins.is_empty() {
            cov.push(("minima".into(), J::Obj(report.mins.iter().map(|(k, v)| (k.clone(), J::Num(*v))).collect())));
        }
        if !report.maxs.is_empty() {
            cov.push(("maxima".into(), J::Obj(report.maxs.iter().map(|(k, v)| (k.clone(), J::Num(*v))).collect())));
        }
        for (k, v) in &report.notes {
            cov.push((k.clone(), v.clone()));
        }
        for (k, v) in extra {
            cov.push((k, v));
        }
        let verdict = if !new_violations.is_empty() {
            "violated"
        } else if !failed_floors.is_empty() || harness_panics > 0 {
            "inconclusive"
        } else {
            "held_on_observed"
        };
        let ev = J::Obj(vec![
            ("property_id".into(), J::s(ctx.prop.clone())),
            ("tier".into(), J::s(if ctx.quick() { "quick" } else { "thorough" })),
            ("seed".into(), J::Int((ctx.seed & 0x7FFF_FFFF_FFFF_FFFF) as i128)),
            ("level".into(), J::s(level)),
            ("coverage".into(), J::Obj(cov)),
            ("assumptions".into(), J::Arr(assumptions.iter().map(|a| J::s(a.clone())).collect())),
            ("wall_s".into(), J::Num((wall * 1000.0).round() / 1000.0)),
            ("violations".into(), J::Int(new_violations.len() as i128)),
            ("known_findings_matched".into(), J::Int(known_hits.len() as i128)),
            ("verdict".into(), J::s(verdict)),
            ("repo_under_test".into(), J::s(std::env::var("FDMON_REPO_DESC").unwrap_or_else(|_| "unknown".into()))),
            ("logging".into(), J::s(if util::logging_on() { format!("trace-level sink installed: {} records formatted", util::LOG_RECORDS.load(std::sync::atomic::Ordering::Relaxed)) } else { "off (FDMON_LOG=off)".to_string() })),
        ]);
        let dir = format!("{}/evidence", out_dir);
        let _ = std::fs::create_dir_all(&dir);
        let path = format!("{}/{}.json", dir, ctx.prop);
        if let Err(e) = std::fs::write(&path, ev.render() + "\n") {
            eprintln!("cannot write {}: {}", path, e);
        }
    }

    println!(
        "{} {} seed={} evaluations={} distinct_nontrivial={} violations={} known={} wall={:.1}s",
        ctx.prop,
        if ctx.quick() { "quick" } else { "thorough" },
        ctx.seed,
        report.evaluations,
        report.distinct_nontrivial(),
        new_violations.len(),
        known_hits.len(),
        wall
    );

    if !lines.is_empty() {
        for (path, v) in &lines {
            println!("  [{}] {}", v.monitor, clip(&v.what, 600));
            println!("VIOLATION property={} replay={}", ctx.prop, path);
        }
        return 1;
    }
    if harness_panics > 0 {
        println!(
            "INCONCLUSIVE property={} reason=harness_error {}",
            ctx.prop,
            report.notes.get("harness_panic").map(|j| j.compact()).unwrap_or_default()
        );
        return 2;
    }
    if !failed_floors.is_empty() {
        for f in &failed_floors {
            println!("INCONCLUSIVE property={} reason=coverage_floor floor={:?} observed={}", ctx.prop, f.name, f.observed);
        }
        return 2;
    }
    0
}

fn clip(s: &str, n: usize) -> String {
    if s.chars().count() <= n { s.to_string() } else { format!("{}… (+{} chars; full text in the replay file)", s.chars().take(n).collect::<String>(), s.chars().count() - n) }
}

/// At most 10 samples, evenly spaced over everything the workers kept.
fn pick_samples(all: &[J]) -> Vec<J> {
    if all.len() <= 10 {
        return all.to_vec();
    }
    (0..10).map(|i| all[i * all.len() / 10].clone()).collect()
}

/// Re-executes the single case stored in a replay file; exit 1 if it still violates, 0 if not.
fn run_replay(ctx: &Ctx, path: &str) -> i32 {
    let text = match std::fs::read_to_string(path) {
        Ok(t) => t,
        Err(e) => {
            eprintln!("cannot read {}: {}", path, e);
            return 2;
        }
    };
    let j = match util::parse_json(&text) {
        Ok(j) => j,
        Err(e) => {
            eprintln!("cannot parse {}: {}", path, e);
            return 2;
        }
    };
    let detail = j.get("detail").cloned().unwrap_or(J::Null);
    let monitor = j.get("monitor").and_then(|m| m.as_str()).unwrap_or("").to_string();
    let mut rep = util::Report::new();
    let supported = match ctx.prop.as_str() {
        "C01" => c01::replay(&detail, &mut rep),
        "C02" => c02::replay(&detail, &mut rep),
        "C03" => c03::replay(&detail, &mut rep),
        "C04" => c04::replay(&detail, &mut rep),
        "C05" => c05::replay(&detail, &mut rep),
        "C12" | "C13" => vsx::replay(&ctx.prop, &detail, &mut rep),
        "C14" => c14::replay(&detail, &mut rep),
        _ => false,
    };
    if !supported {
        // Generic fallback: every workload is a deterministic function of (tier, seed), so re-run the whole check with the
        // recorded tier and seed and look for a violation with the same monitor and signature.
        let tier = match j.get("tier").and_then(|t| t.as_str()) {
            Some("thorough") => Tier::Thorough,
            _ => Tier::Quick,
        };
        let seed = j.get("seed").and_then(|s| s.as_u64()).unwrap_or(ctx.seed);
        let want_sig = j.get("signature").and_then(|s| s.as_str()).unwrap_or("").to_string();
        let mut c2 = ctx.clone();
        c2.tier = tier;
        c2.seed = seed;
        println!("replay: re-running {} {} with seed {} and looking for [{}] {}", ctx.prop, if tier == Tier::Quick { "quick" } else { "thorough" }, seed, monitor, util_clip(&want_sig, 120));
        let out = dispatch(&c2);
        let hit = out.report.violations.iter().find(|v| v.monitor == monitor && v.signature == want_sig);
        let same_class = out.report.violations.iter().find(|v| v.monitor == monitor);
        return match (hit, same_class) {
            (Some(v), _) => {
                println!("  [{}] {}", v.monitor, util_clip(&v.what, 600));
                println!("VIOLATION property={} replay={}", ctx.prop, path);
                1
            }
            (None, Some(v)) => {
                println!("replay: the recorded case was not reported again, but the same monitor reports: {}", util_clip(&v.what, 400));
                println!("VIOLATION property={} replay={}", ctx.prop, path);
                1
            }
            (None, None) => {
                println!("replay: case no longer violates {}", ctx.prop);
                0
            }
        };
    }
    if rep.violations.is_empty() {
        println!("replay: case no longer violates {}", ctx.prop);
        0
    } else {
        for v in &rep.violations {
            println!("  [{}] {}", v.monitor, v.what);
        }
        println!("VIOLATION property={} replay={}", ctx.prop, path);
        1
    }
}
