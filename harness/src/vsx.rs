//! Virtual-sign execution shared by C08, C12, C13, C14: lockstep stepping of the real `VirtualSign` against
//! `RefSign`, the breadth-first explorer over the real implementation's state, the hostile walk generator and
//! a history shrinker.

use std::collections::HashSet;

use flipdot_core::{Address, PageFlipStyle};
use flipdot_testing::VirtualSign;

use crate::refs::{self, *};
use crate::refsign::{Obs, RefSign};
use crate::util::{J, PanicInfo, Report, Rng, catch, short_loc};

#[derive(Clone)]
pub struct Pair {
    pub sign: VirtualSign<'static>,
    pub model: RefSign,
}

impl Pair {
    pub fn new(addr: u16, auto: bool) -> Pair {
        Pair {
            sign: VirtualSign::new(Address(addr), if auto { PageFlipStyle::Automatic } else { PageFlipStyle::Manual }),
            model: RefSign::new(addr, auto),
        }
    }
}

pub fn observe(sign: &VirtualSign<'_>) -> Obs {
    Obs {
        st: st_index(sign.state()),
        ty: sign.sign_type().and_then(type_index),
        pages: sign.pages().iter().map(|p| (p.width(), p.height(), p.as_bytes().to_vec())).collect(),
    }
}

pub struct StepOut {
    pub panic: Option<PanicInfo>,
    pub diffs: Vec<(&'static str, String)>,
    pub reply: Option<RefMsg>,
}

/// Delivers `m` to the real sign and to the model and compares every observable.
pub fn step(pair: &mut Pair, m: &RefMsg) -> StepOut {
    let lib = refs::from_ref_either(m);
    let sign = &mut pair.sign;
    let r = catch(|| sign.process_message(&lib).map(|x| refs::to_ref(&x)));
    let want = pair.model.step(m);
    let mut diffs = vec![];
    let got = match r {
        Err(p) => {
            return StepOut {
                panic: Some(p),
                diffs,
                reply: None,
            };
        }
        Ok(g) => g,
    };
    if got != want {
        diffs.push(("reply", format!("replied {} expected {}", show_opt(&got), show_opt(&want))));
    }
    if let Some(RefMsg::Report(a, _) | RefMsg::Ack(a, _)) = &got {
        if *a != pair.model.addr {
            diffs.push(("reply_address", format!("reply carries address {:04X}, sign is {:04X}", a, pair.model.addr)));
        }
    }
    let sign = &pair.sign;
    let model = &pair.model;
    if st_index(sign.state()) != model.st {
        diffs.push(("state", format!("state {} expected {}", st_name(st_index(sign.state())), st_name(model.st))));
    }
    if sign.sign_type().and_then(type_index) != model.ty {
        diffs.push(("sign_type", format!("sign_type {:?} expected {:?}", sign.sign_type(), model.ty.map(|t| TYPES[t].name))));
    }
    let pages = sign.pages();
    if pages.len() != model.pages.len() {
        diffs.push(("page_count", format!("{} pages expected {}", pages.len(), model.pages.len())));
    } else {
        for (i, (p, (w, h, b))) in pages.iter().zip(model.pages.iter()).enumerate() {
            if p.width() != *w || p.height() != *h || p.as_bytes() != &b[..] {
                diffs.push(("page_content", format!("page {} is {}x{} {}B, expected {}x{} {}B (or bytes differ)", i, p.width(), p.height(), p.as_bytes().len(), w, h, b.len())));
                break;
            }
        }
    }
    // "reset or goodbye return it to the blank unconfigured condition": after a goodbye, or a reset that was carried out
    // (FinishReset acknowledged), the sign is indistinguishable from a newly made one — equal and hashing alike
    let was_reset = match m {
        RefMsg::Goodbye(a) => *a == model.addr,
        RefMsg::Request(a, o) => *a == model.addr && *o == O_FINISH_RESET && matches!(got, Some(RefMsg::Ack(_, _))),
        _ => false,
    };
    if was_reset {
        use std::hash::{Hash, Hasher};
        let fresh = VirtualSign::new(Address(model.addr), if model.auto { PageFlipStyle::Automatic } else { PageFlipStyle::Manual });
        let h = |s: &VirtualSign<'_>| {
            let mut x = std::collections::hash_map::DefaultHasher::new();
            s.hash(&mut x);
            x.finish()
        };
        if *sign != fresh || h(sign) != h(&fresh) {
            diffs.push(("not_blank_after_reset", format!("after {} the sign differs from a newly made sign with the same address and flip style (it is {:?})", m.show(), sign)));
        }
    }
    // model-free invariants from the statement: stored pages are complete pages of the configured size
    for (i, p) in pages.iter().enumerate() {
        if p.as_bytes().len() != padded_len(p.width(), p.height()) {
            diffs.push(("page_incomplete", format!("page {} holds {} bytes, a {}x{} page has {}", i, p.as_bytes().len(), p.width(), p.height(), padded_len(p.width(), p.height()))));
        }
        if (p.width(), p.height()) != model.dims {
            diffs.push(("page_not_configured_size", format!("page {} is {}x{}, configured size is {}x{}", i, p.width(), p.height(), model.dims.0, model.dims.1)));
        }
    }
    StepOut {
        panic: None,
        diffs,
        reply: got,
    }
}

pub fn history_json(addr: u16, auto: bool, history: &[RefMsg]) -> Vec<(&'static str, J)> {
    vec![
        ("workload", J::s("history")),
        ("address", J::u(addr)),
        ("automatic", J::Bool(auto)),
        ("history", J::Arr(history.iter().map(|m| J::s(m.show())).collect())),
    ]
}

pub fn show_history(h: &[RefMsg]) -> String {
    let mut s: Vec<String> = h.iter().take(40).map(|m| {
        let t = m.show();
        if t.len() > 44 { format!("{}..", &t[..44]) } else { t }
    }).collect();
    if h.len() > 40 {
        s.push(format!("(+{} more)", h.len() - 40));
    }
    s.join(" ")
}

/// Runs a whole history on a fresh pair; returns the index and outcome of the first step that panics or differs.
pub fn run_history(addr: u16, auto: bool, history: &[RefMsg]) -> Option<(usize, StepOut)> {
    let mut pair = Pair::new(addr, auto);
    for (i, m) in history.iter().enumerate() {
        let out = step(&mut pair, m);
        if out.panic.is_some() || !out.diffs.is_empty() {
            return Some((i, out));
        }
    }
    None
}

/// ddmin-style shrinking: removes blocks of messages while `fails` stays true. Bounded effort.
pub fn shrink(history: &[RefMsg], fails: &dyn Fn(&[RefMsg]) -> bool) -> Vec<RefMsg> {
    let mut cur = history.to_vec();
    // each evaluation replays the whole candidate: bound the total number of replayed messages
    let mut budget: i64 = (20_000_000 / (cur.len().max(1) as i64)).clamp(50, 3000);
    let mut block = (cur.len() / 2).max(1);
    loop {
        let mut i = 0;
        let mut progressed = false;
        while i < cur.len() && budget > 0 {
            let end = (i + block).min(cur.len());
            let mut cand = cur[..i].to_vec();
            cand.extend_from_slice(&cur[end..]);
            budget -= 1;
            if !cand.is_empty() && fails(&cand) {
                cur = cand;
                progressed = true;
            } else {
                i += block;
            }
        }
        if budget <= 0 {
            break;
        }
        if block == 1 {
            if !progressed {
                break;
            }
        } else {
            block /= 2;
        }
    }
    cur
}

/// Reports the outcome of a failing step for property C12 (panics only) or C13 (panics and divergences).
pub fn report_failure(prop: &str, addr: u16, auto: bool, history: &[RefMsg], out: &StepOut, rep: &mut Report) {
    if let Some(p) = &out.panic {
        let (mon, class) = if prop == "C12" { ("no_panic", "panic") } else { ("lockstep_refsign", "panic") };
        if !rep.wants_violation(mon, class) && crate::util::KNOWN.get().map(|k| k.is_empty()).unwrap_or(true) {
            rep.count(&format!("violations_raised/{}/{}", mon, class));
            return;
        }
        // canonical witness: shrink to a minimal history that still panics at the same place
        let loc = short_loc(&p.loc);
        let small = shrink(history, &|h| matches!(run_history(addr, auto, h), Some((_, o)) if o.panic.as_ref().map(|q| short_loc(&q.loc)) == Some(loc.clone())));
        let mut d = history_json(addr, auto, &small);
        d.push(("panic", J::s(format!("{} at {}", p.msg, p.loc))));
        d.push(("original_history_len", J::us(history.len())));
        rep.violation(
            mon,
            class,
            &format!("{}|{}", loc, small.iter().map(|m| m.show()).collect::<Vec<_>>().join(" ")),
            format!("virtual sign {:04X} panicked ({} at {}) after [{}]", addr, p.msg, loc, show_history(&small)),
            J::obj(d),
        );
    } else if prop != "C12" {
        for (class, what) in &out.diffs {
            let cls = *class;
            if !rep.wants_violation("lockstep_refsign", cls) && crate::util::KNOWN.get().map(|k| k.is_empty()).unwrap_or(true) {
                rep.count(&format!("violations_raised/lockstep_refsign/{}", cls));
                continue;
            }
            let small = shrink(history, &|h| matches!(run_history(addr, auto, h), Some((_, o)) if o.diffs.iter().any(|(c, _)| *c == cls)));
            let what_small = run_history(addr, auto, &small).and_then(|(_, o)| o.diffs.into_iter().find(|(c, _)| *c == cls).map(|(_, w)| w)).unwrap_or_else(|| what.clone());
            let mut d = history_json(addr, auto, &small);
            d.push(("observed", J::s(what_small.clone())));
            d.push(("original_history_len", J::us(history.len())));
            rep.violation(
                "lockstep_refsign",
                cls,
                &small.iter().map(|m| m.show()).collect::<Vec<_>>().join(" "),
                format!("virtual sign {:04X} ({}) after [{}]: {}", addr, if auto { "automatic" } else { "manual" }, show_history(&small), what_small),
                J::obj(d),
            );
        }
    }
}

// ------------------------------------------------------------------------------------------------
// Message material

pub const TINY1: [u8; 16] = [0x04, 0x99, 0x00, 0x01, 0x08, 12, 0, 0, 0, 0x08, 0, 0, 0, 0, 0, 0]; // 12x8: one chunk per page
pub const TINY2: [u8; 16] = [0x04, 0x9A, 0x00, 0x02, 0x08, 14, 14, 0, 0, 0x08, 0, 0, 0, 0, 0, 0]; // 28x8: two chunks per page
pub const BADFAM: [u8; 16] = [0x0F, 0x99, 0x00, 0x0F, 0x09, 0x1C, 0x1C, 0, 0, 0x10, 0, 0, 0, 0, 0, 0];

pub fn type_block(t: usize) -> Vec<u8> {
    TYPES[t].ty.to_bytes().to_vec()
}

pub fn page_chunk(id: u8, fill: u8) -> Vec<u8> {
    let mut v = vec![id, 0x10, 0, 0];
    v.extend(std::iter::repeat(fill).take(12));
    v
}

pub fn kind_index(m: &RefMsg, own: u16, model: &RefSign) -> Option<u64> {
    Some(match m {
        RefMsg::Request(a, o) if *a == own => *o as u64,
        RefMsg::Hello(a) if *a == own => 6,
        RefMsg::Query(a) if *a == own => 7,
        RefMsg::Complete(a) if *a == own => 8,
        RefMsg::Goodbye(a) if *a == own => 9,
        RefMsg::Data { offset: 0, .. } => 10,
        RefMsg::Data { .. } => 11,
        RefMsg::Count(n) if *n == model.chunks => 12,
        RefMsg::Count(_) => 13,
        _ => return None,
    })
}
pub const N_KINDS: u64 = 14;

// ------------------------------------------------------------------------------------------------
// Breadth-first exploration of the real implementation's state

pub struct Cfg {
    pub name: &'static str,
    pub addr: u16,
    pub foreign: u16,
    pub auto: bool,
    pub msgs: Vec<RefMsg>,
    pub max_pending: usize,
    pub max_chunks: u16,
    pub max_pages: usize,
    pub max_states: usize,
    /// true: a divergence from the reference machine counts as a failure (C13, C08); false: only panics do
    /// (C12) — diverged successors are still not expanded, so the explored region is the same.
    pub lockstep: bool,
}

pub struct Node {
    pub pair: Pair,
    pub parent: u32,
    pub via: Option<RefMsg>,
}

pub struct Explored {
    pub nodes: Vec<Node>,
    pub transitions: u64,
    pub fixed_point: bool,
    pub not_expanded: u64,
}

pub fn path_to(nodes: &[Node], mut i: usize) -> Vec<RefMsg> {
    let mut p = vec![];
    while let Some(m) = &nodes[i].via {
        p.push(m.clone());
        i = nodes[i].parent as usize;
    }
    p.reverse();
    p
}

pub fn wide_alphabet(addr: u16, foreign: u16, genuine: usize) -> Vec<RefMsg> {
    let mut v = vec![];
    for a in [addr, foreign] {
        v.push(RefMsg::Hello(a));
        v.push(RefMsg::Query(a));
        v.push(RefMsg::Complete(a));
        v.push(RefMsg::Goodbye(a));
        for o in 0..N_OPS {
            v.push(RefMsg::Request(a, o));
        }
    }
    let contents: Vec<Vec<u8>> = vec![
        type_block(genuine),
        TINY1.to_vec(),
        TINY2.to_vec(),
        BADFAM.to_vec(),
        page_chunk(1, 0x00),
        page_chunk(2, 0xFF),
        vec![0x11; 15],
        vec![0x22; 17],
        vec![],
        vec![0x33],
    ];
    for off in [0u16, 16] {
        for c in &contents {
            v.push(RefMsg::Data { offset: off, data: c.clone() });
        }
    }
    v.push(RefMsg::Ack(addr, O_RECV_PIX));
    v.push(RefMsg::Report(addr, S_CFG_RECV));
    v.push(RefMsg::Unknown { addr, ty: 0x07, data: vec![1, 2] });
    v
}

pub fn narrow_alphabet(addr: u16, foreign: u16, genuine: usize) -> Vec<RefMsg> {
    let mut v = vec![RefMsg::Hello(addr), RefMsg::Complete(addr), RefMsg::Goodbye(addr), RefMsg::Request(foreign, O_START_RESET)];
    for o in 0..N_OPS {
        v.push(RefMsg::Request(addr, o));
    }
    for off in [0u16, 16, 32] {
        for c in [type_block(genuine), TINY1.to_vec(), page_chunk(1, 0x00), page_chunk(2, 0xFF), vec![0x11; 15]] {
            if off == 32 && c.len() != 16 {
                continue;
            }
            v.push(RefMsg::Data { offset: off, data: c });
        }
    }
    v
}

/// The explorer's visited set is keyed by the implementation's own `Eq` / `Hash`. That is sound only if two signs that
/// compare equal have the same future. This probe builds pairs of signs whose observables agree but whose futures differ
/// (different buffered bytes, different chunk tallies, different configured sizes) and returns how many of the pairs the
/// implementation's equality fails to separate (0 on a tree whose `VirtualSign` derives `PartialEq` / `Hash` over all of
/// its fields). A non-zero result makes every exploration inconclusive, not wrong.
pub fn equality_merges_states_with_different_futures() -> usize {
    use std::hash::{Hash, Hasher};
    let run = |msgs: &[RefMsg]| {
        let mut s = VirtualSign::new(Address(3), PageFlipStyle::Manual);
        for m in msgs {
            let _ = s.process_message(&refs::from_ref(m));
        }
        s
    };
    let cfg1 = configure_msgs(3, &TINY1);
    let cfg2 = configure_msgs(3, &TINY2);
    let with = |head: &[RefMsg], tail: &[RefMsg]| [head, tail].concat();
    let pairs: Vec<(Vec<RefMsg>, Vec<RefMsg>)> = vec![
        // same state (pixels in progress), different buffered bytes
        (with(&cfg2, &[RefMsg::Request(3, O_RECV_PIX), RefMsg::Data { offset: 0, data: vec![1; 16] }]), with(&cfg2, &[RefMsg::Request(3, O_RECV_PIX), RefMsg::Data { offset: 0, data: vec![2; 16] }])),
        // same state, same bytes, different number of chunks counted
        (with(&cfg2, &[RefMsg::Request(3, O_RECV_PIX), RefMsg::Data { offset: 0, data: vec![1; 16] }]), with(&cfg2, &[RefMsg::Request(3, O_RECV_PIX), RefMsg::Data { offset: 0, data: vec![1; 8] }, RefMsg::Data { offset: 8, data: vec![1; 8] }])),
        // same state (configuration received, unknown type), different sizes
        (cfg1.clone(), cfg2.clone()),
        // configuration in progress: a block buffered or not yet
        (vec![RefMsg::Request(3, O_RECV_CFG)], vec![RefMsg::Request(3, O_RECV_CFG), RefMsg::Data { offset: 0, data: TINY1.to_vec() }]),
    ];
    let h = |s: &VirtualSign<'_>| {
        let mut x = std::collections::hash_map::DefaultHasher::new();
        s.hash(&mut x);
        x.finish()
    };
    let mut merged = 0;
    for (a, b) in &pairs {
        let (sa, sb) = (run(a), run(b));
        let same_observables = observe(&sa) == observe(&sb);
        if same_observables && (sa == sb || h(&sa) == h(&sb) && sa == sb) {
            merged += 1;
        }
        // equal histories give equal signs (the other half of what the visited set needs)
        if run(a) != sa || h(&run(a)) != h(&sa) {
            merged += 1;
        }
    }
    merged
}

/// Explores until no new state appears (or `max_states` is hit — then `fixed_point` is false).
/// `on_step(parent index, nodes, message, outcome)` is called for EVERY transition, expanded or not.
pub fn explore(cfg: &Cfg, rep: &mut Report, on_step: &mut dyn FnMut(&[Node], usize, &RefMsg, &StepOut, &mut Report)) -> Explored {
    let mut nodes = vec![Node {
        pair: Pair::new(cfg.addr, cfg.auto),
        parent: 0,
        via: None,
    }];
    let mut seen: HashSet<(VirtualSign<'static>, RefSign)> = HashSet::new();
    seen.insert((nodes[0].pair.sign.clone(), nodes[0].pair.model.clone()));
    let mut transitions = 0u64;
    let mut not_expanded = 0u64;
    let mut i = 0usize;
    let mut capped = false;
    let mut failing = 0u64;
    while i < nodes.len() {
        if failing > 50_000 {
            // the property is already refuted thousands of times over: stop burning time
            capped = true;
            break;
        }
        let chunks = nodes[i].pair.model.chunks;
        let mut msgs: Vec<RefMsg> = cfg.msgs.clone();
        for n in [chunks, chunks.wrapping_sub(1), chunks.wrapping_add(1), 0, 65_535] {
            let m = RefMsg::Count(n);
            if !msgs.contains(&m) {
                msgs.push(m);
            }
        }
        for m in msgs {
            let mut pair = nodes[i].pair.clone();
            let st_before = pair.model.st;
            if let Some(k) = kind_index(&m, cfg.addr, &pair.model) {
                rep.seen("matrix_own_state_x_kind", st_before as u64 * N_KINDS + k);
            }
            if let RefMsg::Request(a, o) = &m {
                if *a == cfg.foreign {
                    rep.seen("matrix_foreign_state_x_op", st_before as u64 * 6 + *o as u64);
                }
            }
            let out = step(&mut pair, &m);
            transitions += 1;
            on_step(&nodes, i, &m, &out, rep);
            if out.panic.is_some() || !out.diffs.is_empty() {
                // implementation and model are out of step: do not explore the product of two diverged machines
                if cfg.lockstep || out.panic.is_some() {
                    failing += 1;
                }
                continue;
            }
            if pair.model.pending.len() > cfg.max_pending || pair.model.chunks > cfg.max_chunks || pair.model.pages.len() > cfg.max_pages {
                not_expanded += 1;
                continue;
            }
            if nodes.len() >= cfg.max_states {
                capped = true;
                continue;
            }
            let key = (pair.sign.clone(), pair.model.clone());
            if seen.insert(key) {
                rep.seen("protocol_states_reached", pair.model.st as u64);
                nodes.push(Node {
                    pair,
                    parent: i as u32,
                    via: Some(m),
                });
            }
        }
        i += 1;
    }
    Explored {
        nodes,
        transitions,
        fixed_point: !capped,
        not_expanded,
    }
}

// ------------------------------------------------------------------------------------------------
// Hostile random walks

/// An arbitrary 16-byte configuration block: family 4 / 8 / other, other fields biased to 0, 255 and genuine values.
pub fn arbitrary_block(rng: &mut Rng) -> Vec<u8> {
    let mut b: Vec<u8> = match rng.below(4) {
        0 => type_block(rng.usize(TYPES.len())),
        1 => vec![0xFF; 16],
        2 => vec![0; 16],
        _ => (0..16).map(|_| rng.edgy_u8()).collect(),
    };
    b[0] = match rng.below(8) {
        0 => rng.u8(),
        1 | 2 | 3 => 8,
        _ => 4,
    };
    if rng.chance(1, 2) {
        for i in 4..12 {
            if rng.chance(1, 3) {
                b[i] = rng.edgy_u8();
            }
        }
    }
    if rng.chance(1, 3) {
        // keep it small enough that pages complete within a walk
        b[4] = 1 + rng.below(16) as u8;
        b[5] = rng.below(40) as u8;
        b[6] = rng.below(3) as u8;
        b[7] = if b[0] == 8 { 1 + rng.below(40) as u8 } else { 0 };
        b[8] = 0;
    }
    b
}

/// Next message of a hostile walk, chosen with knowledge of the model state so that walks get deep.
pub fn next_msg(rng: &mut Rng, model: &RefSign, foreign: u16) -> RefMsg {
    let own = model.addr;
    if rng.chance(45, 100) {
        // protocol-advancing move for the current state
        let page_len = padded_len(model.dims.0, model.dims.1);
        return match model.st {
            S_UNCONF | S_CFG_FAIL => RefMsg::Request(own, O_RECV_CFG),
            S_CFG_PROG => {
                if model.chunks == 0 || rng.chance(1, 5) {
                    RefMsg::Data { offset: 0, data: arbitrary_block(rng) }
                } else {
                    RefMsg::Count(model.chunks)
                }
            }
            S_CFG_RECV | S_PIX_FAIL | S_SHOWING => RefMsg::Request(own, O_RECV_PIX),
            S_PIX_PROG => {
                let have = model.pending.len();
                if have >= page_len || (have == 0 && model.chunks > 0 && rng.chance(1, 2)) {
                    if rng.chance(2, 3) {
                        RefMsg::Count(model.chunks)
                    } else {
                        RefMsg::Data { offset: 0, data: first_chunk(rng, page_len) }
                    }
                } else if have == 0 {
                    RefMsg::Data { offset: 0, data: first_chunk(rng, page_len) }
                } else {
                    let n = (page_len - have).min(16);
                    RefMsg::Data { offset: have as u16, data: rng.bytes(n) }
                }
            }
            S_PIX_RECV => RefMsg::Complete(own),
            S_LOADED => RefMsg::Request(own, if rng.chance(3, 4) { O_SHOW } else { O_RECV_PIX }),
            S_SHOWN => RefMsg::Request(own, if rng.chance(3, 4) { O_LOAD_NEXT } else { O_RECV_PIX }),
            S_LOAD_PROG | S_SHOW_PROG => RefMsg::Query(own),
            _ => RefMsg::Request(own, O_FINISH_RESET),
        };
    }
    let a = if rng.chance(4, 5) { own } else if rng.bool() { foreign } else { rng.u16() };
    match rng.below(16) {
        0 => RefMsg::Hello(a),
        1 => RefMsg::Query(a),
        2 => RefMsg::Complete(a),
        3 => {
            if rng.chance(1, 4) { RefMsg::Goodbye(a) } else { RefMsg::Query(a) }
        }
        4 | 5 | 6 => RefMsg::Request(a, rng.usize(N_OPS)),
        7 | 8 => {
            let n = match rng.below(6) {
                0 => model.chunks,
                1 => model.chunks.wrapping_add(1),
                2 => model.chunks.wrapping_sub(1),
                3 => 0,
                4 => 65_535,
                _ => rng.u16(),
            };
            RefMsg::Count(n)
        }
        9 => RefMsg::Data { offset: 0, data: arbitrary_block(rng) },
        10 | 11 | 12 | 13 => {
            let len = match rng.below(6) {
                0 => 16,
                1 => 0,
                2 => 255,
                3 => 1 + rng.usize(17),
                _ => rng.usize(256),
            };
            let offset = match rng.below(4) {
                0 => 0,
                1 => 16,
                2 => model.pending.len() as u16,
                _ => rng.u16(),
            };
            RefMsg::Data { offset, data: rng.bytes(len) }
        }
        14 => RefMsg::Ack(a, rng.usize(N_OPS)),
        _ => {
            if rng.bool() {
                RefMsg::Report(a, rng.usize(N_STATES))
            } else {
                {
                    let n = rng.usize(4);
                    RefMsg::Unknown { addr: a, ty: 7 + rng.below(248) as u8, data: rng.bytes(n) }
                }
            }
        }
    }
}

fn first_chunk(rng: &mut Rng, page_len: usize) -> Vec<u8> {
    let n = page_len.min(16).max(1);
    let mut v = rng.bytes(n);
    v[0] = rng.u8();
    if n > 1 {
        v[1] = 0x10;
    }
    v
}

/// A correct transfer of `pages` pages for the model's configured size, as a message list.
pub fn correct_transfer(rng: &mut Rng, own: u16, dims: (u32, u32), pages: usize) -> Vec<RefMsg> {
    let mut v = vec![RefMsg::Request(own, O_RECV_PIX)];
    let len = padded_len(dims.0, dims.1);
    let mut chunks = 0u16;
    for p in 0..pages {
        let mut img = rng.bytes(len);
        img[0] = p as u8;
        for (i, c) in img.chunks(16).enumerate() {
            v.push(RefMsg::Data { offset: (i * 16) as u16, data: c.to_vec() });
            chunks = chunks.wrapping_add(1);
        }
    }
    v.push(RefMsg::Count(chunks));
    v.push(RefMsg::Query(own));
    v.push(RefMsg::Complete(own));
    v.push(RefMsg::Query(own));
    v
}

pub fn configure_msgs(own: u16, block: &[u8]) -> Vec<RefMsg> {
    vec![
        RefMsg::Hello(own),
        RefMsg::Request(own, O_RECV_CFG),
        RefMsg::Data { offset: 0, data: block.to_vec() },
        RefMsg::Count(1),
        RefMsg::Query(own),
    ]
}

// ------------------------------------------------------------------------------------------------
// Replay of a stored history (C12 / C13)

pub fn parse_history(d: &J) -> Option<(u16, bool, Vec<RefMsg>)> {
    let addr = d.get("address")?.as_u64()? as u16;
    let auto = matches!(d.get("automatic"), Some(J::Bool(true)));
    let mut h = vec![];
    for m in d.get("history")?.as_arr()? {
        h.push(RefMsg::parse(m.as_str()?)?);
    }
    Some((addr, auto, h))
}

pub fn replay(prop: &str, d: &J, rep: &mut Report) -> bool {
    let Some((addr, auto, h)) = parse_history(d) else { return false };
    if let Some((i, out)) = run_history(addr, auto, &h) {
        report_failure(prop, addr, auto, &h[..=i], &out, rep);
    }
    true
}
