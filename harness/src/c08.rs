//! C08 — pages sent through the controller arrive bit-exact, from any prior sign state.
//! Postcondition monitor: the real `Sign` drives real `VirtualSign`s whose prior states come from the
//! breadth-first explorer (every protocol state, half-finished transfers, other sign types) and from real
//! controller calls abandoned at every message index.

use std::cell::RefCell;
use std::rc::Rc;

use flipdot::{Address, Page, PageFlipStyle, PageId};
use flipdot_testing::{VirtualSign, VirtualSignBus};

use crate::ctl::{self, SignOut};
use crate::doubles::{FaultBus, SharedBus};
use crate::refctl::Op;
use crate::refs::*;
use crate::util::{Ctx, J, Outcome, Report, Rng, floor, fnv, mix, run_sharded};
use crate::vsx::{self, Cfg};

const MON: &str = "controller_postconditions";

const ADDRS: [u16; 9] = [0, 1, 3, 0x7F, 0x80, 0xFF, 0x100, 0x7FFF, 0xFFFF];
const READY: [usize; 6] = [S_CFG_RECV, S_SHOWING, S_LOADED, S_SHOW_PROG, S_SHOWN, S_LOAD_PROG];

fn mk_pages(ty: usize, rng: &mut Rng, n: usize) -> Vec<Page<'static>> {
    let (w, h) = (TYPES[ty].w, TYPES[ty].h);
    (0..n)
        .map(|_| {
            let id = if rng.chance(1, 4) { 0 } else { rng.u8() }; // duplicates on purpose
            let mut p = Page::new(PageId(id), w, h);
            // a quarter of the pages are not the library's own making: arbitrary header bytes 1..3, unused bits and padding
            // (what a capture from a real controller looks like), all FF (a last chunk of nothing but FF), all 00
            match rng.below(16) {
                0 | 1 => {
                    let n = p.as_bytes().len();
                    return Page::from_bytes(w, h, rng.bytes(n)).expect("padded length");
                }
                2 => {
                    let n = p.as_bytes().len();
                    let mut b = vec![0xFFu8; n];
                    b[0] = id;
                    return Page::from_bytes(w, h, b).expect("padded length");
                }
                3 => {
                    let n = p.as_bytes().len();
                    return Page::from_bytes(w, h, vec![0u8; n]).expect("padded length");
                }
                // a page that LOOKS LIKE THIS SIGN'S OWN CONFIGURATION where it begins: its first 16 bytes are the type's
                // block (exactly; or with an ordinary page header in bytes 1..3, which a page made with set_pixel can be:
                // id = the block's family byte, first columns = the block's size fields), or another type's block
                4 | 5 => {
                    let n = p.as_bytes().len();
                    let block = TYPES[if rng.chance(1, 4) { rng.usize(TYPES.len()) } else { ty }].ty.to_bytes();
                    let mut b = if rng.bool() { rng.bytes(n) } else { vec![0u8; n] };
                    b[..16].copy_from_slice(&block[..16]);
                    if rng.bool() {
                        b[1..4].copy_from_slice(&p.as_bytes()[1..4]);
                    }
                    return Page::from_bytes(w, h, b).expect("padded length");
                }
                _ => {}
            }
            match rng.below(4) {
                0 => {}
                1 => p.set_all_pixels(true),
                2 => p.set_pixel(rng.below(u64::from(w)) as u32, rng.below(u64::from(h)) as u32, true),
                _ => {
                    for _ in 0..rng.usize((w * h) as usize) {
                        p.set_pixel(rng.below(u64::from(w)) as u32, rng.below(u64::from(h)) as u32, rng.bool());
                    }
                }
            }
            p
        })
        .collect::<Vec<_>>()
        .into_iter()
        .fold(vec![], |mut v: Vec<Page<'static>>, p| {
            // now and then the same page twice in a row (a blink sequence, a repeated frame of an animation)
            if !v.is_empty() && rng.chance(1, 6) {
                let prev = v.last().unwrap().clone();
                v.push(prev);
            } else {
                v.push(p);
            }
            v
        })
}

fn pages_equal(have: &[Page<'_>], want: &[Page<'static>]) -> Result<(), String> {
    if have.len() != want.len() {
        return Err(format!("sign holds {} page(s), {} were sent", have.len(), want.len()));
    }
    for (i, (a, b)) in have.iter().zip(want).enumerate() {
        if a.width() != b.width() || a.height() != b.height() {
            return Err(format!("page {} is {}x{}, sent {}x{}", i, a.width(), a.height(), b.width(), b.height()));
        }
        if a.as_bytes() != b.as_bytes() {
            let at = a.as_bytes().iter().zip(b.as_bytes()).position(|(x, y)| x != y);
            return Err(format!("page {} differs from what was sent (first difference at byte {:?})", i, at));
        }
    }
    Ok(())
}

struct Scenario<'p> {
    prior: &'p VirtualSign<'static>,
    prior_desc: String,
    ty: usize,
    addr: u16,
    auto: bool,
    use_if_needed: bool,
    bystanders: usize,
    position: usize,
    seed: u64,
    /// length of the first page list (None: random 0..=3)
    first_list_len: Option<usize>,
}

/// Runs one scenario and checks every postcondition of the statement.
fn run_scenario(sc: &Scenario<'_>, rep: &mut Report) {
    let mut rng = Rng::new(sc.seed);
    let prior_state = st_index(sc.prior.state());
    rep.case(Some(mix(fnv(format!("{:?}", sc.prior).as_bytes()), mix(sc.seed, sc.ty as u64))));
    rep.seen("prior_state_x_type", (prior_state * 16 + sc.ty) as u64);
    rep.seen("prior_states", prior_state as u64);
    rep.count(if sc.use_if_needed { "entry/configure_if_needed" } else { "entry/configure" });
    rep.count(if sc.auto { "style/automatic" } else { "style/manual" });
    // bus population: bystanders at other addresses around the sign under test
    let mut signs: Vec<VirtualSign<'static>> = vec![];
    let others: Vec<u16> = ADDRS.iter().copied().filter(|a| *a != sc.addr).collect();
    for b in 0..sc.bystanders {
        let baddr = others[(b + sc.ty) % others.len()];
        let mut by = VirtualSign::new(Address(baddr), if b % 2 == 0 { PageFlipStyle::Manual } else { PageFlipStyle::Automatic });
        // half of the bystanders were themselves left in the middle of a transfer by earlier traffic (a configuration
        // request that was never followed up, or a pixel transfer that stopped after its first chunk)
        match (sc.seed >> (8 + 2 * b)) & 3 {
            0 => {
                by.process_message(&from_ref(&RefMsg::Request(baddr, O_RECV_CFG)));
                rep.count("bystanders_left_mid_transfer");
            }
            1 => {
                for m in vsx::configure_msgs(baddr, &BLOCKS[(sc.ty + 3) % TYPES.len()]) {
                    by.process_message(&from_ref(&m));
                }
                by.process_message(&from_ref(&RefMsg::Request(baddr, O_RECV_PIX)));
                by.process_message(&from_ref(&RefMsg::Data { offset: 0, data: vec![0x11; 16] }));
                rep.count("bystanders_left_mid_transfer");
            }
            _ => {}
        }
        signs.push(by);
    }
    let pos = sc.position.min(signs.len());
    signs.insert(pos, sc.prior.clone());
    let bus = Rc::new(RefCell::new(VirtualSignBus::new(signs)));
    let sign = ctl::mk_sign(bus.clone(), sc.addr, sc.ty);
    let want_type = Some(TYPES[sc.ty].ty);
    let mut steps: Vec<String> = vec![];
    let mut fails: Vec<(&'static str, String)> = vec![];
    let obs = |bus: &Rc<RefCell<VirtualSignBus<'static>>>| {
        let b = bus.borrow();
        let s = b.sign(pos);
        (st_index(s.state()), s.sign_type(), s.pages().len())
    };
    macro_rules! check {
        ($cond:expr, $class:expr, $($arg:tt)*) => {
            if !$cond {
                fails.push(($class, format!($($arg)*)));
            }
        };
    }
    'run: {
        // 1. configure
        let op = if sc.use_if_needed { Op::ConfigureIfNeeded } else { Op::Configure };
        let out = ctl::run_op(&sign, &op, &[]);
        steps.push(format!("{} -> {}", op.name(), out.show()));
        check!(out == SignOut::Ok, "configure_failed", "{} returned {}", op.name(), out.show());
        if !fails.is_empty() {
            break 'run;
        }
        let (st, ty, np) = obs(&bus);
        check!(ty == want_type, "wrong_type_after_configure", "sign records type {:?} after {}", ty, op.name());
        if sc.use_if_needed && READY.contains(&prior_state) {
            check!(READY.contains(&st), "wrong_state_after_configure", "state {} after configure_if_needed on a ready sign", st_name(st));
            rep.count("if_needed_skipped_configuration");
        } else {
            check!(st == S_CFG_RECV, "wrong_state_after_configure", "state {} after {}", st_name(st), op.name());
            check!(np == 0, "pages_left_after_configure", "{} page(s) left after {}", np, op.name());
        }
        if !fails.is_empty() {
            break 'run;
        }
        // 2. send pages (twice: the second list must replace the first)
        for round in 0..2 {
            let n_pages = match (round, sc.first_list_len) {
                (0, Some(n)) => n,
                _ => rng.usize(4),
            };
            rep.seen("page_list_lengths", n_pages.min(4) as u64);
            rep.max("longest_page_list", n_pages as f64);
            let pages = mk_pages(sc.ty, &mut rng, n_pages);
            // the second list is pulled lazily by an application that looks at the sign on the bus (shared borrow, then a
            // mutable one) every time a page is pulled: the controller holds the bus only while it talks
            let out = if round == 1 {
                rep.count("page_lists_pulled_by_an_application_that_watches_the_bus");
                ctl::send_pages_lazily(&sign, &pages, &|| {
                    let seen = bus.borrow().sign(pos).pages().len();
                    let _ = (seen, bus.borrow_mut().sign(pos).state());
                })
            } else {
                ctl::run_op(&sign, &Op::SendPages, &pages)
            };
            steps.push(format!("send_pages({}) -> {}", n_pages, out.show()));
            check!(out == SignOut::OkStyle { automatic: sc.auto }, "send_pages_result", "send_pages returned {}, the sign flips {}", out.show(), if sc.auto { "automatically" } else { "manually" });
            if !fails.is_empty() {
                break 'run;
            }
            {
                let b = bus.borrow();
                let s = b.sign(pos);
                if let Err(e) = pages_equal(s.pages(), &pages) {
                    fails.push(("pages_not_bit_exact", e));
                }
                let want_state = if sc.auto { S_SHOWING } else { S_LOADED };
                check!(st_index(s.state()) == want_state, "wrong_state_after_send", "state {} after send_pages, expected {}", st_name(st_index(s.state())), st_name(want_state));
                check!(s.sign_type() == want_type, "wrong_type_after_send", "type {:?} after send_pages", s.sign_type());
            }
            if !fails.is_empty() {
                break 'run;
            }
            rep.count("page_lists_delivered");
            rep.add("pages_compared", n_pages as u64);
            // 3. show / load next
            let before = obs(&bus);
            for (op, manual_state) in [(Op::Show, S_SHOWN), (Op::LoadNext, S_LOADED), (Op::Show, S_SHOWN)] {
                let out = ctl::run_op(&sign, &op, &[]);
                steps.push(format!("{} -> {}", op.name(), out.show()));
                check!(out == SignOut::Ok, "page_flip_failed", "{} returned {}", op.name(), out.show());
                let now = obs(&bus);
                if sc.auto {
                    check!(now == before, "page_flip_changed_automatic_sign", "{} changed an automatic sign: state {} pages {}", op.name(), st_name(now.0), now.2);
                } else {
                    check!(now.0 == manual_state, "wrong_state_after_page_flip", "state {} after {}, expected {}", st_name(now.0), op.name(), st_name(manual_state));
                    check!(now.2 == before.2, "page_flip_changed_pages", "{} changed the number of stored pages", op.name());
                }
                if !fails.is_empty() {
                    break 'run;
                }
            }
            if round == 0 && rng.bool() {
                // sometimes re-send straight from the shown state, sometimes after loading the next page
                let out = ctl::run_op(&sign, &Op::LoadNext, &[]);
                steps.push(format!("load_next_page -> {}", out.show()));
                check!(out == SignOut::Ok, "page_flip_failed", "load_next_page returned {}", out.show());
            }
        }
        // 3b. a second controller object for the same sign takes a turn (it trusts the sign or configures it anew, and
        //     sends other pages); then the first controller sends ITS last list once more: the sign holds that list again
        if rng.chance(1, 3) {
            let last: Vec<Page<'static>> = {
                let b = bus.borrow();
                b.sign(pos).pages().iter().map(|p| Page::from_bytes(p.width(), p.height(), p.as_bytes().to_vec()).expect("a stored page")).collect()
            };
            // make sure the first controller's own last call was a send of exactly `last`
            let out = ctl::run_op(&sign, &Op::SendPages, &last);
            steps.push(format!("send_pages({}) again -> {}", last.len(), out.show()));
            check!(out == SignOut::OkStyle { automatic: sc.auto }, "send_pages_result", "send_pages returned {}", out.show());
            let other = ctl::mk_sign(bus.clone(), sc.addr, sc.ty);
            let entry = if rng.bool() { Op::ConfigureIfNeeded } else { Op::Configure };
            let out = ctl::run_op(&other, &entry, &[]);
            steps.push(format!("second controller: {} -> {}", entry.name(), out.show()));
            let n_theirs = 1 + rng.usize(2);
            let theirs = mk_pages(sc.ty, &mut rng, n_theirs);
            let out = ctl::run_op(&other, &Op::SendPages, &theirs);
            steps.push(format!("second controller: send_pages({}) -> {}", theirs.len(), out.show()));
            check!(out == SignOut::OkStyle { automatic: sc.auto }, "send_pages_result", "the second controller's send_pages returned {}", out.show());
            if let Err(e) = pages_equal(bus.borrow().sign(pos).pages(), &theirs) {
                fails.push(("pages_not_bit_exact", format!("after the second controller's send: {}", e)));
            }
            drop(other);
            // ... and a controller for ANOTHER address comes into being on the same bus before the first one goes on (controller
            // objects come and go; what one of them holds must not move under it)
            let stranger = ctl::mk_sign(bus.clone(), sc.addr ^ 0x0101, (sc.ty + 1) % TYPES.len());
            let out = ctl::run_op(&sign, &Op::SendPages, &last);
            steps.push(format!("first controller: send_pages({}) (the list it sent before) -> {}", last.len(), out.show()));
            check!(out == SignOut::OkStyle { automatic: sc.auto }, "send_pages_result", "send_pages returned {}", out.show());
            if let Err(e) = pages_equal(bus.borrow().sign(pos).pages(), &last) {
                fails.push(("pages_not_bit_exact", format!("after the first controller re-sent the list it had sent before (another controller had sent other pages in between): {}", e)));
            }
            drop(stranger);
            rep.count("two_controllers_taking_turns");
            if !fails.is_empty() {
                break 'run;
            }
        }
        // 4. shut down
        let out = ctl::run_op(&sign, &Op::ShutDown, &[]);
        steps.push(format!("shut_down -> {}", out.show()));
        check!(out == SignOut::Ok, "shut_down_failed", "shut_down returned {}", out.show());
    }
    for (class, what) in fails {
        rep.violation(
            MON,
            class,
            &format!("{}|{}|{:04X}|{}|{}|{}", sc.prior_desc, TYPES[sc.ty].name, sc.addr, sc.auto, sc.use_if_needed, sc.seed),
            format!("prior [{}], {} @{:04X} {}: {} — steps [{}]", sc.prior_desc, TYPES[sc.ty].name, sc.addr, if sc.auto { "automatic" } else { "manual" }, what, steps.join("; ")),
            J::obj(vec![
                ("prior_state", J::s(sc.prior_desc.clone())),
                ("prior_debug", J::s(format!("{:?}", sc.prior).chars().take(600).collect::<String>())),
                ("sign_type", J::s(TYPES[sc.ty].name)),
                ("address", J::u(sc.addr)),
                ("automatic", J::Bool(sc.auto)),
                ("entry", J::s(if sc.use_if_needed { "configure_if_needed" } else { "configure" })),
                ("bystanders", J::us(sc.bystanders)),
                ("seed", J::Int(sc.seed as i128)),
                ("steps", J::Arr(steps.iter().map(|s| J::s(s.clone())).collect())),
                ("observed", J::s(what.clone())),
            ]),
        );
    }
    if rep.wants_sample() {
        rep.sample(|| J::obj(vec![("prior", J::s(sc.prior_desc.clone())), ("sign_type", J::s(TYPES[sc.ty].name)), ("address", J::u(sc.addr)), ("automatic", J::Bool(sc.auto)), ("steps", J::Arr(steps.iter().map(|s| J::s(s.clone())).collect()))]));
    }
}

/// May configure_if_needed be used from this prior state? (Contract: it trusts a sign that reports itself ready.)
fn if_needed_in_scope(prior: &VirtualSign<'_>, ty: usize) -> bool {
    let st = st_index(prior.state());
    !READY.contains(&st) || prior.sign_type() == Some(TYPES[ty].ty)
}

fn describe(m: &crate::refsign::RefSign) -> String {
    format!("{} type={} dims={}x{} pages={} buffered={} chunks={}", st_name(m.st), m.ty.map(|t| TYPES[t].name).unwrap_or("None"), m.dims.0, m.dims.1, m.pages.len(), m.pending.len(), m.chunks)
}

/// Explores the virtual sign for (type, other type, unknown block) and runs scenarios from the states reached.
fn from_explored(ctx: &Ctx, ty: usize, auto: bool, rep: &mut Report) {
    let addr = ADDRS[(ty * 2 + auto as usize) % ADDRS.len()];
    let other = (ty + 5) % TYPES.len();
    let mut msgs = vec![RefMsg::Hello(addr), RefMsg::Complete(addr), RefMsg::Goodbye(addr)];
    for o in 0..N_OPS {
        msgs.push(RefMsg::Request(addr, o));
    }
    for off in [0u16, 16] {
        for c in [vsx::type_block(ty), vsx::type_block(other), vsx::TINY1.to_vec(), vsx::page_chunk(1, 0xA5), vec![0x3C; 15]] {
            msgs.push(RefMsg::Data { offset: off, data: c });
        }
    }
    let cfg = Cfg { name: "c08", addr, foreign: addr ^ 1, auto, msgs, max_pending: if ctx.quick() { 48 } else { 96 }, max_chunks: if ctx.quick() { 3 } else { 7 }, max_pages: if ctx.quick() { 1 } else { 3 }, max_states: if ctx.quick() { 60_000 } else { 3_000_000 }, lockstep: true };
    let mut scratch = Report::new();
    let ex = vsx::explore(&cfg, &mut scratch, &mut |_, _, _, _, _| {});
    rep.add("explored_prior_states", ex.nodes.len() as u64);
    if ex.fixed_point {
        rep.count("explorations_at_fixed_point");
    }
    let n = ex.nodes.len();
    // quick: a stride sample that keeps every protocol state; thorough: every explored state
    let stride = 1usize; // every explored state in both tiers (the tiers differ in the exploration bounds)
    let _ = n;
    let mut seen_states = [0usize; 13];
    for (i, node) in ex.nodes.iter().enumerate() {
        let st = node.pair.model.st;
        let take = i % stride == 0 || seen_states[st] < 6;
        if !take {
            continue;
        }
        seen_states[st] += 1;
        let desc = describe(&node.pair.model);
        for variant in 0..2u64 {
            let use_if_needed = variant == 1;
            if use_if_needed && !if_needed_in_scope(&node.pair.sign, ty) {
                rep.count("if_needed_out_of_scope_skipped");
                continue;
            }
            run_scenario(
                &Scenario { prior: &node.pair.sign, prior_desc: desc.clone(), ty, addr, auto, use_if_needed, bystanders: (i + variant as usize) % 3, position: i % 3, seed: mix(ctx.seed, (i as u64) << 8 | variant), first_list_len: None },
                rep,
            );
        }
    }
}

/// Prior states produced by abandoning real controller calls at every message index.
fn from_abandoned_calls(ctx: &Ctx, ty: usize, auto: bool, rep: &mut Report) {
    let addr = ADDRS[(ty + 4) % ADDRS.len()];
    let other = (ty + 3) % TYPES.len();
    let mut rng = ctx.rng("abandon", (ty * 2 + auto as usize) as u64);
    // the sequence of calls whose prefixes we abandon: configure(other type), send 2 pages, show, configure again
    for fail_at in 0..400usize {
        let vb = Rc::new(RefCell::new(VirtualSignBus::new(vec![VirtualSign::new(Address(addr), if auto { PageFlipStyle::Automatic } else { PageFlipStyle::Manual })])));
        let fb = Rc::new(RefCell::new(FaultBus { inner: SharedBus(vb.clone()), fail_at, seen: 0 }));
        let first_type = if fail_at % 2 == 0 { ty } else { other };
        let s1 = ctl::mk_sign(fb.clone(), addr, first_type);
        let mut all_ok = true;
        let mut calls = vec![];
        for op in [Op::Configure, Op::SendPages, Op::Show, Op::LoadNext, Op::SendPages, Op::Configure] {
            let pages = if op == Op::SendPages { mk_pages(first_type, &mut rng, 2) } else { vec![] };
            let out = ctl::run_op(&s1, &op, &pages);
            calls.push(format!("{}:{}", op.name(), if out.is_ok() { "ok" } else { "abandoned" }));
            if !out.is_ok() {
                all_ok = false;
                break;
            }
        }
        drop(s1);
        // every third abandonment is followed by a shut_down from a healthy controller (the documented way to
        // power a sign down), so that "abandoned, then said goodbye to" is among the prior states
        if fail_at % 3 == 2 {
            let s2 = ctl::mk_sign(vb.clone(), addr, first_type);
            let out = ctl::run_op(&s2, &Op::ShutDown, &[]);
            calls.push(format!("shut_down:{}", if out.is_ok() { "ok" } else { "failed" }));
            rep.count("abandoned_then_shut_down_prior_states");
        }
        let prior = vb.borrow().sign(0).clone();
        let desc = format!("abandoned after message {} of [{}] as {}: {:?}", fail_at, calls.join(","), TYPES[first_type].name, prior.state());
        rep.count("abandoned_call_prior_states");
        for use_if_needed in [false, true] {
            if use_if_needed && !if_needed_in_scope(&prior, ty) {
                continue;
            }
            run_scenario(&Scenario { prior: &prior, prior_desc: desc.clone(), ty, addr, auto, use_if_needed, bystanders: fail_at % 3, position: fail_at % 2, seed: mix(ctx.seed, fail_at as u64), first_list_len: None }, rep);
        }
        if all_ok {
            break; // fail_at beyond the end of the call sequence: every abandonment point has been covered
        }
    }
}

/// A page list so long that the transfer has more chunks than the 16-bit count on the wire can express (it wraps, on
/// both sides): "sending any list of pages of that sign's size succeeds".
fn long_list(ctx: &Ctx, ty: usize, auto: bool, rep: &mut Report) {
    let addr = ADDRS[(ty + 1) % ADDRS.len()];
    let chunks_per_page = padded_len(TYPES[ty].w, TYPES[ty].h).div_ceil(16);
    let prior = VirtualSign::new(Address(addr), if auto { PageFlipStyle::Automatic } else { PageFlipStyle::Manual });
    for extra in [0usize, 2] {
        // 65535 chunks or fewer (just below the wrap) / more than 65536
        let n = if extra == 0 { 65_535 / chunks_per_page } else { 65_536 / chunks_per_page + extra };
        rep.count("long_page_lists");
        rep.max("most_chunks_in_one_transfer", (n * chunks_per_page) as f64);
        run_scenario(&Scenario { prior: &prior, prior_desc: format!("fresh sign, list of {} pages = {} chunks", n, n * chunks_per_page), ty, addr, auto, use_if_needed: false, bystanders: extra, position: 0, seed: mix(ctx.seed, (ty * 4 + extra) as u64), first_list_len: Some(n) }, rep);
    }
}

pub fn run(ctx: &Ctx) -> Outcome {
    let jobs: Vec<(usize, bool, u8)> = (0..TYPES.len()).flat_map(|t| [(t, false, 0u8), (t, true, 0), (t, false, 1), (t, true, 1), (t, t % 2 == 0, 2)]).collect();
    let mut report = run_sharded(ctx, jobs.len(), |i, rep| {
        let (ty, auto, kind) = jobs[i];
        if kind == 2 {
            long_list(ctx, ty, auto, rep);
        } else if kind == 1 {
            from_abandoned_calls(ctx, ty, auto, rep);
        } else {
            from_explored(ctx, ty, auto, rep);
        }
        rep.count("jobs_done");
    });
    {
        // the same calls from a thread-local destructor while a thread exits (see exitprobe.rs)
        let mut at_exit = Report::new();
        crate::exitprobe::check("controller", "controller_postconditions", &mut at_exit);
        report.merge(at_exit);
    }
    let cells = report.set_len("prior_state_x_type");
    let floors = vec![
        floor("all jobs (11 types x 2 styles x {explored, abandoned} + 11 long lists)", report.get("jobs_done") == 55, report.get("jobs_done")),
        floor("page lists pulled lazily by an application that borrows the bus between pages", report.get("page_lists_pulled_by_an_application_that_watches_the_bus") > 1000, report.get("page_lists_pulled_by_an_application_that_watches_the_bus")),
        floor("two controller objects for one sign taking turns", report.get("two_controllers_taking_turns") > 1000, report.get("two_controllers_taking_turns")),
        floor("other signs on the bus left in the middle of a transfer", report.get("bystanders_left_mid_transfer") > 1000, report.get("bystanders_left_mid_transfer")),
        floor("page lists below and above 65536 chunks for every type", report.get("long_page_lists") == 22 && report.maxs.get("most_chunks_in_one_transfer").copied().unwrap_or(0.0) > 65_536.0, report.get("long_page_lists")),
        floor("the implementation's equality separates sign states whose futures differ (the explorer's visited set relies on it)", vsx::equality_merges_states_with_different_futures() == 0, vsx::equality_merges_states_with_different_futures()),
        floor("every exploration reached a fixed point", report.get("explorations_at_fixed_point") == 22, report.get("explorations_at_fixed_point")),
        floor("all 13 protocol states used as prior state", report.set_len("prior_states") == 13, report.set_len("prior_states")),
        floor("(prior state x type) cells (13 x 11)", cells == 143, cells),
        floor("both entry points and both styles", ["entry/configure", "entry/configure_if_needed", "style/automatic", "style/manual"].iter().all(|k| report.get(k) > 0), report.get("entry/configure_if_needed")),
        floor("page lists of length 0..3 and longer", report.set_len("page_list_lengths") == 5, report.set_len("page_list_lengths")),
        floor("configure_if_needed exercised on ready signs of the same type", report.get("if_needed_skipped_configuration") > 0, report.get("if_needed_skipped_configuration")),
        floor("abandoned-call prior states", report.get("abandoned_call_prior_states") > 100, report.get("abandoned_call_prior_states")),
    ];
    Outcome {
        report,
        level: "exploration",
        rule: "prior states = the virtual-sign states reached by breadth-first exploration (alphabet with the genuine block of the type, of another type and an unknown-id block; bounds: 48 buffered bytes, 3 chunks, 1 page; quick: stride sample keeping >= 6 states per protocol state, thorough: all) and by abandoning real controller calls at every message index; x 11 types x both flip styles x addresses across the range x 0-2 bystanders x both entry points (configure_if_needed only where the contract applies); each scenario = configure, two send_pages rounds (0..3 pages: blank/full/single pixel/random, duplicate ids), show/load-next/show, shut_down; distinct by (prior state, type, seed)".into(),
        exhaustive: false,
        floors,
        assumptions: vec![
            "oracle: the postconditions of the statement read from VirtualSignBus::sign(i).{state, sign_type, pages} and the controller's return values".into(),
            "forged prior configurations (genuine id with other dimensions) are outside the configure_if_needed contract and are not generated".into(),
        ],
        extra: vec![],
    }
}
