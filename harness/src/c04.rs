//! C04 — Frame -> Message -> Frame is the identity and follows the protocol code table.

use flipdot_core::{Address, Data, Frame, Message, MsgType};

use crate::refs::{self, RefMsg};
use crate::util::{self, Ctx, J, Outcome, Report, catch, floor, fnv, hex, mix, run_sharded, short_loc};

const MON: &str = "frame_message_table";

/// The oracle for one frame.
pub fn check_frame(addr: u16, ty: u8, data: &[u8], borrowed: bool, rep: &mut Report) {
    let want = refs::classify(addr, ty, data);
    let sig = format!("{:04X}:{:02X}:{}", addr, ty, hex(data));
    let recognised = !matches!(want, RefMsg::Unknown { .. });
    rep.case(Some(mix(fnv(data), (u64::from(addr) << 8) | u64::from(ty))));
    if recognised {
        let code = match &want {
            RefMsg::Data { .. } => "code/SendData".to_string(),
            RefMsg::Count(_) => "code/DataChunksSent".to_string(),
            RefMsg::Request(_, o) => format!("code/Request:{}", refs::op_name(*o)),
            RefMsg::Ack(_, o) => format!("code/Ack:{}", refs::op_name(*o)),
            RefMsg::Report(_, s) => format!("code/Report:{}", refs::st_name(*s)),
            m => format!("code/{}", m.kind()),
        };
        rep.count(&code);
    } else {
        rep.count(match data.len() {
            0 => "unknown/len0",
            1 => "unknown/len1",
            2 => "unknown/len2",
            3 => "unknown/len3",
            16 => "unknown/len16",
            255 => "unknown/len255",
            _ => "unknown/other",
        });
    }
    let r = catch(|| {
        // every eighth frame is handled right after the thread has been through the documented errors (data that is too
        // long, owned and borrowed; a line that does not decode): an error leaves nothing behind for the next call
        let troubled = (usize::from(addr) ^ usize::from(ty) ^ data.len()) % 8 == 1;
        let mut early: Vec<(&'static str, String, String)> = vec![];
        if troubled {
            let junk: Vec<u8> = (0..256 + data.len()).map(|i| (i as u8) ^ 0x5C).collect();
            if Data::try_new(&junk[..]).is_ok() || Data::try_new(junk).is_ok() {
                early.push(("overlong_data_accepted", "Err".into(), "Ok".into()));
            }
            if Frame::from_bytes(b":0100FF04").is_ok() {
                early.push(("truncated_line_accepted", "Err".into(), "Ok".into()));
            }
        }
        let orig = Frame::new(Address(addr), MsgType(ty), Data::try_new(data.to_vec()).expect("<=255"));
        let probe = |f: Frame<'_>| -> (RefMsg, bool, String) {
            let msg = Message::from(f);
            let got = refs::to_ref(&msg);
            let back = Frame::from(msg);
            let same = back == orig && back.address().0 == addr && back.message_type().0 == ty && back.data().as_ref() == data;
            (got, same, format!("{:?}", back))
        };
        let (got, same, back) = if borrowed {
            probe(Frame::new(Address(addr), MsgType(ty), Data::try_new(data).expect("<=255")))
        } else {
            // owned data comes in buffers of every shape: exactly sized, or reserved far larger than what they hold
            // (a reused line buffer) — the capacity is not part of the frame
            let cap = match (u64::from(addr) ^ u64::from(ty) ^ data.len() as u64) % 4 {
                0 => data.len(),
                1 => 255,
                2 => 2 * data.len() + 17,
                _ => 4096,
            };
            let mut v = Vec::with_capacity(cap.max(data.len()));
            v.extend_from_slice(data);
            probe(Frame::new(Address(addr), MsgType(ty), Data::try_new(v).expect("<=255")))
        };
        let mut bad: Vec<(&'static str, String, String)> = early;
        if got != want {
            bad.push(("classification", want.show(), got.show()));
        }
        // copies of the frame and of its message are the frame and the message (on a sample: cloning is cheap, frames are many)
        if troubled || data.len() <= 2 {
            let copy = orig.clone();
            let via_copy = Frame::from(Message::from(copy.clone()).clone());
            if copy != orig || copy.data().as_ref() != data || via_copy != orig || via_copy.data().as_ref() != data {
                bad.push(("copy_differs", format!("{:?}", orig), format!("copy {:?}, through a copied message {:?}", copy, via_copy)));
            }
            // a message object that held the frame's neighbour (same type and data, address + 16) is refilled with
            // clone_from: converted back it is the frame
            let mut scratch = Message::from(Frame::new(Address(addr.wrapping_add(16)), MsgType(ty), Data::try_new(data.to_vec()).expect("<=255")));
            scratch.clone_from(&Message::from(orig.clone()));
            let via_scratch = Frame::from(scratch);
            if via_scratch != orig || via_scratch.address().0 != addr {
                bad.push(("copy_differs", format!("{:?}", orig), format!("through a message refilled with clone_from {:?}", via_scratch)));
            }
        }
        if !same {
            bad.push(("not_identity", format!("{:?}", orig), back));
        }
        // "Unknown" must wrap a frame equal to the input: to_ref exposes its address/type/data, compared above.
        bad
    });
    let det = |exp: &str, obs: &str| {
        J::obj(vec![
            ("address", J::u(addr)),
            ("type", J::u(ty)),
            ("data", J::hex(data)),
            ("borrowed", J::Bool(borrowed)),
            ("expected", J::s(exp)),
            ("observed", J::s(obs)),
        ])
    };
    match r {
        Ok(bad) => {
            for (cls, exp, obs) in bad {
                rep.violation(MON, cls, &sig, format!("frame {}: {}: table says {}, library gives {}", sig, cls, exp, obs), det(&exp, &obs));
            }
        }
        Err(p) => rep.violation(MON, "panic", &sig, format!("frame {}: panic {} at {}", sig, p.msg, short_loc(&p.loc)), det("no panic", &p.msg)),
    }
    if rep.wants_sample() {
        rep.sample(|| J::obj(vec![("frame", J::s(sig.clone())), ("table", J::s(want.show()))]));
    }
}

fn data_of(len: usize, first: u8) -> Vec<u8> {
    let mut d: Vec<u8> = (0..len).map(|i| (i as u8).wrapping_mul(37).wrapping_add(11)).collect();
    if len > 0 {
        d[0] = first;
    }
    d
}

/// Every recognised (type, data) code: 29 one-byte codes + the chunk count.
fn recognised_codes() -> Vec<(u8, Vec<u8>)> {
    let mut v: Vec<(u8, Vec<u8>)> = vec![(1, vec![]), (2, vec![0xFF]), (2, vec![0x00]), (2, vec![0x55]), (6, vec![0x00])];
    for o in refs::OPS.iter() {
        v.push((3, vec![o.1]));
        v.push((5, vec![o.2]));
    }
    for s in refs::STATES.iter() {
        v.push((4, vec![s.1]));
    }
    v
}

pub fn run(ctx: &Ctx) -> Outcome {
    let codes = recognised_codes();
    let n_random = ctx.size(2_000_000, 200_000_000);
    let rand_shards = 32usize;
    let mut report = run_sharded(ctx, 256 + 256 + rand_shards, |shard, rep| {
        if shard < 256 {
            // exhaustive: this type x all first bytes x 6 lengths x 8 addresses
            let ty = shard as u8;
            for first in 0..=255u8 {
                for len in [0usize, 1, 2, 3, 16, 255] {
                    if len == 0 && first != 0 {
                        continue; // an empty frame has no first byte: one case per (type, address)
                    }
                    // the bytes after the first one must not matter: vary them
                    let fills: &[u8] = match len {
                        0 | 1 => &[0],
                        2 | 3 => &[0, 1, 2, 3],
                        _ => &[0, 1],
                    };
                    for &fill in fills {
                        let mut d = data_of(len, first);
                        for b in d.iter_mut().skip(1) {
                            match fill {
                                1 => *b = first,
                                2 => *b = 0x00,
                                3 => *b = 0xFF,
                                _ => {}
                            }
                        }
                        for (i, addr) in [0u16, 1, 0x00FF, 0x0100, 0x7FFF, 0x8000, 0xA55A, 0xFFFF].into_iter().enumerate() {
                            check_frame(addr, ty, &d, (i + len) % 2 == 1, rep);
                        }
                    }
                }
            }
            if shard == 3 || shard == 0 {
                // data chunks (type 0; and the same data under type 3) that are all one value but for one byte
                for (k, d) in refs::sparse_data().into_iter().enumerate() {
                    check_frame([0x0000u16, 0x0010, 0xFFF0][k % 3], shard as u8, &d, false, rep);
                    check_frame([0x0000u16, 0x0010, 0xFFF0][k % 3], shard as u8, &d, true, rep);
                    rep.count("sparse_chunks");
                }
            }
            if shard == 4 || shard == 5 || shard == 3 || shard == 6 || shard == 2 {
                // a code followed by the CHECK BYTE of the one-byte frame it would have made (an echoed check byte left in the
                // data), and by the check byte of the two-byte frame itself: still two data bytes, still unknown
                for (cty, cd) in &codes {
                    if cd.len() != 1 || *cty != shard as u8 {
                        continue;
                    }
                    for addr in (0u32..=0xFFFF).step_by(257).map(|a| a as u16).chain([0x0003, 0x00FF, 0x0100, 0xFFFF]) {
                        let lrc1 = 1u8.wrapping_add((addr >> 8) as u8).wrapping_add(addr as u8).wrapping_add(*cty).wrapping_add(cd[0]).wrapping_neg();
                        let lrc2 = 2u8.wrapping_add((addr >> 8) as u8).wrapping_add(addr as u8).wrapping_add(*cty).wrapping_add(cd[0]);
                        check_frame(addr, *cty, &[cd[0], lrc1], addr % 2 == 0, rep);
                        check_frame(addr, *cty, &[cd[0], lrc2.wrapping_neg()], addr % 2 == 1, rep);
                        check_frame(addr, *cty, &[cd[0], lrc1, lrc1], false, rep);
                        rep.count("codes_followed_by_a_check_byte");
                    }
                }
            }
            if shard == 2 {
                for (a, t, d) in refs::coincidence_frames() {
                    check_frame(a, t, &d, false, rep);
                    check_frame(a, t, &d, true, rep);
                    rep.count("coincidence_frames");
                }
            }
            // the address must not matter — least of all an address made of the frame's own type and first byte
            for first in 0..=255u8 {
                for addr in [u16::from(ty) << 8 | u16::from(first), u16::from(first) << 8 | u16::from(ty), u16::from(ty) * 0x0101, u16::from(first) * 0x0101] {
                    check_frame(addr, ty, &[first], first % 2 == 0, rep);
                    check_frame(addr, ty, &[first, ty], first % 2 == 1, rep);
                }
            }
            if shard == 1 {
                // data chunks that LOOK like something else: the 16-byte configuration block of every sign type (and the
                // same block with one byte changed, at other offsets, a byte longer or shorter), chunks that begin like
                // a page header — a chunk is a chunk, whatever it carries
                for block in refs::BLOCKS.iter() {
                    for addr in [0u16, 16, 0x0100, 0xFFF0] {
                        check_frame(addr, 0, &block[..], false, rep);
                        check_frame(addr, 0, &block[..15], true, rep);
                        let mut longer = block.to_vec();
                        longer.push(0);
                        check_frame(addr, 0, &longer, false, rep);
                        for i in 0..16 {
                            let mut b = block.to_vec();
                            b[i] ^= 0x01;
                            check_frame(addr, 0, &b, i % 2 == 0, rep);
                            b[i] = 0xFF;
                            check_frame(addr, 0, &b, i % 2 == 1, rep);
                        }
                        rep.count("config_like_chunks");
                    }
                }
                for id in 0..=255u8 {
                    let mut page = vec![id, 0x10, 0, 0];
                    page.extend(std::iter::repeat(id).take(12));
                    check_frame(0, 0, &page, id % 2 == 0, rep);
                }
            }
            if shard == 0 {
                // every recognised code (and the same first byte under the neighbouring types) followed by 1..254
                // further bytes: a code is a code at data length 1 only, whatever the longer length is congruent to
                for (cty, cd) in &codes {
                    if cd.len() != 1 {
                        continue;
                    }
                    for len in 2..=255usize {
                        for ty in [*cty, cty.wrapping_add(1), cty.wrapping_sub(1)] {
                            let mut d = data_of(len, cd[0]);
                            if len % 2 == 0 {
                                for b in d.iter_mut().skip(1) {
                                    *b = cd[0];
                                }
                            }
                            check_frame(if len % 3 == 0 { 0x0003 } else { 0xFFFF }, ty, &d, len % 2 == 1, rep);
                            rep.count("codes_at_longer_lengths");
                        }
                    }
                }
            }
            rep.count("types_swept");
        } else if shard < 512 {
            // all 65 536 addresses (this high byte) for each recognised code and for data chunks
            let hi = (shard - 256) as u16;
            for lo in 0..256u16 {
                let addr = (hi << 8) | lo;
                for (ty, d) in &codes {
                    check_frame(addr, *ty, d, lo % 2 == 0, rep);
                }
                for len in [0usize, 1, 2, 16, 255] {
                    check_frame(addr, 0, &data_of(len, lo as u8), lo % 2 == 1, rep);
                }
            }
            rep.add("addresses_swept", 256);
        } else {
            let mut rng = ctx.rng("random", (shard - 512) as u64);
            for _ in 0..n_random / rand_shards as u64 {
                let ty = if rng.chance(3, 4) { rng.below(8) as u8 } else { rng.u8() };
                let len = match rng.below(6) {
                    0 => 0,
                    1 | 2 => 1,
                    3 => 2,
                    _ => rng.usize(256),
                };
                let mut d = rng.bytes(len);
                if len > 0 && rng.chance(1, 2) {
                    // bias the first byte to the recognised code values
                    d[0] = *rng.pick(&[0xFF, 0x00, 0x55, 0xA1, 0xA2, 0xA9, 0xAA, 0xA6, 0xA7, 0x95, 0x91, 0x96, 0x97, 0x93, 0x94, 0x0F, 0x0D, 0x07, 0x0C, 0x03, 0x01, 0x0B, 0x10, 0x13, 0x12, 0x11, 0x08]);
                }
                check_frame(rng.edgy_u16(), ty, &d, rng.bool(), rep);
            }
        }
    });
    {
        // the same calls from a thread-local destructor while a thread exits (see exitprobe.rs)
        let mut at_exit = Report::new();
        crate::exitprobe::check("message", MON, &mut at_exit);
        crate::exitprobe::check_migration("codec", MON, &mut at_exit);
        report.merge(at_exit);
    }

    let mut floors = vec![
        floor("data chunks carrying configuration blocks and page headers", report.get("config_like_chunks") == 44, report.get("config_like_chunks")),
        floor("every one-byte code followed by 1..254 further bytes", report.get("codes_at_longer_lengths") > 15_000, report.get("codes_at_longer_lengths")),
        floor("frames whose fields coincide (all fields one value, for every value; checksum equal to another field or to a syntax byte)", report.get("coincidence_frames") == 2240, report.get("coincidence_frames")),
        floor("data that is all 00 / all FF but for one byte, at every position of every length 1..=40 and 248..=255", report.get("sparse_chunks") > 10_000, report.get("sparse_chunks")),
        floor("every one-byte code followed by the check byte of the frame it would have made, at 260 addresses", report.get("codes_followed_by_a_check_byte") > 7_000, report.get("codes_followed_by_a_check_byte")),
        floor("all 256 message types swept against all 256 first bytes", report.get("types_swept") == 256, report.get("types_swept")),
        floor("all 65536 addresses swept for every code", report.get("addresses_swept") == 65_536, report.get("addresses_swept")),
    ];
    let code_counts: Vec<(&String, &u64)> = report.counters.iter().filter(|(k, _)| k.starts_with("code/")).collect();
    let fixed_codes = code_counts.iter().filter(|(k, _)| k.as_str() != "code/SendData").count();
    let min_code = code_counts.iter().map(|(_, v)| **v).min().unwrap_or(0);
    floors.push(floor("30 fixed codes + data chunk recognised by the table", fixed_codes == 30 && code_counts.len() == 31, code_counts.len()));
    floors.push(floor("every code observed >= 65536 times", min_code >= 65_536, min_code));
    for l in ["len0", "len1", "len2", "len3", "len16", "len255"] {
        let n = report.get(&format!("unknown/{}", l));
        floors.push(floor(&format!("unknown frames of {}", l), n > 0, n));
    }
    Outcome {
        report,
        level: "exploration",
        rule: "exhaustive 256 types x 256 first bytes x lengths {0,1,2,3,16,255} x 8 addresses; every one-byte code (and its first byte under the neighbouring types) at every data length 2..=255; all 65536 addresses x (30 fixed codes + data chunks of 5 lengths); seeded random frames biased to code values; owned and borrowed data alternate; distinct by (address,type,data) hash; every frame is non-trivial (each is a distinct table lookup)".into(),
        exhaustive: false,
        floors,
        assumptions: vec!["oracle: code table transcribed in harness/src/refs.rs (Appendix A); Message inspected only through its public enum".into()],
        extra: vec![],
    }
}

pub fn replay(d: &J, rep: &mut Report) -> bool {
    let (Some(a), Some(t), Some(data)) = (
        d.get("address").and_then(|x| x.as_u64()),
        d.get("type").and_then(|x| x.as_u64()),
        d.get("data").and_then(|x| x.as_str()).and_then(util::unhex),
    ) else {
        return false;
    };
    check_frame(a as u16, t as u8, &data, matches!(d.get("borrowed"), Some(J::Bool(true))), rep);
    true
}
