//! C13 — the virtual sign implements the sign-side protocol state machine.
//! Lockstep comparison with `RefSign` on every transition of a breadth-first exploration of the real
//! implementation's state (to a fixed point under bounds), on hostile random walks and on directed walks.

use crate::c12;
use crate::refs::*;
use crate::util::{Ctx, J, Outcome, Report, floor, fnv, run_sharded};
use crate::vsx;

pub fn run(ctx: &Ctx) -> Outcome {
    let cfgs = c12::explorer_cfgs(ctx);
    let n_walks = ctx.size(10_000, 1_000_000);
    let walk_len = if ctx.quick() { 300 } else { 500 };
    let walk_shards = 64usize;
    let nc = cfgs.len();
    let nd = c12::N_DIRECTED;
    let mut report = run_sharded(ctx, nc + nd + walk_shards, |shard, rep: &mut Report| {
        if shard < nc {
            let cfg = &cfgs[shard];
            let ex = vsx::explore(cfg, rep, &mut |nodes, i, m, out, rep| {
                rep.case(None);
                if let Some(r) = &out.reply {
                    rep.count(match r {
                        RefMsg::Ack(..) => "replies/ack",
                        RefMsg::Report(..) => "replies/report",
                        _ => "replies/other",
                    });
                } else if matches!(m, RefMsg::Request(a, _) if *a == cfg.addr) {
                    rep.count("illegal_requests_met_with_silence");
                }
                if out.panic.is_some() || !out.diffs.is_empty() {
                    let mut h = vsx::path_to(nodes, i);
                    h.push(m.clone());
                    vsx::report_failure("C13", cfg.addr, cfg.auto, &h, out, rep);
                }
            });
            rep.add("explorer_states", ex.nodes.len() as u64);
            rep.add("explorer_transitions", ex.transitions);
            rep.add("explorer_transitions_not_expanded", ex.not_expanded);
            if ex.fixed_point {
                rep.count("explorer_fixed_points");
            }
            let mut max_depth = 0usize;
            for (k, n) in ex.nodes.iter().enumerate() {
                rep.seen("explorer_distinct_states", fnv(format!("{:?}", n.pair.model).as_bytes()));
                if !n.pair.model.pages.is_empty() {
                    rep.count("explorer_states_with_stored_pages");
                }
                if k % 997 == 0 || k + 1 == ex.nodes.len() {
                    max_depth = max_depth.max(vsx::path_to(&ex.nodes, k).len());
                }
            }
            rep.max("explorer_depth_sampled", max_depth as f64);
            if let Some(last) = ex.nodes.len().checked_sub(1) {
                let path = vsx::path_to(&ex.nodes, last);
                rep.sample_always(J::obj(vec![
                    ("explorer", J::s(format!("{} (shard {})", cfg.name, shard))),
                    ("deepest_state_reached_via", J::s(vsx::show_history(&path))),
                    ("its_observables", J::s(ex.nodes[last].pair.model.obs().show())),
                ]));
            }
            rep.note(&format!("explorer/{}/{}", cfg.name, shard), J::s(format!("{} states, {} transitions, fixed point {}", ex.nodes.len(), ex.transitions, ex.fixed_point)));
        } else if shard < nc + nd {
            c12::directed("C13", shard - nc, ctx, rep);
        } else {
            let mut rng = ctx.rng("walk", (shard - nc - nd) as u64);
            if shard - nc - nd < 2 {
                c12::walk_of_length("C13", &mut rng, 200_000, rep);
                rep.count("long_walks");
            }
            for _ in 0..n_walks / walk_shards as u64 {
                c12::random_walk("C13", &mut rng, walk_len, rep);
            }
        }
    });
    {
        // the same calls from a thread-local destructor while a thread exits (see exitprobe.rs)
        let mut at_exit = Report::new();
        crate::exitprobe::check("virtual_sign", "lockstep_refsign", &mut at_exit);
        crate::exitprobe::check_migration("virtual_sign", "lockstep_refsign", &mut at_exit);
        report.merge(at_exit);
    }
    let own_cells = report.set_len("matrix_own_state_x_kind");
    let foreign_cells = report.set_len("matrix_foreign_state_x_op");
    let floors = vec![
        floor("the implementation's equality separates sign states whose futures differ (the explorer's visited set relies on it)", vsx::equality_merges_states_with_different_futures() == 0, vsx::equality_merges_states_with_different_futures()),
        floor("every explorer configuration reached a fixed point (frontier empty)", report.get("explorer_fixed_points") == nc as u64, report.get("explorer_fixed_points")),
        floor("13 states x 14 message kinds exercised for the own address", own_cells == 13 * vsx::N_KINDS, own_cells),
        floor("13 states x 6 operations exercised for the foreign address", foreign_cells == 13 * 6, foreign_cells),
        floor("all 13 protocol states reached by the explorer", report.set_len("protocol_states_reached") + 1 >= 13, report.set_len("protocol_states_reached")),
        floor("explorer states with stored pages", report.get("explorer_states_with_stored_pages") > 0, report.get("explorer_states_with_stored_pages")),
        floor("acks, reports and silent refusals all observed", report.get("replies/ack") > 0 && report.get("replies/report") > 0 && report.get("illegal_requests_met_with_silence") > 0, report.get("illegal_requests_met_with_silence")),
        floor("two walks of 200 000 messages on one sign object", report.get("long_walks") == 2 && report.maxs.get("longest_walk").copied().unwrap_or(0.0) >= 200_000.0, report.maxs.get("longest_walk").copied().unwrap_or(0.0)),
        floor("random walks stored pages", report.get("walk_steps_with_stored_pages") > 0, report.get("walk_steps_with_stored_pages")),
    ];
    let states = report.get("explorer_states");
    let transitions = report.get("explorer_transitions");
    let walks = report.distinct_nontrivial();
    Outcome {
        report,
        level: "exploration",
        rule: "breadth-first exploration of the REAL VirtualSign's state (HashSet over its own Hash/Eq, paired with the reference machine) from VirtualSign::new to a fixed point under bounds on buffered bytes / counted chunks / stored pages, wide and deep alphabets, both flip styles; every transition compared in lockstep (reply, state, sign type, pages) + model-free page invariants; plus seeded hostile random walks and directed walks beyond the bounds; distinct_nontrivial counts distinct walk seeds and directed cases, states/transitions count the exploration".into(),
        exhaustive: false,
        floors,
        assumptions: vec![
            "oracle: RefSign (harness/src/refsign.rs, Appendix B of DESIGN.md); in corners the documentation does not settle it encodes the pinned, repaired behaviour".into(),
            "only observables are compared (reply, state(), sign_type(), pages()); hidden fields are constrained through later behaviour".into(),
            "the exploration is complete only within the stated bounds and alphabet".into(),
        ],
        extra: vec![
            ("states".into(), J::Int(states as i128)),
            ("transitions".into(), J::Int(transitions as i128)),
            ("traces_validated_against_impl".into(), J::Int((transitions + walks) as i128)),
        ],
    }
}
