//! C18 — serial bus pacing: 30 ms after a data chunk, 100 ms after an in-progress report.
//! Timestamps come from `Instant::now()` inside the instrumented port's read/write and around `process_message`.

use std::time::{Duration, Instant};

use flipdot_core::SignBus;
use flipdot_serial::SerialSignBus;

use crate::c16::{SENTINEL, reply_due};
use crate::doubles::{self, FragReader, FragWriter, InstrPort, PortEv, WriteAct};
use crate::refs::{self, *};
use crate::util::{Ctx, J, Outcome, Report, catch, floor, fnv, run_sharded_on};

const MON: &str = "pacing";
const SEND_PACE: Duration = Duration::from_millis(30);
const RECV_PACE: Duration = Duration::from_millis(100);

struct Gaps {
    /// end of the last write of message 1 -> start of the first write of message 2
    send_gap: Duration,
    /// end of the read that completed the reply line -> return of process_message (None if no reply was read)
    recv_gap: Option<Duration>,
    /// end of the last write of message 1 -> first read call (None if no read)
    write_to_read: Option<Duration>,
}

/// Sends `m1` (answered by `reply` if it expects one) and then a Goodbye on the same bus.
fn measure(m1: &RefMsg, reply: &RefMsg) -> Result<Gaps, String> {
    measure_with_flush_fault(m1, reply, None)
}

/// Like `measure`, on a port whose write calls block for `write_stall` and whose first read call blocks for `read_stall`
/// before they succeed. The pacing runs from the END of the write / of the read (that is when the sign has the chunk,
/// respectively when we have its report), so time spent inside the port does not count towards it.
fn measure_stalled(m1: &RefMsg, reply: &RefMsg, write_stall: Option<Duration>, read_stall: Option<Duration>) -> Result<Gaps, String> {
    STALLS.with(|s| s.set((write_stall, read_stall)));
    let r = measure_with_flush_fault(m1, reply, None);
    STALLS.with(|s| s.set((None, None)));
    r
}

thread_local! {
    static STALLS: std::cell::Cell<(Option<Duration>, Option<Duration>)> = const { std::cell::Cell::new((None, None)) };
}

/// `flush_fault`: the port's first flush() call (if the bus makes one) fails with this kind. The first message may
/// then return an error — the pacing of what reaches the wire afterwards must hold regardless.
fn measure_with_flush_fault(m1: &RefMsg, reply: &RefMsg, flush_fault: Option<std::io::ErrorKind>) -> Result<Gaps, String> {
    let st = doubles::shared(doubles::WEIRD_SETTINGS);
    if let Some(k) = flush_fault {
        st.borrow_mut().flush_faults = vec![(0, k)];
    }
    let (write_stall, read_stall) = STALLS.with(|s| s.get());
    let mut tape = refs::wire(reply);
    tape.extend_from_slice(SENTINEL);
    let port = InstrPort::scripted(st.clone(), FragReader::plain(tape), FragWriter::new(vec![], WriteAct::Accept(usize::MAX)));
    let mut bus = SerialSignBus::try_new(port).map_err(|e| e.to_string())?;
    {
        let mut s = st.borrow_mut();
        s.write_stall = write_stall;
        s.first_read_stall = read_stall;
    }
    let n0 = st.borrow().log.len();
    // a pending wake-up token on this thread: a pause built on park_timeout instead of sleep would return at once
    std::thread::current().unpark();
    let r = catch(|| {
        let a = bus.process_message(refs::from_ref(m1)).map(|_| ()).map_err(|e| e.to_string());
        let t_ret = Instant::now();
        let n1 = st.borrow().log.len();
        let b = bus.process_message(refs::from_ref(&RefMsg::Goodbye(0x0042))).map(|_| ()).map_err(|e| e.to_string());
        (a, b, t_ret, n1)
    });
    let (a, b, t_ret, n1) = r.map_err(|p| format!("panic {}", p.msg))?;
    if flush_fault.is_none() {
        a?;
    }
    b?;
    let log = st.borrow().log.clone();
    let first = &log[n0..n1];
    let second = &log[n1..];
    let last_write_end = first.iter().filter(|e| matches!(e.ev, PortEv::Write { .. })).map(|e| e.t1).next_back().ok_or("no write for message 1")?;
    let next_write_start = second.iter().find(|e| matches!(e.ev, PortEv::Write { .. })).map(|e| e.t0).ok_or("no write for message 2")?;
    let first_read = first.iter().find(|e| matches!(e.ev, PortEv::Read { .. })).map(|e| e.t0);
    let last_read_end = first.iter().filter(|e| matches!(e.ev, PortEv::Read { .. })).map(|e| e.t1).next_back();
    Ok(Gaps {
        send_gap: next_write_start.duration_since(last_write_end),
        recv_gap: last_read_end.map(|t| t_ret.duration_since(t)),
        write_to_read: first_read.map(|t| t.duration_since(last_write_end)),
    })
}

#[derive(Clone)]
struct Cell {
    name: String,
    m1: RefMsg,
    reply: RefMsg,
    /// paced on the send side (data chunk) / on the receive side (in-progress report)
    send_paced: bool,
    recv_paced: bool,
}

fn cells() -> Vec<Cell> {
    let mut v = vec![];
    let plain_reply = RefMsg::Report(3, S_UNCONF);
    let mut send = |name: &str, m: RefMsg, paced: bool| {
        v.push(Cell { name: format!("send/{}", name), m1: m, reply: plain_reply.clone(), send_paced: paced, recv_paced: false });
    };
    for len in [0usize, 1, 16, 255] {
        send(&format!("SendData[{}]", len), RefMsg::Data { offset: 16, data: vec![0x5A; len] }, true);
    }
    // the pause does not depend on WHERE the chunk goes or how much it carries: the ends of the offset range, chunks that
    // end at or run past 0xFFFF, offsets at the 2^8 / 2^15 marks, offsets that are not a multiple of 16
    for (offset, len) in [(0xFFF0u16, 16usize), (0xFFFF, 1), (0xFFFF, 0), (0xFF01, 255), (0xFFEF, 16), (0xFFF1, 16), (0xFF00, 255), (0x8000, 16), (0x7FFF, 2), (0x00FF, 1), (0x0100, 255), (0x0000, 0), (0x0000, 255), (0x0003, 16)] {
        send(&format!("SendData[{}]@{:04X}", len, offset), RefMsg::Data { offset, data: vec![0xA5; len] }, true);
    }
    // ... nor on what the chunk happens to contain: offsets and bytes equal to the two in-progress state codes (0x13, 0x11),
    // to a message type, to the pause lengths
    for (offset, data) in [(0x0013u16, vec![0x13u8]), (0x1300, vec![0x13, 0x13]), (0x0011, vec![0x11; 16]), (0x0004, vec![0x04, 0x13]), (0x001E, vec![30]), (0x0064, vec![100, 0])] {
        send(&format!("SendData@{:04X}[{}]", offset, crate::util::hex(&data)), RefMsg::Data { offset, data }, true);
    }
    // ... and messages that are NOT data chunks stay unpaced whatever numbers they carry
    send("DataChunksSent(0)", RefMsg::Count(0), false);
    send("DataChunksSent(0x0013)", RefMsg::Count(0x0013), false);
    send("Hello(0)", RefMsg::Hello(0), false);
    send("Goodbye(0x0013)", RefMsg::Goodbye(0x0013), false);
    send("QueryState(0x1300)", RefMsg::Query(0x1300), false);
    send("Unknown(13:13:13)", RefMsg::Unknown { addr: 0x0013, ty: 0x13, data: vec![0x13] }, false);
    send("DataChunksSent", RefMsg::Count(3), false);
    send("Hello", RefMsg::Hello(3), false);
    send("QueryState", RefMsg::Query(3), false);
    send("Goodbye", RefMsg::Goodbye(3), false);
    send("PixelsComplete", RefMsg::Complete(3), false);
    for o in 0..N_OPS {
        send(&format!("Request:{}", op_name(o)), RefMsg::Request(3, o), false);
    }
    send("AckOperation", RefMsg::Ack(3, 1), false);
    send("ReportState", RefMsg::Report(3, S_LOAD_PROG), false);
    send("Unknown", RefMsg::Unknown { addr: 3, ty: 0x42, data: vec![1] }, false);
    send("Unknown(data-chunk-like type 0x10)", RefMsg::Unknown { addr: 16, ty: 0x10, data: vec![0; 16] }, false);
    // receive side: EVERY request kind that gets a reply x EVERY reply kind (the pacing depends on the reply only)
    let mut requests: Vec<(String, RefMsg)> = vec![("Hello".into(), RefMsg::Hello(3)), ("Query".into(), RefMsg::Query(3))];
    for o in 0..N_OPS {
        requests.push((format!("Request:{}", op_name(o)), RefMsg::Request(3, o)));
    }
    for (rname, req) in &requests {
        for a in [3u16, 4] {
            for s in 0..N_STATES {
                let paced = s == S_LOAD_PROG || s == S_SHOW_PROG;
                v.push(Cell {
                    name: format!("recv/{}<-Report:{}@{}", rname, st_name(s), if a == 3 { "own" } else { "foreign" }),
                    m1: req.clone(),
                    reply: RefMsg::Report(a, s),
                    send_paced: false,
                    recv_paced: paced,
                });
            }
        }
        for o in 0..N_OPS {
            v.push(Cell { name: format!("recv/{}<-Ack:{}", rname, op_name(o)), m1: req.clone(), reply: RefMsg::Ack(3, o), send_paced: false, recv_paced: false });
        }
        v.push(Cell { name: format!("recv/{}<-UnknownFrame", rname), m1: req.clone(), reply: RefMsg::Unknown { addr: 3, ty: 0x42, data: vec![0x13] }, send_paced: false, recv_paced: false });
        v.push(Cell { name: format!("recv/{}<-DataFrame", rname), m1: req.clone(), reply: RefMsg::Data { offset: 0, data: vec![0x13; 16] }, send_paced: false, recv_paced: false });
    }
    // ... and the pause does not depend on WHICH address reports: signs at the ends of the address range and past every byte
    // boundary, asked at their own address and answering a request made to another
    for a in [0x0000u16, 0x00FF, 0x0100, 0x0101, 0x7FFF, 0x8000, 0xFF00, 0xFFFF] {
        for s in [S_LOAD_PROG, S_SHOW_PROG] {
            v.push(Cell { name: format!("recv/Query@{:04X}<-Report:{}@same", a, st_name(s)), m1: RefMsg::Query(a), reply: RefMsg::Report(a, s), send_paced: false, recv_paced: true });
            v.push(Cell { name: format!("recv/Hello@0003<-Report:{}@{:04X}", st_name(s), a), m1: RefMsg::Hello(3), reply: RefMsg::Report(a, s), send_paced: false, recv_paced: true });
        }
        v.push(Cell { name: format!("recv/Query@{:04X}<-Report:PageLoaded@same", a), m1: RefMsg::Query(a), reply: RefMsg::Report(a, S_LOADED), send_paced: false, recv_paced: false });
    }
    // replies that merely LOOK like an in-progress report (state byte 0x13 / 0x11 in a frame that is not a state report:
    // more than one data byte, another message type, no data at all) are not in-progress reports
    for (i, (ty, data)) in [(4u8, vec![0x13u8, 0x00]), (4, vec![0x11, 0x00]), (4, vec![0x13, 0x13, 0x13]), (4, vec![]), (5, vec![0x13]), (2, vec![0x11]), (0x14, vec![0x13]), (4, vec![0x00, 0x13])].into_iter().enumerate() {
        for (rname, req) in requests.iter().take(2) {
            v.push(Cell { name: format!("recv/{}<-LookalikeFrame#{}({:02X}:{})", rname, i, ty, crate::util::hex(&data)), m1: req.clone(), reply: RefMsg::Unknown { addr: 3, ty, data: data.clone() }, send_paced: false, recv_paced: false });
        }
    }
    // ... and the byte pair 04 13 / 04 11 (message type, state code) in every OTHER pair of neighbouring fields of a reply
    // — address high and low byte, address low byte and type, two data bytes, the last two data bytes, length and address —
    // is not an in-progress report either
    for code in [0x13u8, 0x11] {
        let c = u16::from(code);
        let lookalikes: Vec<(u16, u8, Vec<u8>)> = vec![
            (0x0400 | c, 0x42, vec![]),
            (0x0400 | c, 0x42, vec![1]),
            (0x0004, code, vec![]),
            (0x0104, code, vec![]),
            (0xFF04, code, vec![0x00]),
            (3, 0x42, vec![4, code]),
            (3, 0x42, vec![0, 4, code]),
            (c << 8 | 3, 0x42, vec![0; 4]),
        ];
        for (i, (addr, ty, data)) in lookalikes.into_iter().enumerate() {
            v.push(Cell { name: format!("recv/Query<-FieldPairLookalike#{}({:04X}:{:02X}:{})", i, addr, ty, crate::util::hex(&data)), m1: RefMsg::Query(3), reply: RefMsg::Unknown { addr, ty, data }, send_paced: false, recv_paced: false });
        }
    }
    v
}

fn ms(d: Duration) -> f64 {
    d.as_secs_f64() * 1000.0
}

fn violation(rep: &mut Report, class: &str, cell: &Cell, what: String) {
    rep.violation(
        MON,
        class,
        &cell.name,
        format!("{}: {}", cell.name, what),
        J::obj(vec![("cell", J::s(cell.name.clone())), ("message", J::s(cell.m1.show())), ("reply", J::s(cell.reply.show())), ("observed", J::s(what.clone()))]),
    );
}

/// Lower bounds: every trial of a paced exchange must show the full delay. Sound on any machine: sleep never
/// returns early and Instant is monotonic, so load can only lengthen the gap.
fn paced_trials(cell: &Cell, trials: usize, rep: &mut Report) {
    for _ in 0..trials {
        rep.case(Some(fnv(cell.name.as_bytes())));
        match measure(&cell.m1, &cell.reply) {
            Ok(g) => {
                if cell.send_paced {
                    rep.count("paced_send_trials");
                    rep.min(&format!("{}:send_gap_ms", cell.name), ms(g.send_gap));
                    if g.send_gap < SEND_PACE {
                        violation(rep, "data_chunk_not_paced", cell, format!("next message written {:.3} ms after the data chunk (< 30 ms)", ms(g.send_gap)));
                    }
                }
                if cell.recv_paced {
                    rep.count("paced_recv_trials");
                    let gap = g.recv_gap.unwrap_or(Duration::ZERO);
                    rep.min(&format!("{}:return_gap_ms", cell.name), ms(gap));
                    if gap < RECV_PACE {
                        violation(rep, "in_progress_report_not_paced", cell, format!("returned {:.3} ms after the in-progress report (< 100 ms)", ms(gap)));
                    }
                }
            }
            Err(e) => rep.note(&format!("measure_error/{}", cell.name), J::s(e)),
        }
    }
}

/// A data chunk that is completely written, after which the port's flush fails (interrupted drain, I/O error): whatever
/// the first call returns, the next message must still not reach the wire for 30 ms. (The unchanged bus never flushes,
/// so for it this is an ordinary paced exchange.)
fn flush_fault_trials(trials: usize, rep: &mut Report) {
    let cell = Cell { name: "send/SendData[16] then the port's flush fails".into(), m1: RefMsg::Data { offset: 0, data: vec![0x5A; 16] }, reply: RefMsg::Report(3, S_UNCONF), send_paced: true, recv_paced: false };
    for kind in [std::io::ErrorKind::Interrupted, std::io::ErrorKind::Other, std::io::ErrorKind::TimedOut] {
        for _ in 0..trials.min(4) {
            rep.case(Some(fnv(format!("flush{:?}", kind).as_bytes())));
            rep.count("flush_fault_trials");
            match measure_with_flush_fault(&cell.m1, &cell.reply, Some(kind)) {
                Ok(g) => {
                    if g.send_gap < SEND_PACE {
                        violation(rep, "data_chunk_not_paced_after_flush_failure", &cell, format!("flush failed with {:?}; the next message was written {:.3} ms after the data chunk (< 30 ms)", kind, ms(g.send_gap)));
                    }
                }
                Err(e) => rep.note(&format!("measure_error/flush/{:?}", kind), J::s(e)),
            }
        }
    }
}

// ------------------------------------------------------------------------------------------------
// Sessions: several messages of mixed kinds through ONE bus instance. Pacing must depend on the message just sent and
// the reply just received only — not on what went before (a remembered "last message was data" flag, a pacing deadline
// carried over, a delay that is applied one message late).

#[derive(Clone)]
struct SessMsg {
    m: RefMsg,
    reply: Option<RefMsg>,
    class: &'static str,
    data_chunk: bool,
    in_progress_reply: bool,
}

fn random_session_message(rng: &mut crate::util::Rng) -> SessMsg {
    let plain_states = [S_UNCONF, S_CFG_PROG, S_CFG_RECV, S_PIX_PROG, S_PIX_RECV, S_PIX_FAIL, S_LOADED, S_SHOWN, S_SHOWING, S_READY_RESET];
    let reply_for = |rng: &mut crate::util::Rng, req: &RefMsg| -> (Option<RefMsg>, bool) {
        match rng.below(4) {
            0 => (Some(RefMsg::Report(3, if rng.bool() { S_LOAD_PROG } else { S_SHOW_PROG })), true),
            1 => match req {
                RefMsg::Request(a, o) => (Some(RefMsg::Ack(*a, *o)), false),
                _ => (Some(RefMsg::Report(3, *rng.pick(&plain_states))), false),
            },
            _ => (Some(RefMsg::Report(3, *rng.pick(&plain_states))), false),
        }
    };
    match rng.below(10) {
        0..=2 => {
            let len = *rng.pick(&[0usize, 1, 15, 16, 17, 255]);
            SessMsg { m: RefMsg::Data { offset: 16 * rng.below(8) as u16, data: vec![0xC3; len] }, reply: None, class: "data chunk", data_chunk: true, in_progress_reply: false }
        }
        3 => SessMsg { m: RefMsg::Count(rng.below(5) as u16), reply: None, class: "chunk count", data_chunk: false, in_progress_reply: false },
        4 => {
            let m = RefMsg::Hello(3);
            let (reply, ip) = reply_for(rng, &m);
            SessMsg { m, reply, class: if ip { "hello<-in-progress" } else { "hello<-plain" }, data_chunk: false, in_progress_reply: ip }
        }
        5 | 6 => {
            let m = RefMsg::Query(3);
            let (reply, ip) = reply_for(rng, &m);
            SessMsg { m, reply, class: if ip { "query<-in-progress" } else { "query<-plain" }, data_chunk: false, in_progress_reply: ip }
        }
        7 => {
            let m = RefMsg::Request(3, rng.usize(N_OPS));
            let (reply, ip) = reply_for(rng, &m);
            SessMsg { m, reply, class: if ip { "request<-in-progress" } else { "request<-plain" }, data_chunk: false, in_progress_reply: ip }
        }
        8 => SessMsg { m: RefMsg::Complete(3), reply: None, class: "pixels complete", data_chunk: false, in_progress_reply: false },
        _ => SessMsg { m: RefMsg::Goodbye(3), reply: None, class: "goodbye", data_chunk: false, in_progress_reply: false },
    }
}

fn session(rng: &mut crate::util::Rng, rep: &mut Report) {
    let n = 3 + rng.usize(4);
    session_of_length(rng, rep, n)
}

/// A data chunk sent after the bus has seen exactly k replies of one kind in a row (k = 0..66, 127, 128, 255, 256 — the
/// counts at which a tally, a shift or a back-off schedule derived from the history would do something odd): the pause
/// after the chunk is 30 ms whatever came before it.
fn after_k_replies(rep: &mut Report) {
    let kinds: [(&str, fn(usize) -> RefMsg); 4] = [
        ("failed-transfer reports", |i| RefMsg::Report(3, if i % 2 == 0 { S_PIX_FAIL } else { S_CFG_FAIL })),
        ("pixels-failed reports", |_| RefMsg::Report(3, S_PIX_FAIL)),
        ("received reports", |i| RefMsg::Report(3, if i % 2 == 0 { S_PIX_RECV } else { S_CFG_RECV })),
        ("acknowledgements", |i| RefMsg::Ack(3, i % N_OPS)),
    ];
    let ks: Vec<usize> = (0..=66).chain([127, 128, 129, 255, 256, 257]).collect();
    for (kname, reply_of) in kinds {
        for &k in &ks {
            // the full sweep for the failure reports; every third count for the other kinds
            if !kname.contains("failed") && k % 3 != 0 {
                continue;
            }
            let mut tape = vec![];
            for i in 0..k {
                tape.extend_from_slice(&refs::wire(&reply_of(i)));
            }
            tape.extend_from_slice(SENTINEL);
            let st = doubles::shared(doubles::WEIRD_SETTINGS);
            let port = InstrPort::scripted(st.clone(), FragReader::plain(tape), FragWriter::new(vec![], WriteAct::Accept(usize::MAX)));
            let Ok(mut bus) = SerialSignBus::try_new(port) else { continue };
            rep.case(Some(fnv(format!("{}-{}", kname, k).as_bytes())));
            let r = catch(|| {
                for _ in 0..k {
                    if bus.process_message(refs::from_ref(&RefMsg::Query(3))).is_err() {
                        return None;
                    }
                }
                st.borrow_mut().log.clear();
                let a = bus.process_message(refs::from_ref(&RefMsg::Data { offset: 0, data: vec![0x77; 16] })).is_ok();
                let n1 = st.borrow().log.len();
                let b = bus.process_message(refs::from_ref(&RefMsg::Goodbye(3))).is_ok();
                Some((a && b, n1))
            });
            let Ok(Some((true, n1))) = r else {
                rep.note(&format!("measure_error/after_k/{}/{}", kname, k), J::s("an exchange failed"));
                continue;
            };
            let log = st.borrow().log.clone();
            let end = log[..n1].iter().filter(|e| matches!(e.ev, PortEv::Write { .. })).map(|e| e.t1).next_back();
            let next = log[n1..].iter().find(|e| matches!(e.ev, PortEv::Write { .. })).map(|e| e.t0);
            if let (Some(a), Some(b)) = (end, next) {
                let gap = b.duration_since(a);
                rep.count("chunks_after_k_replies");
                if gap < SEND_PACE {
                    rep.violation(MON, "data_chunk_not_paced", &format!("after-{}-{}", k, kname), format!("a data chunk sent after {} {} in a row: the next message was written {:.3} ms later (< 30 ms)", k, kname, ms(gap)), J::obj(vec![("replies_before", J::us(k)), ("kind", J::s(kname)), ("gap_ms", J::Num(ms(gap)))]));
                }
            }
        }
    }
}

/// One bus, nothing but data chunks, `n` of them: chunk number 256 (quick) and 65 536 (thorough) must be followed by the
/// same 30 ms of silence as chunk number 1.
fn chunk_run(rep: &mut Report, n: usize) {
    let st = doubles::shared(doubles::WEIRD_SETTINGS);
    let port = InstrPort::scripted(st.clone(), FragReader::plain(SENTINEL.to_vec()), FragWriter::new(vec![], WriteAct::Accept(usize::MAX)));
    let Ok(mut bus) = SerialSignBus::try_new(port) else {
        rep.note("measure_error/chunk_run", J::s("try_new failed"));
        return;
    };
    rep.case(Some(0xC18_0000 + n as u64));
    let mut last_write_end: Option<Instant> = None;
    for i in 0..n {
        let m = RefMsg::Data { offset: ((i % 4096) * 16) as u16, data: vec![i as u8; 16] };
        st.borrow_mut().log.clear();
        std::thread::current().unpark();
        let r = catch(|| bus.process_message(refs::from_ref(&m)).is_ok());
        if !matches!(r, Ok(true)) {
            rep.note("measure_error/chunk_run", J::s(format!("chunk #{} failed", i)));
            return;
        }
        let log = st.borrow().log.clone();
        let first_write = log.iter().find(|e| matches!(e.ev, PortEv::Write { .. })).map(|e| e.t0);
        let this_end = log.iter().filter(|e| matches!(e.ev, PortEv::Write { .. })).map(|e| e.t1).next_back();
        if let (Some(prev), Some(start)) = (last_write_end, first_write) {
            let gap = start.duration_since(prev);
            if gap < SEND_PACE {
                rep.violation(MON, "data_chunk_not_paced", &format!("chunk-run-{}", i), format!("chunk #{} of a run of {} data chunks through one bus was written {:.3} ms after chunk #{} (< 30 ms)", i, n, ms(gap), i - 1), J::obj(vec![("chunk", J::us(i)), ("gap_ms", J::Num(ms(gap)))]));
                return;
            }
        }
        last_write_end = this_end;
        rep.count("chunk_run_chunks");
    }
}

fn session_of_length(rng: &mut crate::util::Rng, rep: &mut Report, n: usize) {
    let msgs: Vec<SessMsg> = (0..n).map(|_| random_session_message(rng)).collect();
    run_session_messages(msgs, rep)
}

/// Sessions shaped like the protocol's own transfers — request acknowledged, k chunks, the chunk count (right, one too
/// many, zero), and then MORE chunks without a new request, a poll, chunks again: a data chunk is followed by 30 ms of
/// silence whatever the bus may have concluded about where a transfer stands.
fn protocol_shaped_sessions(rep: &mut Report) {
    let chunk = |i: usize| SessMsg { m: RefMsg::Data { offset: (i * 16) as u16, data: vec![0x3C; 16] }, reply: None, class: "data chunk", data_chunk: true, in_progress_reply: false };
    let plain = |m: RefMsg, reply: Option<RefMsg>, class: &'static str| SessMsg { m, reply, class, data_chunk: false, in_progress_reply: false };
    for op in [0usize, 1] {
        for k in 0..3usize {
            for count in [k as u16, k as u16 + 1, 0] {
                let mut msgs = vec![plain(RefMsg::Request(3, op), Some(RefMsg::Ack(3, op)), "request<-plain")];
                msgs.extend((0..k).map(chunk));
                msgs.push(plain(RefMsg::Count(count), None, "chunk count"));
                msgs.push(chunk(k));
                msgs.push(plain(RefMsg::Query(3), Some(RefMsg::Report(3, if op == 0 { S_CFG_RECV } else { S_PIX_RECV })), "query<-plain"));
                msgs.push(chunk(0));
                msgs.push(plain(RefMsg::Count(0), None, "chunk count"));
                msgs.push(chunk(1));
                msgs.push(plain(RefMsg::Complete(3), None, "pixels complete"));
                msgs.push(chunk(2));
                msgs.push(plain(RefMsg::Hello(3), Some(RefMsg::Report(3, S_UNCONF)), "hello<-plain"));
                run_session_messages(msgs, rep);
                rep.count("protocol_shaped_sessions");
            }
        }
    }
}

fn run_session_messages(msgs: Vec<SessMsg>, rep: &mut Report) {
    let n = msgs.len();
    let shown = msgs.iter().map(|m| format!("{}{}", m.m.show(), m.reply.as_ref().map(|r| format!("<-{}", r.show())).unwrap_or_default())).collect::<Vec<_>>().join(" ");
    rep.case(Some(fnv(shown.as_bytes())));
    rep.count("sessions");
    let mut tape = vec![];
    for m in &msgs {
        if let Some(r) = &m.reply {
            tape.extend_from_slice(&refs::wire(r));
        }
    }
    tape.extend_from_slice(SENTINEL);
    let st = doubles::shared(doubles::WEIRD_SETTINGS);
    let port = InstrPort::scripted(st.clone(), FragReader::plain(tape), FragWriter::new(vec![], WriteAct::Accept(usize::MAX)));
    let Ok(mut bus) = SerialSignBus::try_new(port) else {
        rep.note("measure_error/session", J::s("try_new failed"));
        return;
    };
    let r = catch(|| {
        let mut marks = vec![];
        for m in &msgs {
            let n0 = st.borrow().log.len();
            std::thread::current().unpark();
            let ok = bus.process_message(refs::from_ref(&m.m)).is_ok();
            marks.push((n0, Instant::now(), ok));
        }
        marks
    });
    let marks = match r {
        Ok(m) => m,
        Err(p) => {
            rep.note("measure_error/session", J::s(format!("panic {}", p.msg)));
            return;
        }
    };
    if marks.iter().any(|(_, _, ok)| !ok) {
        rep.note("measure_error/session", J::s(format!("an exchange failed in [{}]", shown)));
        return;
    }
    let log = st.borrow().log.clone();
    let fail = |rep: &mut Report, class: &str, what: String| {
        rep.violation(MON, class, &format!("session [{}]", shown), format!("session [{}]: {}", shown, what), J::obj(vec![("session", J::s(shown.clone())), ("observed", J::s(what.clone()))]));
    };
    for i in 0..n {
        let lo = marks[i].0;
        let hi = if i + 1 < n { marks[i + 1].0 } else { log.len() };
        let mine = &log[lo..hi];
        let last_write_end = mine.iter().filter(|e| matches!(e.ev, PortEv::Write { .. })).map(|e| e.t1).next_back();
        let last_read_end = mine.iter().filter(|e| matches!(e.ev, PortEv::Read { .. })).map(|e| e.t1).next_back();
        if msgs[i].in_progress_reply {
            rep.count("session_paced_replies");
            if let Some(t) = last_read_end {
                let gap = marks[i].1.duration_since(t);
                if gap < RECV_PACE {
                    fail(rep, "in_progress_report_not_paced", format!("message #{} ({}) returned {:.3} ms after the in-progress report (< 100 ms)", i, msgs[i].m.show(), ms(gap)));
                }
            }
        }
        if i + 1 < n {
            let next = &log[hi..if i + 2 < n { marks[i + 2].0 } else { log.len() }];
            let next_write_start = next.iter().find(|e| matches!(e.ev, PortEv::Write { .. })).map(|e| e.t0);
            if let (Some(a), Some(b)) = (last_write_end, next_write_start) {
                let gap = b.duration_since(a);
                if msgs[i].data_chunk {
                    rep.count("session_paced_chunks");
                    if gap < SEND_PACE {
                        fail(rep, "data_chunk_not_paced", format!("message #{} ({}) was written {:.3} ms after the data chunk before it (< 30 ms)", i + 1, msgs[i + 1].m.show(), ms(gap)));
                    }
                } else if !msgs[i].in_progress_reply {
                    // an exchange that needs no pacing: remembered per (kind, next kind) for the min-over-observations rule
                    let key = format!("session_pair:{} -> {}", msgs[i].class, msgs[i + 1].class);
                    rep.min(&key, ms(gap));
                    rep.add(&format!("n:{}", key), 1);
                }
            }
        }
    }
}

/// The reply tape holds the request itself (an echo: a line like any other, returned as the reply and not paced) and
/// behind it an in-progress report, which the NEXT exchange reads. Whichever call RETURNS an in-progress report does so no
/// sooner than 100 ms after the read that completed it; the call that returns the echo has nothing to wait for.
fn echo_then_report(rep: &mut Report) {
    let mut reqs = vec![RefMsg::Hello(3), RefMsg::Query(3)];
    reqs.extend((0..N_OPS).map(|o| RefMsg::Request(3, o)));
    for req in &reqs {
        for st_code in [S_LOAD_PROG, S_SHOW_PROG] {
            for first in [true, false] {
                // (first: the echo comes first and the report second; otherwise the other way round)
                let lines = if first { [req.clone(), RefMsg::Report(3, st_code)] } else { [RefMsg::Report(3, st_code), req.clone()] };
                let shown = format!("{} <- {} then {}", req.show(), lines[0].show(), lines[1].show());
                rep.case(Some(fnv(shown.as_bytes())));
                let mut tape = vec![];
                tape.extend_from_slice(&refs::wire(&lines[0]));
                tape.extend_from_slice(&refs::wire(&lines[1]));
                tape.extend_from_slice(SENTINEL);
                let st = doubles::shared(doubles::WEIRD_SETTINGS);
                let port = InstrPort::scripted(st.clone(), FragReader::plain(tape), FragWriter::new(vec![], WriteAct::Accept(usize::MAX)));
                let Ok(mut bus) = SerialSignBus::try_new(port) else {
                    rep.note("measure_error/echo", J::s("try_new failed"));
                    continue;
                };
                let r = catch(|| {
                    let mut out = vec![];
                    for _ in 0..2 {
                        let n0 = st.borrow().log.len();
                        std::thread::current().unpark();
                        let got = bus.process_message(refs::from_ref(req)).map(|o| o.map(|m| refs::to_ref(&m))).map_err(|e| e.to_string());
                        out.push((n0, Instant::now(), got));
                    }
                    out
                });
                let Ok(out) = r else {
                    rep.note("measure_error/echo", J::s(format!("panic in [{}]", shown)));
                    continue;
                };
                let log = st.borrow().log.clone();
                for (k, (n0, t_ret, got)) in out.iter().enumerate() {
                    let hi = out.get(k + 1).map(|o| o.0).unwrap_or(log.len());
                    let last_read_end = log[*n0..hi].iter().filter(|e| matches!(e.ev, PortEv::Read { .. })).map(|e| e.t1).next_back();
                    let (Ok(Some(m)), Some(t)) = (got, last_read_end) else { continue };
                    let gap = t_ret.duration_since(t);
                    if matches!(m, RefMsg::Report(_, s) if *s == S_LOAD_PROG || *s == S_SHOW_PROG) {
                        rep.count("in_progress_reports_returned_beside_an_echo");
                        if gap < RECV_PACE {
                            rep.violation(MON, "in_progress_report_not_paced", &shown, format!("[{}]: call #{} returned {} only {:.3} ms after the read that completed it (< 100 ms)", shown, k, m.show(), ms(gap)), J::obj(vec![("tape", J::s(shown.clone())), ("call", J::u(k as u64)), ("gap_ms", J::Num(ms(gap)))]));
                        }
                    } else {
                        rep.min("echo_returned_gap", ms(gap));
                        rep.count("echoes_returned");
                    }
                }
                rep.count("echo_then_report_tapes");
            }
        }
    }
}

/// Slow ports: the chunk's write (or the in-progress report's read) itself takes 10 / 20 / 45 / 120 ms.
fn stalled_trials(trials: usize, rep: &mut Report) {
    let chunk = Cell { name: "send/SendData[16] on a port whose writes block".into(), m1: RefMsg::Data { offset: 32, data: vec![0x5A; 16] }, reply: RefMsg::Report(3, S_UNCONF), send_paced: true, recv_paced: false };
    let report = Cell { name: "recv/Query<-Report:PageLoadInProgress on a port whose read blocks".into(), m1: RefMsg::Query(3), reply: RefMsg::Report(3, S_LOAD_PROG), send_paced: false, recv_paced: true };
    for stall_ms in [10u64, 20, 45, 120] {
        let stall = Duration::from_millis(stall_ms);
        for _ in 0..trials.clamp(2, 6) {
            rep.case(Some(fnv(format!("stall{}", stall_ms).as_bytes())));
            rep.count("stalled_port_trials");
            match measure_stalled(&chunk.m1, &chunk.reply, Some(stall), None) {
                Ok(g) => {
                    if g.send_gap < SEND_PACE {
                        violation(rep, "data_chunk_not_paced_on_slow_port", &chunk, format!("the port's write took {} ms; the next message's write began {:.3} ms after the chunk's write had finished (< 30 ms)", stall_ms, ms(g.send_gap)));
                    }
                }
                Err(e) => rep.note(&format!("measure_error/stall/{}", stall_ms), J::s(e)),
            }
            match measure_stalled(&report.m1, &report.reply, None, Some(stall)) {
                Ok(g) => {
                    let gap = g.recv_gap.unwrap_or(Duration::ZERO);
                    if gap < RECV_PACE {
                        violation(rep, "in_progress_report_not_paced_on_slow_port", &report, format!("the port's read took {} ms; process_message returned {:.3} ms after the report had been read (< 100 ms)", stall_ms, ms(gap)));
                    }
                }
                Err(e) => rep.note(&format!("measure_error/stall/{}", stall_ms), J::s(e)),
            }
        }
    }
}

/// "Not delayed": the MINIMUM over repeated trials must stay below the smaller pacing value.
fn unpaced_trials(cell: &Cell, rep: &mut Report) {
    let mut min_send = Duration::MAX;
    let mut min_recv = Duration::MAX;
    let mut min_w2r = Duration::MAX;
    let expects_reply = reply_due(&cell.m1);
    // the write -> next-write gap of a cell whose reply is paced legitimately contains the 100 ms wait
    let check_send_gap = !cell.send_paced && !cell.recv_paced;
    let done = |s: Duration, r: Duration, w: Duration| (!check_send_gap || s < SEND_PACE) && (!expects_reply || cell.recv_paced || r < SEND_PACE) && (!expects_reply || cell.send_paced || w < SEND_PACE);
    // once a class of delay has been reported three times, further cells of that class are not measured (a bus that
    // delays everything would otherwise cost 75 x 100 ms per cell)
    let send_settled = !rep.wants_violation(MON, "unpaced_message_delayed");
    let recv_settled = !rep.wants_violation(MON, "unpaced_reply_delayed");
    if (send_settled || !check_send_gap) && (recv_settled || !expects_reply || cell.recv_paced) && (send_settled || recv_settled) {
        rep.count("unpaced_cells_skipped_after_refutation");
        if !cell.send_paced {
            rep.count("unpaced_send_cells");
        }
        return;
    }
    'rounds: for round in 0..3 {
        if round > 0 {
            std::thread::sleep(Duration::from_millis(200));
        }
        for _ in 0..25 {
            rep.case(Some(fnv(cell.name.as_bytes()) ^ 1));
            rep.count("unpaced_trials");
            if let Ok(g) = measure(&cell.m1, &cell.reply) {
                min_send = min_send.min(g.send_gap);
                if let Some(r) = g.recv_gap {
                    min_recv = min_recv.min(r);
                }
                if let Some(w) = g.write_to_read {
                    min_w2r = min_w2r.min(w);
                }
            }
            if done(min_send, min_recv, min_w2r) {
                break 'rounds;
            }
        }
    }
    if !cell.send_paced {
        rep.count("unpaced_send_cells");
        if check_send_gap {
            rep.min(&format!("{}:send_gap_ms", cell.name), ms(min_send));
            if min_send >= SEND_PACE {
                violation(rep, "unpaced_message_delayed", cell, format!("the next message was never written sooner than {:.3} ms after this one (75 trials)", ms(min_send)));
            }
        }
        if expects_reply && min_w2r >= SEND_PACE && min_w2r != Duration::MAX {
            violation(rep, "unpaced_message_delayed_before_read", cell, format!("the reply was never read sooner than {:.3} ms after the write (75 trials)", ms(min_w2r)));
        }
    }
    if expects_reply && !cell.recv_paced {
        rep.min(&format!("{}:return_gap_ms", cell.name), ms(min_recv));
        rep.count("unpaced_recv_cells");
        if min_recv >= SEND_PACE && min_recv != Duration::MAX {
            violation(rep, "unpaced_reply_delayed", cell, format!("never returned sooner than {:.3} ms after the reply (75 trials)", ms(min_recv)));
        }
    }
}

pub fn run(ctx: &Ctx) -> Outcome {
    let all = cells();
    let paced: Vec<Cell> = all.iter().filter(|c| c.send_paced || c.recv_paced).cloned().collect();
    let trials = ctx.size(8, 120) as usize;
    // phase 1: paced cells in parallel (lower bounds are insensitive to load)
    let mut report = run_sharded_on(paced.len(), paced.len(), |i, rep| paced_trials(&paced[i], trials, rep));
    // phase 2: everything single-threaded for the "not delayed" direction
    let mut rep2 = Report::new();
    flush_fault_trials(trials, &mut rep2);
    stalled_trials(trials, &mut rep2);
    for c in &all {
        unpaced_trials(c, &mut rep2);
        rep2.sample_always(J::obj(vec![("cell", J::s(c.name.clone())), ("message", J::s(c.m1.show())), ("reply", J::s(c.reply.show()))]));
    }
    report.merge(rep2);
    // phase 3: sessions (lower bounds per exchange; the "not delayed" side as a minimum per (kind, next kind) pair)
    let n_sessions = ctx.size(160, 4_000) as usize;
    let shards = 8usize;
    let rep3 = run_sharded_on(shards, shards, |i, rep| {
        let mut rng = ctx.rng("sessions", i as u64);
        if i < 2 {
            // one bus instance through 300 messages: the 300th chunk is paced like the first
            session_of_length(&mut rng, rep, 300);
            rep.count("long_sessions");
        } else if i == 2 {
            chunk_run(rep, if ctx.quick() { 300 } else { 66_000 });
        } else if i == 3 {
            after_k_replies(rep);
        } else if i == 4 {
            protocol_shaped_sessions(rep);
        } else if i == 5 {
            echo_then_report(rep);
        }
        for _ in 0..n_sessions / shards {
            session(&mut rng, rep);
        }
    });
    report.merge(rep3);
    let pair_keys: Vec<String> = report.mins.keys().filter(|k| k.starts_with("session_pair:")).cloned().collect();
    for k in pair_keys {
        let n = report.get(&format!("n:{}", k));
        let min = report.mins[&k];
        if n >= 8 {
            report.count("session_pairs_judged");
            if min >= 30.0 {
                report.violation(MON, "unpaced_message_delayed", &k, format!("{}: over {} observations in sessions the next message was never written sooner than {:.3} ms after an exchange that needs no pacing", k, n, min), J::obj(vec![("pair", J::s(k.clone())), ("observations", J::u(n)), ("min_gap_ms", J::Num(min))]));
            }
        }
    }
    let n_send_unpaced = all.iter().filter(|c| !c.send_paced).count() as u64;
    let floors = vec![
        floor("paced send trials (data chunks of 4 lengths; 14 further (offset, length) pairs at the ends of the offset range and past 0xFFFF; 6 chunks whose offset and bytes equal state codes, a message type, the pause lengths)", report.get("paced_send_trials") >= 24 * trials as u64, report.get("paced_send_trials")),
        floor("paced receive trials (8 request kinds x 2 in-progress states x own/foreign; 8 addresses from 0000 to FFFF x 2 states x asked / not asked)", report.get("paced_recv_trials") >= 64 * trials as u64, report.get("paced_recv_trials")),
        floor("data chunk followed by a failing flush (3 error kinds)", report.get("flush_fault_trials") >= 9, report.get("flush_fault_trials")),
        floor("sessions: paced chunks, paced replies and unpaced pairs all observed mid-session", report.get("session_paced_chunks") >= 50 && report.get("session_paced_replies") >= 20 && report.get("session_pairs_judged") >= 10, format!("{} chunks, {} replies, {} pairs", report.get("session_paced_chunks"), report.get("session_paced_replies"), report.get("session_pairs_judged"))),
        floor("paced exchanges on ports whose write / read blocks for 10, 20, 45 and 120 ms", report.get("stalled_port_trials") >= 8, report.get("stalled_port_trials")),
        floor("a run of data chunks through one bus (300 in the quick tier, 66 000 in the thorough tier)", report.get("chunk_run_chunks") == if ctx.quick() { 300 } else { 66_000 }, report.get("chunk_run_chunks")),
        floor("a data chunk after exactly k replies of one kind, k = 0..66 and around 128 / 256", report.get("chunks_after_k_replies") >= 140, report.get("chunks_after_k_replies")),
        floor("sessions shaped like transfers (request acknowledged, k chunks, a right / wrong / zero count, then more chunks without a new request)", report.get("protocol_shaped_sessions") == 18, report.get("protocol_shaped_sessions")),
        floor("reply tapes that hold an echo of the request and an in-progress report (8 requests x 2 states x both orders): whichever call returns the report is paced, the one that returns the echo is not", report.get("echo_then_report_tapes") == 32 && report.get("in_progress_reports_returned_beside_an_echo") >= 32 && report.get("echoes_returned") >= 32 && report.mins.get("echo_returned_gap").is_some_and(|m| *m < 30.0), format!("{} tapes, {} reports, {} echoes, min echo gap {:?} ms", report.get("echo_then_report_tapes"), report.get("in_progress_reports_returned_beside_an_echo"), report.get("echoes_returned"), report.mins.get("echo_returned_gap"))),
        floor("two sessions of 300 messages through one bus", report.get("long_sessions") == 2, report.get("long_sessions")),
        floor("every unpaced cell measured", report.get("unpaced_send_cells") == n_send_unpaced, report.get("unpaced_send_cells")),
        floor("no measurement errors", !report.notes.keys().any(|k| k.starts_with("measure_error/")), "see notes"),
    ];
    Outcome {
        report,
        level: "exploration",
        rule: "one cell per message kind (data chunks of 0/1/16/255 bytes, every other kind, all 6 operations) and per (request kind that gets a reply: hello, query, 6 operation requests) x (reply kind: 13 states x own/foreign address, 6 acks, unknown and data frames); paced cells: a lower bound asserted on EVERY trial; unpaced cells: the minimum over up to 75 trials must stay below 30 ms; distinct = cells (paced and unpaced legs counted separately); plus random sessions of 3-6 mixed messages through one bus instance, every exchange judged on its own slice of the port log".into(),
        exhaustive: false,
        floors,
        assumptions: vec![
            "thread::sleep never returns early and Instant is monotonic, so lower-bound assertions cannot false-alarm under load".into(),
            "every measured call starts with a pending unpark token on the calling thread (a pause built on park_timeout would be cut short by it; sleep is not)".into(),
            "the 'not delayed' direction takes the minimum over repeated single-threaded trials against the smaller pacing value (30 ms)".into(),
            "measured at the port's write/read boundary with the process's monotonic clock; nothing is claimed about a real UART".into(),
        ],
        extra: vec![],
    }
}
