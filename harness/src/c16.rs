//! C16 — serial bus: one frame out per message, one frame in exactly when a reply is due.

use std::io;

use flipdot_core::SignBus;
use flipdot_serial::SerialSignBus;

use crate::doubles::{self, FragReader, FragWriter, InstrPort, PortEv, ReadFault, Stamped, Wiring, WriteAct};
use crate::refs::{self, *};
use crate::util::{Ctx, J, Outcome, Report, Rng, catch, floor, fnv, hex, run_sharded_on, short_loc, show_bytes};

const MON: &str = "serial_exchange";

#[derive(Clone, Debug)]
pub struct Exchange {
    pub msg: RefMsg,
    /// what the sign side has queued on the wire (reply line + sentinel)
    pub tape: Vec<u8>,
    pub read_boundaries: Vec<usize>,
    pub read_faults: Vec<(usize, ReadFault, usize)>,
    pub write_script: Vec<WriteAct>,
    pub write_default: WriteAct,
    pub label: &'static str,
}

pub struct Ran {
    pub result: Result<Result<Option<RefMsg>, String>, String>, // outer Err = panic
    pub log: Vec<Stamped>,                                      // port events of process_message only (setup excluded)
    pub written: Vec<u8>,
    pub reader_pos: usize,
    pub t_call: std::time::Instant,
    pub t_return: std::time::Instant,
}

thread_local! {
    /// every read call of the next exchanges' ports blocks this long (see `slow_replies`)
    static SLOW_READS: std::cell::Cell<Option<std::time::Duration>> = const { std::cell::Cell::new(None) };
}

/// Runs one message through a real `SerialSignBus` on an instrumented port.
pub fn exchange(x: &Exchange) -> Ran {
    let st = doubles::shared(doubles::WEIRD_SETTINGS);
    st.borrow_mut().read_stall_each = SLOW_READS.with(|s| s.get());
    let reader = FragReader::new(x.tape.clone(), x.read_boundaries.clone(), x.read_faults.clone());
    let writer = FragWriter::new(x.write_script.clone(), x.write_default);
    let port = InstrPort::scripted(st.clone(), reader, writer);
    let mut bus = SerialSignBus::try_new(port).expect("port setup without injected faults succeeds");
    let setup_events = st.borrow().log.len();
    st.borrow_mut().written.clear();
    let lib = refs::from_ref(&x.msg);
    let t_call = std::time::Instant::now();
    let r = catch(|| bus.process_message(lib).map(|r| r.map(|m| refs::to_ref(&m))).map_err(|e| e.to_string()));
    let t_return = std::time::Instant::now();
    let reader_pos = match &bus.port().wiring {
        Wiring::Scripted { reader, .. } => reader.pos,
        _ => 0,
    };
    // the bus is dropped before the log is read: whatever it does to the port on its way out (a farewell frame, a
    // flush of something it held back, a read) is part of this exchange's record and judged like the rest
    let r = match catch(std::panic::AssertUnwindSafe(move || drop(bus))) {
        Ok(()) => r,
        Err(p) => Err(crate::util::PanicInfo { msg: format!("while dropping the bus: {}", p.msg), loc: p.loc }),
    };
    let s = st.borrow();
    Ran {
        result: r.map_err(|p| format!("panic {} at {}", p.msg, short_loc(&p.loc))),
        log: s.log[setup_events..].to_vec(),
        written: s.written.clone(),
        reader_pos,
        t_call,
        t_return,
    }
}

pub fn reply_due(m: &RefMsg) -> bool {
    matches!(m, RefMsg::Hello(_) | RefMsg::Query(_) | RefMsg::Request(..))
}

fn check(x: &Exchange, rep: &mut Report) {
    let sig = format!("{}|{}|b{:?}|rf{:?}|w{:?}/{:?}", x.msg.show(), hex(&x.tape), x.read_boundaries, x.read_faults, x.write_script, x.write_default);
    rep.case(Some(fnv(sig.as_bytes())));
    let due = reply_due(&x.msg);
    rep.count(&format!("kind/{}/{}", x.msg.kind(), if due { "reply_due" } else { "no_reply" }));
    rep.count(&format!("cases/{}", x.label));
    let ran = exchange(x);
    let want_wire = refs::wire(&x.msg);
    let fail = |rep: &mut Report, class: &str, what: String| {
        rep.violation(
            MON,
            class,
            &sig,
            format!("{} ({}): {}", x.msg.show(), x.label, what),
            J::obj(vec![
                ("message", J::s(x.msg.show())),
                ("label", J::s(x.label)),
                ("reply_tape", J::s(show_bytes(&x.tape))),
                ("read_boundaries", J::s(format!("{:?}", x.read_boundaries))),
                ("read_faults", J::s(format!("{:?}", x.read_faults))),
                ("write_script", J::s(format!("{:?} then {:?}", x.write_script, x.write_default))),
                ("written", J::s(show_bytes(&ran.written))),
                ("expected_written", J::s(show_bytes(&want_wire))),
                ("result", J::s(format!("{:?}", ran.result))),
                ("observed", J::s(what.clone())),
            ]),
        );
    };
    let result = match &ran.result {
        Err(p) => {
            fail(rep, "panic", p.clone());
            return;
        }
        Ok(r) => r,
    };
    // what the port saw
    let mut write_failed: Option<String> = None;
    let mut read_failed: Option<String> = None;
    let mut reads = 0usize;
    let mut read_after_failed_write = false;
    let mut read_before_write_complete = false;
    for e in &ran.log {
        match &e.ev {
            PortEv::Write { bytes, returned } => match returned {
                Err(io::ErrorKind::Interrupted) => {}
                Err(k) => {
                    write_failed.get_or_insert(format!("{:?}", k));
                }
                Ok(0) if !bytes.is_empty() => {
                    write_failed.get_or_insert("WriteZero".into());
                }
                _ => {}
            },
            PortEv::Read { requested, returned } => {
                reads += 1;
                rep.seen("read_request_sizes", *requested as u64);
                if write_failed.is_some() {
                    read_after_failed_write = true;
                }
                match returned {
                    Err(io::ErrorKind::Interrupted) => {}
                    Err(k) => {
                        read_failed.get_or_insert(format!("{:?}", k));
                    }
                    _ => {}
                }
            }
            _ => {}
        }
    }
    // order: no read may precede the completion of the write
    let mut written_so_far = 0usize;
    for e in &ran.log {
        match &e.ev {
            PortEv::Write { returned: Ok(n), .. } => written_so_far += n,
            PortEv::Read { .. } if written_so_far < want_wire.len() && write_failed.is_none() => read_before_write_complete = true,
            _ => {}
        }
    }
    if read_before_write_complete {
        fail(rep, "read_before_write_complete", "a read was issued before the whole frame had been written".into());
    }
    if let Some(k) = &write_failed {
        rep.count("write_failures_injected_and_hit");
        if result.is_ok() {
            fail(rep, "write_failure_not_an_error", format!("the port's write failed ({}) but the result is {:?}", k, result));
        }
        if read_after_failed_write {
            fail(rep, "read_after_failed_write", "a read was attempted after the write had failed".into());
        }
        if !want_wire.starts_with(&ran.written) {
            fail(rep, "wrong_bytes_written", format!("wrote [{}]", show_bytes(&ran.written)));
        }
        return;
    }
    if ran.written != want_wire {
        fail(rep, "wrong_bytes_written", format!("wrote [{}] expected [{}]", show_bytes(&ran.written), show_bytes(&want_wire)));
        return;
    }
    if !due {
        if reads > 0 {
            fail(rep, "read_when_no_reply_due", format!("{} read call(s) for a message that gets no reply", reads));
        }
        if ran.reader_pos != 0 {
            fail(rep, "consumed_when_no_reply_due", format!("{} bytes consumed from the wire", ran.reader_pos));
        }
        match result {
            Ok(None) => rep.count("outcome/no_reply_none"),
            other => fail(rep, "wrong_result_no_reply_due", format!("result {:?}, expected Ok(None)", other)),
        }
        return;
    }
    // a reply is due
    if reads == 0 {
        fail(rep, "no_read_when_reply_due", format!("no read call although a reply is due; result {:?}", result));
        return;
    }
    if let Some(k) = &read_failed {
        rep.count("read_failures_injected_and_hit");
        if result.is_ok() {
            fail(rep, "read_failure_not_an_error", format!("the port's read failed ({}) but the result is {:?}", k, result));
        }
        return;
    }
    let line_end = x.tape.iter().position(|b| *b == b'\n').map(|i| i + 1).unwrap_or(x.tape.len());
    // premature EOF faults shorten the line
    let eof_at = x.read_faults.iter().filter(|f| f.1 == ReadFault::Eof && f.0 < line_end).map(|f| f.0).min();
    let consumed_end = eof_at.unwrap_or(line_end);
    if ran.reader_pos != consumed_end {
        fail(rep, "not_exactly_one_line_consumed", format!("{} bytes consumed, the reply line ends at {}", ran.reader_pos, consumed_end));
        return;
    }
    let line = &x.tape[..consumed_end];
    match refs::dec(line) {
        Dec::Ok { addr, ty, data } => {
            let want = refs::classify(addr, ty, &data);
            rep.count(&format!("reply_class/{}", want.kind()));
            match result {
                Ok(Some(got)) if *got == want => rep.count("outcome/reply_returned"),
                other => fail(rep, "wrong_reply", format!("result {:?}, the line decodes to {}", other, want.show())),
            }
        }
        bad => {
            rep.count(&format!("reply_class/undecodable_{}", bad.class()));
            if line.is_empty() {
                rep.count("reply_class/empty_line_or_eof");
            }
            match result {
                Err(_) => rep.count("outcome/undecodable_is_error"),
                other => fail(rep, "undecodable_reply_not_an_error", format!("result {:?} for the undecodable line [{}]", other, show_bytes(line))),
            }
        }
    }
    if rep.wants_sample() {
        rep.sample(|| J::obj(vec![("message", J::s(x.msg.show())), ("label", J::s(x.label)), ("reply_tape", J::s(show_bytes(&x.tape))), ("result", J::s(format!("{:?}", result)))]));
    }
}


/// A SESSION: several messages through ONE bus instance, with write faults somewhere along the way. Each message is
/// judged on its own slice of the port's event log, so anything a message leaves behind for the next one (stale
/// bytes, a half-consumed line) shows up on that next message.
fn check_session(msgs: &[RefMsg], write_script: Vec<WriteAct>, write_default: WriteAct, rng: &mut Rng, rep: &mut Report) {
    check_session_rf(msgs, write_script, write_default, 0, rng, rep)
}

/// `n_read_faults`: that many read faults (hard error / premature end of stream / interrupt, each firing once) are
/// placed at random positions of the reply tape. After a failed read the session goes on: the next exchange that reads
/// starts wherever the stream now stands, and is judged on exactly that.
fn check_session_rf(msgs: &[RefMsg], write_script: Vec<WriteAct>, write_default: WriteAct, n_read_faults: usize, rng: &mut Rng, rep: &mut Report) {
    let mut tape = vec![];
    for m in msgs {
        if reply_due(m) {
            let own = match m {
                RefMsg::Hello(a) | RefMsg::Query(a) | RefMsg::Request(a, _) => *a,
                _ => 3,
            };
            let r = match rng.below(4) {
                0 => RefMsg::Ack(own, rng.usize(N_OPS)),
                1 => RefMsg::Unknown { addr: own, ty: 0x42, data: rng.bytes_upto(4) },
                _ => {
                    // (sessions of thousands of messages leave out the two states whose report costs 100 ms)
                    let mut s = rng.usize(N_STATES);
                    while msgs.len() > 100 && (s == S_LOAD_PROG || s == S_SHOW_PROG) {
                        s = rng.usize(N_STATES);
                    }
                    RefMsg::Report(own, s)
                }
            };
            let mut line = refs::wire(&r);
            // now and then the reply arrives DAMAGED (a letter that is no hex digit, a digit lost, a digit doubled, a wrong
            // checksum, the colon gone): that exchange fails with the decoding error of exactly that line, whatever went before
            if msgs.len() <= 100 && rng.chance(1, 6) {
                rep.count("session_replies_damaged_on_the_line");
                let at = 1 + rng.usize(line.len() - 3);
                match rng.below(5) {
                    0 => line[at] = b'G',
                    1 => {
                        line.remove(at);
                    }
                    2 => {
                        let c = line[at];
                        line.insert(at, c);
                    }
                    3 => {
                        let n = line.len();
                        line[n - 3] = if line[n - 3] == b'0' { b'1' } else { b'0' };
                    }
                    _ => line[0] = b';',
                }
            }
            tape.extend(line);
        }
    }
    tape.extend_from_slice(SENTINEL);
    let mut read_faults: Vec<(usize, ReadFault, usize)> = vec![];
    let mut read_boundaries: Vec<usize> = vec![];
    if n_read_faults > 0 {
        for _ in 0..n_read_faults {
            let at = rng.usize(tape.len() - SENTINEL.len() + 1);
            if read_faults.iter().all(|f| f.0 != at) {
                let hk = *rng.pick(&doubles::HARD_KINDS);
                read_faults.push((at, *rng.pick(&[ReadFault::Fail(hk), ReadFault::Fail(io::ErrorKind::TimedOut), ReadFault::Eof, ReadFault::Interrupted]), 1));
            }
        }
        for _ in 0..rng.usize(4) {
            read_boundaries.push(rng.usize(tape.len()));
        }
    }
    run_session(msgs, tape, read_boundaries, read_faults, write_script, write_default, rep)
}

/// The session itself: `tape` holds the reply lines in order (followed by the sentinel).
fn run_session(msgs: &[RefMsg], tape: Vec<u8>, read_boundaries: Vec<usize>, read_faults: Vec<(usize, ReadFault, usize)>, write_script: Vec<WriteAct>, write_default: WriteAct, rep: &mut Report) {
    let sig = if msgs.len() > 100 {
        format!("long session of {} messages|{:016x}", msgs.len(), fnv(&tape))
    } else {
        format!("session|{}|w{:?}/{:?}|r{:?}|{}", msgs.iter().map(|m| m.show()).collect::<Vec<_>>().join(";"), write_script, write_default, read_faults, hex(&tape))
    };
    rep.case(Some(fnv(sig.as_bytes())));
    rep.count("sessions");
    let st = doubles::shared(doubles::WEIRD_SETTINGS);
    let port = InstrPort::scripted(st.clone(), FragReader::new(tape.clone(), read_boundaries, read_faults.clone()), FragWriter::new(write_script.clone(), write_default).gathering(fnv(sig.as_bytes()) % 2 == 1));
    let mut bus = SerialSignBus::try_new(port).expect("port setup");
    let mut transcript: Vec<String> = vec![];
    for (k, m) in msgs.iter().enumerate() {
        if k % 256 == 255 && crate::util::soft_deadline_passed() {
            rep.count("loops_cut_short_at_the_soft_deadline");
            break;
        }
        let (ev0, w0) = {
            let s = st.borrow();
            (s.log.len(), s.written.len())
        };
        let pos0 = match &bus.port().wiring {
            Wiring::Scripted { reader, .. } => reader.pos,
            _ => 0,
        };
        let lib = refs::from_ref(m);
        let r = catch(|| bus.process_message(lib).map(|r| r.map(|x| refs::to_ref(&x))).map_err(|e| e.to_string()));
        let pos1 = match &bus.port().wiring {
            Wiring::Scripted { reader, .. } => reader.pos,
            _ => 0,
        };
        let s = st.borrow();
        let written = s.written[w0..].to_vec();
        let events = &s.log[ev0..];
        let want = refs::wire(m);
        let write_failed = events.iter().any(|e| matches!(&e.ev, PortEv::Write { bytes, returned } if matches!(returned, Err(k) if *k != io::ErrorKind::Interrupted) || (matches!(returned, Ok(0)) && !bytes.is_empty())));
        let reads = events.iter().filter(|e| matches!(e.ev, PortEv::Read { .. })).count();
        if transcript.len() > 8 {
            transcript.remove(0); // long sessions: keep the last few exchanges for the report
        }
        transcript.push(format!("#{} {} wrote [{}] -> {:?}", k, m.show(), show_bytes(&written), r.as_ref().map_err(|p| p.msg.clone())));
        let mut bad: Vec<(&'static str, String)> = vec![];
        match &r {
            Err(p) => bad.push(("panic", format!("panic {} at {}", p.msg, short_loc(&p.loc)))),
            Ok(result) => {
                if write_failed {
                    rep.count("session_write_failures_hit");
                    if result.is_ok() {
                        bad.push(("write_failure_not_an_error", format!("message #{}: the write failed but the result is {:?}", k, result)));
                    }
                    if !want.starts_with(&written) {
                        bad.push(("wrong_bytes_written", format!("message #{} wrote [{}], not a prefix of [{}]", k, show_bytes(&written), show_bytes(&want))));
                    }
                    if reads > 0 {
                        bad.push(("read_after_failed_write", format!("message #{}: {} read call(s) after the failed write", k, reads)));
                    }
                } else {
                    if written != want {
                        bad.push(("wrong_bytes_written", format!("message #{} ({}) wrote [{}] expected [{}]", k, m.show(), show_bytes(&written), show_bytes(&want))));
                    }
                    let hard_read_fault = events.iter().any(|e| matches!(&e.ev, PortEv::Read { returned: Err(k), .. } if *k != io::ErrorKind::Interrupted));
                    let eof_seen = events.iter().any(|e| matches!(&e.ev, PortEv::Read { requested, returned: Ok(0) } if *requested > 0));
                    if reply_due(m) && (hard_read_fault || eof_seen) {
                        // the read was cut short: never more than the line may be gone, a hard error must surface, and
                        // a premature end of stream leaves exactly the bytes that were delivered to decode
                        let line_end = tape[pos0..].iter().position(|b| *b == b'\n').map(|i| pos0 + i + 1).unwrap_or(tape.len());
                        rep.count("session_read_faults_hit");
                        if pos1 > line_end {
                            bad.push(("not_exactly_one_line_consumed", format!("message #{} consumed {} bytes although its read was cut short; the reply line has {}", k, pos1 - pos0, line_end - pos0)));
                        } else if hard_read_fault {
                            if result.is_ok() {
                                bad.push(("read_failure_not_an_error", format!("message #{}: the port's read failed but the result is {:?}", k, result)));
                            }
                        } else {
                            match refs::dec(&tape[pos0..pos1]) {
                                Dec::Ok { addr, ty, data } => {
                                    let wantr = refs::classify(addr, ty, &data);
                                    if *result != Ok(Some(wantr.clone())) {
                                        bad.push(("wrong_reply", format!("message #{}: result {:?}; the stream ended after [{}], which decodes to {}", k, result, show_bytes(&tape[pos0..pos1]), wantr.show())));
                                    }
                                }
                                _ => {
                                    if result.is_ok() {
                                        bad.push(("undecodable_reply_not_an_error", format!("message #{}: result {:?} although the stream ended after [{}]", k, result, show_bytes(&tape[pos0..pos1]))));
                                    }
                                }
                            }
                        }
                    } else if reply_due(m) {
                        let line_end = tape[pos0..].iter().position(|b| *b == b'\n').map(|i| pos0 + i + 1).unwrap_or(tape.len());
                        if pos1 != line_end {
                            bad.push(("not_exactly_one_line_consumed", format!("message #{} consumed {} bytes, the next reply line has {}", k, pos1 - pos0, line_end - pos0)));
                        } else {
                            match refs::dec(&tape[pos0..line_end]) {
                                Dec::Ok { addr, ty, data } => {
                                    let wantr = refs::classify(addr, ty, &data);
                                    if *result != Ok(Some(wantr.clone())) {
                                        bad.push(("wrong_reply", format!("message #{}: result {:?}, the line decodes to {}", k, result, wantr.show())));
                                    }
                                }
                                _ => {
                                    if result.is_ok() {
                                        bad.push(("undecodable_reply_not_an_error", format!("message #{}: result {:?}", k, result)));
                                    }
                                }
                            }
                        }
                    } else {
                        if reads > 0 || pos1 != pos0 {
                            bad.push(("read_when_no_reply_due", format!("message #{} ({}) read from the port", k, m.show())));
                        }
                        if *result != Ok(None) {
                            bad.push(("wrong_result_no_reply_due", format!("message #{}: result {:?}", k, result)));
                        }
                    }
                }
            }
        }
        drop(s);
        if !bad.is_empty() {
            for (class, what) in bad {
                rep.violation(
                    MON,
                    class,
                    &sig,
                    format!("session [{}]: {}", transcript.join(" | "), what),
                    J::obj(vec![("workload", J::s("session")), ("transcript", J::Arr(transcript.iter().map(|t| J::s(t.clone())).collect())), ("write_script", J::s(format!("{:?} then {:?}", write_script, write_default))), ("reply_tape", J::s(show_bytes(&tape))), ("observed", J::s(what.clone()))]),
                );
            }
            return;
        }
        rep.count("session_messages_checked");
    }
}

fn sessions(ctx: &Ctx, shard: usize, n: u64, rep: &mut Report) {
    let mut rng = ctx.rng("sessions", shard as u64);
    // unpaced kinds only (sessions are about history, not pacing): keeps them fast
    let pool = |rng: &mut Rng| -> RefMsg {
        let a = *rng.pick(&[3u16, 0xFF, 0x100, 0xFFFF]);
        match rng.below(8) {
            0 => RefMsg::Hello(a),
            1 | 2 => RefMsg::Query(a),
            3 => RefMsg::Request(a, rng.usize(N_OPS)),
            4 => RefMsg::Goodbye(a),
            5 => RefMsg::Complete(a),
            6 => RefMsg::Count(rng.u16()),
            _ => RefMsg::Unknown { addr: a, ty: 0x33, data: rng.bytes_upto(3) },
        }
    };
    if shard == 0 {
        // deterministic core: a write failure at EVERY write-call index of a 3-message session, for 3 chunk sizes
        let msgs = vec![RefMsg::Request(3, O_START_RESET), RefMsg::Query(3), RefMsg::Goodbye(3), RefMsg::Hello(3)];
        for size in [1usize, 4, usize::MAX] {
            let total: usize = msgs.iter().map(|m| if size == usize::MAX { 1 } else { refs::wire(m).len().div_ceil(size) }).sum();
            for j in 0..=total {
                for act in [WriteAct::Fail(io::ErrorKind::Other), WriteAct::Zero, WriteAct::Interrupted] {
                    let mut script = vec![WriteAct::Accept(size); j];
                    script.push(act);
                    check_session(&msgs, script, WriteAct::Accept(size), &mut rng, rep);
                }
            }
        }
        rep.count("session_core_done");
    }
    if shard == 2 {
        // what the previous reply was must not change how a failing read is treated: [poll -> reply R, poll -> read fails]
        // for R = each of the 13 states (the two in-progress ones among them) and an ack, the failure of every kind, at
        // the first byte, in the middle and at the last byte of the second reply
        let second = refs::wire(&RefMsg::Report(3, S_LOADED));
        let mut firsts: Vec<RefMsg> = (0..N_STATES).map(|s| RefMsg::Report(3, s)).collect();
        firsts.push(RefMsg::Ack(3, O_SHOW));
        firsts.push(RefMsg::Report(4, S_LOAD_PROG));
        for first in firsts {
            for (req2, label) in [(RefMsg::Query(3), "same sign polled again"), (RefMsg::Hello(3), "hello to the same sign"), (RefMsg::Query(4), "another sign polled")] {
                let head = refs::wire(&first);
                for at in [0usize, 7, second.len() - 1] {
                    for fault in [ReadFault::Fail(io::ErrorKind::TimedOut), ReadFault::Fail(io::ErrorKind::WouldBlock), ReadFault::Fail(io::ErrorKind::Other), ReadFault::Eof] {
                        let mut tape = head.clone();
                        tape.extend_from_slice(&second);
                        tape.extend_from_slice(&second);
                        tape.extend_from_slice(SENTINEL);
                        let msgs = [RefMsg::Query(3), req2.clone(), RefMsg::Query(3)];
                        run_session(&msgs, tape, vec![], vec![(head.len() + at, fault, 1)], vec![], WriteAct::Accept(usize::MAX), rep);
                        rep.count("sessions_failing_read_after_each_reply_kind");
                        let _ = label;
                    }
                }
            }
        }
    }
    if shard == 3 {
        // exactly k exchanges in a row fail in the same way (k = 1..3, 62..66, 127..129, 255..257), then two ordinary
        // ones: how many failures a bus has seen must not change what it does with the next message
        let good = refs::wire(&RefMsg::Report(3, S_LOADED));
        for k in [1usize, 2, 3, 62, 63, 64, 65, 66, 127, 128, 129, 255, 256, 257] {
            for kind in 0..5 {
                let mut tape = vec![];
                let mut read_faults = vec![];
                let mut write_script = vec![];
                let mut msgs: Vec<RefMsg> = vec![RefMsg::Query(3); k + 2];
                match kind {
                    0 => read_faults.push((0usize, ReadFault::Fail(io::ErrorKind::TimedOut), k)),
                    1 => read_faults.push((0usize, ReadFault::Fail(io::ErrorKind::Other), k)),
                    2 => read_faults.push((0usize, ReadFault::Eof, k)),
                    3 => {
                        for i in 0..k {
                            tape.extend_from_slice(if i % 2 == 0 { b":0100030410E9\r\n" } else { b"?\r\n" }); // bad checksum / garbage
                        }
                    }
                    _ => {
                        write_script = vec![WriteAct::Fail(io::ErrorKind::BrokenPipe); k];
                        msgs = vec![RefMsg::Goodbye(3); k];
                        msgs.push(RefMsg::Query(3));
                        msgs.push(RefMsg::Query(3));
                    }
                }
                tape.extend_from_slice(&good);
                tape.extend_from_slice(&good);
                tape.extend_from_slice(SENTINEL);
                run_session(&msgs, tape, vec![], read_faults, write_script, WriteAct::Accept(usize::MAX), rep);
                rep.count("sessions_after_k_failures");
            }
        }
    }
    if shard == 4 {
        // what the caller says is what goes out: a chunk count of 0 (or any other) after k data chunks is written as given
        for k in [0usize, 1, 2, 3] {
            for count in [0u16, 1, k as u16, 0xFFFF] {
                let mut msgs: Vec<RefMsg> = (0..k).map(|i| RefMsg::Data { offset: (i * 16) as u16, data: vec![i as u8; 16] }).collect();
                msgs.push(RefMsg::Count(count));
                msgs.push(RefMsg::Query(3));
                msgs.push(RefMsg::Count(0));
                msgs.push(RefMsg::Data { offset: 0, data: vec![] });
                msgs.push(RefMsg::Count(0));
                let mut tape = refs::wire(&RefMsg::Report(3, S_PIX_RECV));
                tape.extend_from_slice(SENTINEL);
                run_session(&msgs, tape, vec![], vec![], vec![], WriteAct::Accept(usize::MAX), rep);
                rep.count("sessions_with_chunks_and_counts");
            }
        }
    }
    if (5..9).contains(&shard) {
        // near-twin messages one after the other through one bus: what goes out is the message just handed over, not a
        // neighbour of it that was sent a moment ago (same offset with no data / one 00 byte / one other byte / more
        // bytes; the same one-byte frame under a neighbouring type or address)
        {
            let (a, b) = [(0x0010u16, 0x00u8), (0x0000, 0x00), (0xFFFF, 0xFF), (0x0003, 0x0F)][shard - 5];
            let family: Vec<RefMsg> = vec![
                RefMsg::Data { offset: a, data: vec![] },
                RefMsg::Data { offset: a, data: vec![0x00] },
                RefMsg::Data { offset: a, data: vec![b] },
                RefMsg::Data { offset: a, data: vec![b, 0x00] },
                RefMsg::Data { offset: a, data: vec![b; 16] },
                RefMsg::Count(a),
                RefMsg::Unknown { addr: a, ty: 0x42, data: vec![] },
                RefMsg::Unknown { addr: a, ty: 0x42, data: vec![b] },
                RefMsg::Unknown { addr: a, ty: 0x43, data: vec![b] },
                RefMsg::Unknown { addr: a ^ 0x0100, ty: 0x42, data: vec![b] },
                RefMsg::Goodbye(a),
                RefMsg::Complete(a),
            ];
            for i in 0..family.len() {
                for j in 0..family.len() {
                    if i != j {
                        let msgs = vec![family[i].clone(), family[j].clone(), family[i].clone(), family[j].clone()];
                        run_session(&msgs, SENTINEL.to_vec(), vec![], vec![], vec![], WriteAct::Accept(usize::MAX), rep);
                        rep.count("sessions_of_near_twin_messages");
                    }
                }
            }
        }
    }
    if shard == 12 {
        // a page flip in progress, polled, and then a poll whose reply arrives damaged (every kind of damage): the damaged
        // line is an error — not the report before it, not anything else
        for op in [2usize, 3] {
            for progress in [S_LOAD_PROG, S_SHOW_PROG] {
                for damage in 0..6usize {
                    let msgs = vec![RefMsg::Request(3, op), RefMsg::Query(3), RefMsg::Query(3), RefMsg::Query(3)];
                    let mut tape = refs::wire(&RefMsg::Ack(3, op));
                    tape.extend(refs::wire(&RefMsg::Report(3, progress)));
                    let mut line = refs::wire(&RefMsg::Report(3, if op == 2 { S_SHOWN } else { S_LOADED }));
                    match damage {
                        0 => line[0] = b'G',
                        1 => line[5] = b'g',
                        2 => {
                            line.remove(4);
                        }
                        3 => line.insert(4, b'0'),
                        4 => {
                            let n = line.len();
                            line.swap(n - 2, n - 1);
                        }
                        _ => {
                            let n = line.len();
                            line[n - 3] ^= 0x01;
                        }
                    }
                    tape.extend(line);
                    tape.extend(refs::wire(&RefMsg::Report(3, S_LOADED)));
                    tape.extend_from_slice(SENTINEL);
                    run_session(&msgs, tape, vec![], vec![], vec![], WriteAct::Accept(usize::MAX), rep);
                    rep.count("damaged_reply_to_a_poll_of_a_flip_in_progress");
                }
            }
        }
    }
    if shard == 13 {
        // a valid state report, then the SAME damaged line twice in a row (and a third time), then a valid one: every damaged
        // reply is an error of its own, however familiar the line looks
        for damaged in [&b":0100030407F2\r\n"[..], b":010003040\r\n", b"G0100030407F1\r\n", b":0100030407\r\n", b":010003040707EA\r\n"] {
            for first in [S_CFG_RECV, S_PIX_FAIL, S_LOAD_PROG] {
                let msgs = vec![RefMsg::Query(3), RefMsg::Query(3), RefMsg::Query(3), RefMsg::Query(3), RefMsg::Hello(3), RefMsg::Query(3)];
                let mut tape = refs::wire(&RefMsg::Report(3, first));
                tape.extend_from_slice(damaged);
                tape.extend_from_slice(damaged);
                tape.extend_from_slice(damaged);
                tape.extend(refs::wire(&RefMsg::Report(3, S_UNCONF)));
                tape.extend_from_slice(damaged);
                tape.extend_from_slice(SENTINEL);
                run_session(&msgs, tape, vec![], vec![], vec![], WriteAct::Accept(usize::MAX), rep);
                rep.count("the_same_damaged_reply_several_times_in_a_row");
            }
        }
    }
    if shard == 11 {
        // 300 data chunks in a row through one bus (a page of 4 800 bytes; more than any 8-bit tally of consecutive chunks
        // holds), then a query: chunk 256 is written like chunk 1
        let mut msgs: Vec<RefMsg> = (0..300usize).map(|i| RefMsg::Data { offset: (i * 16) as u16, data: vec![i as u8; 16] }).collect();
        msgs.push(RefMsg::Count(300));
        msgs.push(RefMsg::Query(3));
        let mut tape = refs::wire(&RefMsg::Report(3, S_PIX_RECV));
        tape.extend_from_slice(SENTINEL);
        run_session(&msgs, tape, vec![], vec![], vec![], WriteAct::Accept(usize::MAX), rep);
        rep.count("sessions_of_300_consecutive_data_chunks");
    }
    if shard == 9 || shard == 10 {
        // a reply that takes SECONDS to arrive although no single read fails or times out (a long line trickling in a
        // byte or a few at a time): the longest legal line at 24 ms per read call is more than 12 s in all. The bus has
        // no business with wall-clock time beyond the port's own timeout: the reply comes back, whole, and the stream
        // stands right behind it.
        let reply = RefMsg::Unknown { addr: 3, ty: 0x42, data: rng.bytes(255) };
        let m = if shard == 9 { RefMsg::Query(3) } else { RefMsg::Request(3, 1) };
        // (24 ms per read call: 12.5 s in all; thorough tier 60 ms: half a minute)
        SLOW_READS.with(|s| s.set(Some(std::time::Duration::from_millis(if ctx.quick() { 24 } else { 60 }))));
        let t0 = std::time::Instant::now();
        check(&plain(m, with_sentinel(refs::wire(&reply)), "reply_trickling_in_over_seconds"), rep);
        SLOW_READS.with(|s| s.set(None));
        rep.max("slowest_reply_seconds", t0.elapsed().as_secs_f64());
        rep.count("replies_trickling_in_over_seconds");
    }
    if shard == 1 {
        // one bus instance, 70 000 messages (more than any 16-bit counter holds), each judged like any other
        let msgs: Vec<RefMsg> = (0..70_000usize).map(|i| if i % 3 == 0 { RefMsg::Query((i / 3) as u16) } else { pool(&mut rng) }).collect();
        let before = rep.get("session_messages_checked");
        check_session(&msgs, vec![], WriteAct::Accept(usize::MAX), &mut rng, rep);
        rep.add("long_session_messages_checked", rep.get("session_messages_checked") - before);
    }
    for _ in 0..n {
        let k = 2 + rng.usize(4);
        let msgs: Vec<RefMsg> = (0..k).map(|_| pool(&mut rng)).collect();
        let size = *rng.pick(&[1usize, 2, 5, 16, usize::MAX]);
        let mut script = vec![];
        if rng.chance(2, 3) {
            let at = rng.usize(12);
            script = vec![WriteAct::Accept(size); at];
            script.push(*rng.pick(&[WriteAct::Fail(io::ErrorKind::Other), WriteAct::Fail(io::ErrorKind::BrokenPipe), WriteAct::Zero, WriteAct::Interrupted]));
            if rng.chance(1, 3) {
                script.extend(vec![WriteAct::Accept(size); rng.usize(10)]);
                script.push(WriteAct::Fail(io::ErrorKind::TimedOut));
            }
        }
        check_session(&msgs, script, WriteAct::Accept(size), &mut rng, rep);
        // the same kind of session with read faults instead (replies cut short, then the session goes on)
        let k = 3 + rng.usize(4);
        let msgs: Vec<RefMsg> = (0..k).map(|_| if rng.bool() { RefMsg::Query(3) } else { pool(&mut rng) }).collect();
        let n_faults = 1 + rng.usize(2);
        check_session_rf(&msgs, vec![], WriteAct::Accept(usize::MAX), n_faults, &mut rng, rep);
    }
}

fn plain(msg: RefMsg, tape: Vec<u8>, label: &'static str) -> Exchange {
    Exchange {
        msg,
        tape,
        read_boundaries: vec![],
        read_faults: vec![],
        write_script: vec![],
        write_default: WriteAct::Accept(usize::MAX),
        label,
    }
}

pub const SENTINEL: &[u8] = b":0100FF04AA52\r\nZZ";

fn with_sentinel(mut line: Vec<u8>) -> Vec<u8> {
    line.extend_from_slice(SENTINEL);
    line
}

fn messages(rng: &mut Rng, data_lens: &[usize]) -> Vec<RefMsg> {
    let mut v = vec![];
    for a in [0u16, 1, 0xFF, 0x100, 0x7FFF, 0x8000, 0xFFFF, rng.u16()] {
        v.push(RefMsg::Hello(a));
        v.push(RefMsg::Query(a));
        v.push(RefMsg::Goodbye(a));
        v.push(RefMsg::Complete(a));
        v.push(RefMsg::Count(a));
    }
    for o in 0..N_OPS {
        let a = rng.edgy_u16();
        v.push(RefMsg::Request(a, o));
        v.push(RefMsg::Ack(a, o));
    }
    for s in 0..N_STATES {
        v.push(RefMsg::Report(rng.edgy_u16(), s));
    }
    for &l in data_lens {
        v.push(RefMsg::Data { offset: *rng.pick(&[0u16, 16, 0xFFF0]), data: rng.bytes(l) });
    }
    // unknown messages, including ones that look like a hello / a request on the wire: the kind decides
    v.push(RefMsg::Unknown { addr: 3, ty: 2, data: vec![0xFF] });
    v.push(RefMsg::Unknown { addr: 3, ty: 3, data: vec![0xA1] });
    v.push(RefMsg::Unknown { addr: 0xBEEF, ty: 0x77, data: vec![1, 2, 3] });
    v.push(RefMsg::Unknown { addr: 0, ty: 9, data: vec![] });
    // the heaviest frames there are (every field at or next to its maximum: the bytes total more than 16 bits hold)
    v.push(RefMsg::Unknown { addr: 0xFFFF, ty: 0xFF, data: vec![0xFF; 255] });
    v.push(RefMsg::Unknown { addr: 0xFEFF, ty: 0xFE, data: vec![0xFE; 255] });
    v.push(RefMsg::Data { offset: 0xFFFF, data: vec![0xFF; 255] });
    v
}

fn reply_tapes(rng: &mut Rng, own: u16) -> Vec<(Vec<u8>, &'static str)> {
    let mut v: Vec<(Vec<u8>, &'static str)> = vec![];
    for a in [own, own ^ 1] {
        for s in 0..N_STATES {
            v.push((with_sentinel(refs::wire(&RefMsg::Report(a, s))), "reply_state"));
        }
        for o in 0..N_OPS {
            v.push((with_sentinel(refs::wire(&RefMsg::Ack(a, o))), "reply_ack"));
        }
    }
    v.push((with_sentinel(refs::wire(&RefMsg::Unknown { addr: own, ty: 0x42, data: vec![9, 9] })), "reply_unknown_frame"));
    v.push((with_sentinel(refs::wire(&RefMsg::Data { offset: 16, data: rng.bytes(16) })), "reply_data_frame"));
    // near twins of known replies: a state report's / an acknowledgement's frame with one more data byte behind its code
    // (or none at all) is an unknown frame, and comes back as one
    for s in 0..N_STATES {
        let code = refs::STATES[s].1;
        for data in [vec![code, 0x00], vec![code, code], vec![code; 16]] {
            v.push((with_sentinel(refs::wire(&RefMsg::Unknown { addr: own, ty: 4, data })), "reply_near_twin_of_a_known_reply"));
        }
    }
    for o in 0..N_OPS {
        let code = refs::OPS[o].2;
        v.push((with_sentinel(refs::wire(&RefMsg::Unknown { addr: own, ty: 5, data: vec![code, 0x00] })), "reply_near_twin_of_a_known_reply"));
        v.push((with_sentinel(refs::wire(&RefMsg::Unknown { addr: own, ty: 5, data: vec![code, code, code] })), "reply_near_twin_of_a_known_reply"));
    }
    v.push((with_sentinel(refs::wire(&RefMsg::Unknown { addr: own, ty: 4, data: vec![] })), "reply_near_twin_of_a_known_reply"));
    v.push((with_sentinel(refs::wire(&RefMsg::Unknown { addr: own, ty: 5, data: vec![] })), "reply_near_twin_of_a_known_reply"));
    v.push((with_sentinel(refs::wire(&RefMsg::Report(own, S_CFG_RECV)).to_ascii_lowercase()), "reply_lower_case"));
    for n in [253usize, 254, 255] {
        v.push((with_sentinel(refs::wire(&RefMsg::Data { offset: rng.u16(), data: rng.bytes(n) })), "reply_maximum_length_frame"));
        v.push((with_sentinel(refs::wire(&RefMsg::Unknown { addr: own, ty: 0x7E, data: rng.bytes(n) })), "reply_maximum_length_frame"));
    }
    v.push((with_sentinel(refs::wire(&RefMsg::Unknown { addr: 0xFFFF, ty: 0xFF, data: vec![0xFF; 255] })), "reply_heaviest_frame"));
    v.push((with_sentinel(refs::wire(&RefMsg::Data { offset: 0xFFFF, data: vec![0xFF; 255] })), "reply_heaviest_frame"));
    // replies that carry MORE than 255 data pairs, with a length field that matches modulo 256 (or says FF) and a checksum
    // that is right for what was sent: undecodable, whatever arithmetic one does on the count
    for n in [256usize, 257, 300, 511] {
        for declared in [(n % 256) as u8, 0xFF] {
            let mut fields = vec![declared, (own >> 8) as u8, own as u8, if n % 2 == 0 { 0x00 } else { 0x42 }];
            fields.extend(rng.bytes(n));
            let sum = fields.iter().fold(0u8, |x, y| x.wrapping_add(*y));
            fields.push(sum.wrapping_neg());
            let mut line = vec![b':'];
            line.extend(hex(&fields).to_ascii_uppercase().into_bytes());
            line.extend_from_slice(b"\r\n");
            v.push((with_sentinel(line), "reply_of_more_than_255_data_pairs"));
        }
    }
    v.push((refs::enc(own, 4, &[0x0F]), "reply_without_crlf_at_eof"));
    v.push((with_sentinel(b":0100FF040F\r\n".to_vec()), "reply_malformed"));
    v.push((with_sentinel(b"garbage\r\n".to_vec()), "reply_malformed"));
    for (i, s) in crate::c03::MULTIBYTE.iter().enumerate().take(12) {
        // a well-formed reply with one hex digit replaced by a multi-byte sequence (a non-ASCII digit, a look-alike letter)
        let good = refs::enc_crlf(own, 4, &[0x0F]);
        let p = 1 + (i % (good.len() - 3));
        let mut l = good[..p].to_vec();
        l.extend_from_slice(s);
        l.extend_from_slice(&good[p + 1..]);
        v.push((with_sentinel(l), "reply_malformed"));
    }
    v.push((with_sentinel([refs::enc(own, 4, &[0x0F]), b"\n".to_vec()].concat()), "reply_bare_lf"));
    let mut bad = refs::enc(own, 4, &[0x0F]);
    let n = bad.len();
    bad[n - 1] ^= 1;
    v.push((with_sentinel([bad, b"\r\n".to_vec()].concat()), "reply_bad_checksum"));
    v.push((with_sentinel(b":0200FF040FEE\r\n".to_vec()), "reply_wrong_length"));
    v.push((with_sentinel(b"\r\n".to_vec()), "reply_empty_line"));
    v.push((vec![], "reply_empty_tape"));
    v
}

/// The deterministic case list (same in both tiers) plus seeded random cases.
fn cases(ctx: &Ctx, shard: usize, n_shards: usize, n_random: u64) -> Vec<Exchange> {
    let mut rng = ctx.rng("cases", shard as u64);
    let mut all: Vec<Exchange> = vec![];
    if shard == 0 {
        // every message kind x a plain state reply
        for m in messages(&mut rng, &[0, 1, 2, 15, 16, 255]) {
            all.push(plain(m.clone(), with_sentinel(refs::wire(&RefMsg::Report(3, S_UNCONF))), "every_kind"));
        }
    } else if shard == 1 {
        // every reply class for each reply-expecting kind
        for m in [RefMsg::Hello(3), RefMsg::Query(3), RefMsg::Request(3, O_RECV_PIX), RefMsg::Request(3, O_START_RESET)] {
            for (tape, label) in reply_tapes(&mut rng, 3) {
                all.push(plain(m.clone(), tape, label));
            }
            // the reply is the very frame that was sent (an echo, or a sign that repeats the request): it is the reply
            all.push(plain(m.clone(), with_sentinel(refs::wire(&m)), "reply_equals_request"));
            all.push(plain(m.clone(), with_sentinel(refs::wire(&m).to_ascii_lowercase()), "reply_equals_request"));
            all.push(plain(m.clone(), with_sentinel([refs::wire(&m), refs::wire(&m)].concat()), "reply_equals_request"));
        }
        for o in 0..N_OPS {
            let m = RefMsg::Request(0xFFFF, o);
            all.push(plain(m.clone(), with_sentinel(refs::wire(&m)), "reply_equals_request"));
        }
        // and for kinds that get no reply, whatever is waiting on the wire must stay there
        for m in [RefMsg::Goodbye(3), RefMsg::Complete(3), RefMsg::Count(7), RefMsg::Ack(3, 0), RefMsg::Report(3, 2)] {
            for (tape, _) in reply_tapes(&mut rng, 3).into_iter().take(6) {
                all.push(plain(m.clone(), tape, "no_reply_due_wire_untouched"));
            }
        }
    } else if shard == 2 {
        // a failure at every write-call index, short writes, for a replying and a non-replying kind
        for m in [RefMsg::Hello(0x00FF), RefMsg::Goodbye(0x00FF), RefMsg::Count(0x1234)] {
            let total = refs::wire(&m).len();
            for size in [1usize, 3, usize::MAX] {
                let calls = if size == usize::MAX { 1 } else { total.div_ceil(size) };
                for j in 0..=calls {
                    for act in [WriteAct::Fail(io::ErrorKind::Other), WriteAct::Fail(io::ErrorKind::TimedOut), WriteAct::Zero, WriteAct::Interrupted] {
                        let mut script = vec![WriteAct::Accept(size); j];
                        script.push(act);
                        let mut x = plain(m.clone(), with_sentinel(refs::wire(&RefMsg::Report(0xFF, S_UNCONF))), "write_fault_each_call");
                        x.write_script = script;
                        x.write_default = WriteAct::Accept(size);
                        all.push(x);
                    }
                }
            }
        }
    } else if shard == 3 {
        // a failure / interrupt / EOF at every read position, every fragmentation of the reply line
        let reply = refs::wire(&RefMsg::Report(0x0003, S_CFG_RECV));
        let tape = with_sentinel(reply.clone());
        for pos in 0..=reply.len() {
            for (fault, times) in [
                (ReadFault::Fail(io::ErrorKind::TimedOut), usize::MAX),
                (ReadFault::Fail(io::ErrorKind::Other), usize::MAX),
                (ReadFault::Interrupted, 1),
                (ReadFault::Interrupted, 3),
                (ReadFault::Eof, 1),
            ] {
                let mut x = plain(RefMsg::Query(3), tape.clone(), "read_fault_each_position");
                x.read_faults = vec![(pos, fault, times)];
                all.push(x.clone());
                x.read_boundaries = (1..tape.len()).collect();
                all.push(x);
            }
        }
        for mask in 0u32..(1 << 12) {
            let mut x = plain(RefMsg::Hello(3), tape.clone(), "read_fragmentation");
            x.read_boundaries = (1..=12).filter(|p| mask >> (p - 1) & 1 == 1).collect();
            all.push(x);
        }
    }
    // seeded random cases, spread over all shards
    for _ in 0..n_random / n_shards as u64 {
        let ms = messages(&mut rng, &[]);
        let m = if rng.chance(1, 12) {
            RefMsg::Data { offset: rng.edgy_u16(), data: rng.bytes_upto(256) }
        } else {
            ms[rng.usize(ms.len())].clone()
        };
        let own = match &m {
            RefMsg::Hello(a) | RefMsg::Query(a) | RefMsg::Request(a, _) => *a,
            _ => 3,
        };
        let mut tapes = reply_tapes(&mut rng, own);
        tapes.push((with_sentinel(refs::wire(&m)), "reply_equals_request"));
        let (tape, label) = tapes[rng.usize(tapes.len())].clone();
        let mut x = plain(m, tape, label);
        if rng.chance(1, 3) {
            let n = x.tape.len();
            x.read_boundaries = (1..n).filter(|_| rng.bool()).collect();
        }
        if rng.chance(1, 6) {
            let (hk1, hk2) = (*rng.pick(&doubles::HARD_KINDS), *rng.pick(&doubles::HARD_KINDS));
            let f = *rng.pick(&[ReadFault::Interrupted, ReadFault::Fail(hk1), ReadFault::Fail(hk2), ReadFault::Eof]);
            x.read_faults = vec![(rng.usize(x.tape.len() + 1), f, if f == ReadFault::Interrupted { 1 + rng.usize(2) } else { usize::MAX })];
            if f == ReadFault::Eof {
                x.read_faults[0].2 = 1;
            }
        }
        if rng.chance(1, 6) {
            x.write_default = WriteAct::Accept(1 + rng.usize(8));
            if rng.bool() {
                x.write_script = (0..rng.usize(6)).map(|_| WriteAct::Accept(1 + rng.usize(4))).collect();
                let hk = *rng.pick(&doubles::HARD_KINDS);
                x.write_script.push(*rng.pick(&[WriteAct::Interrupted, WriteAct::Zero, WriteAct::Fail(hk)]));
            }
        }
        all.push(x);
    }
    all
}

pub fn run(ctx: &Ctx) -> Outcome {
    let n_random = ctx.size(20_000, 200_000);
    let n_sessions = ctx.size(12_000, 1_000_000);
    let n_shards = 64usize;
    // data chunks and in-progress replies sleep 30 / 100 ms each: use more workers than cores
    let report = run_sharded_on(ctx.threads * 3, n_shards, |shard, rep| {
        for x in cases(ctx, shard, n_shards, n_random) {
            check(&x, rep);
        }
        sessions(ctx, shard, n_sessions / n_shards as u64, rep);
    });
    let mut floors = vec![];
    for k in ["Hello", "QueryState", "RequestOperation"] {
        let n = report.get(&format!("kind/{}/reply_due", k));
        floors.push(floor(&format!("{} exercised (reply due)", k), n > 0, n));
    }
    for k in ["SendData", "DataChunksSent", "Goodbye", "PixelsComplete", "AckOperation", "ReportState", "Unknown"] {
        let n = report.get(&format!("kind/{}/no_reply", k));
        floors.push(floor(&format!("{} exercised (no reply due)", k), n > 0, n));
    }
    for c in ["reply_class/ReportState", "reply_class/AckOperation", "reply_class/Unknown", "reply_class/SendData", "reply_class/undecodable_malformed", "reply_class/undecodable_checksum", "reply_class/undecodable_length", "reply_class/empty_line_or_eof"] {
        floors.push(floor(&format!("{} observed", c), report.get(c) > 0, report.get(c)));
    }
    floors.push(floor("write failures hit", report.get("write_failures_injected_and_hit") > 0, report.get("write_failures_injected_and_hit")));
    floors.push(floor("read failures hit", report.get("read_failures_injected_and_hit") > 0, report.get("read_failures_injected_and_hit")));
    floors.push(floor("sessions that go on after a reply was cut short (read error / end of stream mid-session)", report.get("session_read_faults_hit") > 500, report.get("session_read_faults_hit")));
    floors.push(floor("a failing read right after each kind of reply (15 reply kinds x 3 next requests x 3 positions x 4 failures)", report.get("sessions_failing_read_after_each_reply_kind") == 15 * 3 * 3 * 4, report.get("sessions_failing_read_after_each_reply_kind")));
    floors.push(floor("two ordinary exchanges after exactly k failing ones (14 counts x 5 kinds of failure)", report.get("sessions_after_k_failures") == 70, report.get("sessions_after_k_failures")));
    floors.push(floor("replies of 523 bytes that take more than 12 s to arrive, no read failing", report.get("replies_trickling_in_over_seconds") == 2 && report.maxs.get("slowest_reply_seconds").copied().unwrap_or(0.0) > 12.0, format!("{} replies, slowest {:.1} s", report.get("replies_trickling_in_over_seconds"), report.maxs.get("slowest_reply_seconds").copied().unwrap_or(0.0))));
    floors.push(floor("300 data chunks in a row through one bus, then a query", report.get("sessions_of_300_consecutive_data_chunks") == 1, report.get("sessions_of_300_consecutive_data_chunks")));
    floors.push(floor("a flip in progress polled, then a poll whose reply arrives damaged (6 kinds of damage); damaged replies in random sessions", report.get("damaged_reply_to_a_poll_of_a_flip_in_progress") == 24 && report.get("session_replies_damaged_on_the_line") > 100, format!("{} / {}", report.get("damaged_reply_to_a_poll_of_a_flip_in_progress"), report.get("session_replies_damaged_on_the_line"))));
    floors.push(floor("the same damaged reply line three times in a row after a valid report", report.get("the_same_damaged_reply_several_times_in_a_row") == 15, report.get("the_same_damaged_reply_several_times_in_a_row")));
    floors.push(floor("near-twin messages (no data / 00 / one byte / more; neighbouring type or address) back to back through one bus, every ordered pair", report.get("sessions_of_near_twin_messages") == 4 * 12 * 11, report.get("sessions_of_near_twin_messages")));
    floors.push(floor("data chunks followed by chunk counts of 0 / 1 / k / 65535 through one bus", report.get("sessions_with_chunks_and_counts") == 16, report.get("sessions_with_chunks_and_counts")));
    floors.push(floor("one bus instance used for 70 000 messages", report.get("long_session_messages_checked") == 70_000, report.get("long_session_messages_checked")));
    floors.push(floor("multi-message sessions on one bus (write failure at every call index + random)", report.get("session_core_done") == 1 && report.get("sessions") > 1000 && report.get("session_write_failures_hit") > 100, report.get("sessions")));
    floors.push(floor("fault-at-every-index case lists ran", report.get("cases/write_fault_each_call") > 50 && report.get("cases/read_fault_each_position") > 100 && report.get("cases/read_fragmentation") == 4096, report.get("cases/read_fault_each_position")));
    let sizes: Vec<J> = {
        let mut v: Vec<u64> = report.sets.get("read_request_sizes").map(|s| s.iter().copied().collect()).unwrap_or_default();
        v.sort_unstable();
        v.into_iter().map(|x| J::Int(x as i128)).collect()
    };
    Outcome {
        report,
        level: "fault_enumeration",
        rule: "every message kind (addresses/offsets/counts across the range, all states and operations, data chunks of lengths 0,1,2,15,16,255, Unknown frames that look like a hello on the wire) through a real SerialSignBus on an instrumented port; every reply class (state/ack for own and foreign address, unknown and data frames, lower case, CRLF-less at EOF, malformed, bare LF, bad checksum, wrong length, empty line, empty tape); a failure at EVERY write-call index and EVERY read position, all 4096 fragmentations of the reply's first 12 bytes; plus seeded random combinations; plus SESSIONS of 2-5 messages through one bus instance with write faults at every call index (each message judged on its own slice of the event log); a sentinel follows every reply; distinct by (message, tape, scripts) hash; all non-trivial".into(),
        exhaustive: false,
        floors,
        assumptions: vec![
            "oracle: reference codec + code table (refs.rs) and trace predicates over the port's event log".into(),
            "the reply-due rule is decided by the message kind (hello, state query, operation request), not by its bytes".into(),
        ],
        extra: vec![("read_request_sizes_seen".into(), J::Arr(sizes))],
    }
}
