//! Running the real controller (`flipdot::Sign`) against harness buses: shared by C08, C09, C10, C11, C17.

use std::cell::RefCell;
use std::rc::Rc;

use flipdot::{Address, Page, PageFlipStyle, Sign, SignBus, SignError};
use flipdot_core::Message;

use crate::doubles::bus_error;
use crate::refctl::{Op, Outcome, RefCtl, Reply, Step};
use crate::refs::{self, *};
use crate::util::{catch, short_loc};

/// Result of one controller call, reduced to comparable data.
#[derive(Clone, Debug, PartialEq, Eq)]
pub enum SignOut {
    Ok,
    OkStyle { automatic: bool },
    Protocol { expected: String, actual: String },
    Bus(String),
    Panic(String),
}

impl SignOut {
    pub fn outcome(&self) -> Option<Outcome> {
        Some(match self {
            SignOut::Ok => Outcome::Ok,
            SignOut::OkStyle { automatic } => Outcome::OkStyle { automatic: *automatic },
            SignOut::Protocol { .. } => Outcome::Protocol,
            SignOut::Bus(_) => Outcome::Bus,
            SignOut::Panic(_) => return None,
        })
    }
    pub fn is_ok(&self) -> bool {
        matches!(self, SignOut::Ok | SignOut::OkStyle { .. })
    }
    pub fn show(&self) -> String {
        match self {
            SignOut::Ok => "Ok".into(),
            SignOut::OkStyle { automatic } => format!("Ok({})", if *automatic { "Automatic" } else { "Manual" }),
            SignOut::Protocol { expected, actual } => format!("UnexpectedResponse(expected {}, got {})", expected, actual),
            SignOut::Bus(e) => format!("Bus({})", e),
            SignOut::Panic(p) => format!("PANIC({})", p),
        }
    }
}

fn unit(r: Result<(), SignError>) -> SignOut {
    match r {
        Ok(()) => SignOut::Ok,
        Err(e) => err(e),
    }
}

fn err(e: SignError) -> SignOut {
    // the standard error chain must lead to the same place as the variant's field: the bus's error for `Bus`, nothing for
    // a protocol error
    let via_trait = std::error::Error::source(&e).map(|s| s.to_string());
    match &e {
        SignError::Bus { source } if via_trait.as_deref() != Some(&source.to_string()) => {
            return SignOut::Bus(format!("Error::source() gives {:?}, the bus failed with \"{}\"", via_trait, source));
        }
        SignError::UnexpectedResponse { .. } if via_trait.is_some() => {
            return SignOut::Bus(format!("a protocol error whose Error::source() is {:?}", via_trait));
        }
        _ => {}
    }
    match e {
        SignError::Bus { source } => SignOut::Bus(crate::doubles::describe_bus_error(source.as_ref())),
        SignError::UnexpectedResponse { expected, actual } => SignOut::Protocol { expected, actual },
        other => SignOut::Bus(format!("unmatched SignError variant: {:?}", other)),
    }
}

/// Runs one controller operation under catch_unwind.
pub fn run_op(sign: &Sign, op: &Op, pages: &[Page<'static>]) -> SignOut {
    let r = catch(|| match op {
        Op::Configure => unit(sign.configure()),
        Op::ConfigureIfNeeded => unit(sign.configure_if_needed()),
        Op::SendPages => match sign.send_pages(pages) {
            Ok(PageFlipStyle::Automatic) => SignOut::OkStyle { automatic: true },
            Ok(PageFlipStyle::Manual) => SignOut::OkStyle { automatic: false },
            Err(e) => err(e),
        },
        Op::Show => unit(sign.show_loaded_page()),
        Op::LoadNext => unit(sign.load_next_page()),
        Op::ShutDown => unit(sign.shut_down()),
    });
    match r {
        Ok(o) => o,
        Err(p) => SignOut::Panic(format!("{} at {}", p.msg, short_loc(&p.loc))),
    }
}

/// `send_pages` with a page list that is pulled lazily, `look` being called every time a page is pulled (the application
/// watches the sign, or drives something else, between pages).
pub fn send_pages_lazily(sign: &Sign, pages: &[Page<'static>], look: &dyn Fn()) -> SignOut {
    let r = catch(std::panic::AssertUnwindSafe(|| match sign.send_pages(pages.iter().inspect(|_| look())) {
        Ok(PageFlipStyle::Automatic) => SignOut::OkStyle { automatic: true },
        Ok(PageFlipStyle::Manual) => SignOut::OkStyle { automatic: false },
        Err(e) => err(e),
    }));
    match r {
        Ok(o) => o,
        Err(p) => SignOut::Panic(format!("{} at {}", p.msg, short_loc(&p.loc))),
    }
}

pub fn mk_sign<B: SignBus + 'static>(bus: Rc<RefCell<B>>, addr: u16, ty: usize) -> Sign {
    Sign::new(bus, Address(addr), TYPES[ty].ty)
}

pub fn page_from_image(w: u32, h: u32, image: Vec<u8>) -> Page<'static> {
    Page::from_bytes(w, h, image).expect("image has the padded length")
}

// ------------------------------------------------------------------------------------------------
// Adversarial scripted bus with the reference machine in lockstep

pub const N_SYMBOLS: usize = 46;
/// index of the "echo" symbol: the bus answers with the very message it was given
pub const SYM_ECHO: u16 = 44;

/// The 44-symbol reply alphabet for a controller at `own`, with `foreign` as the other address.
pub fn alphabet(own: u16, foreign: u16) -> Vec<Reply> {
    let mut v = vec![];
    for a in [own, foreign] {
        for s in 0..N_STATES {
            v.push(Reply::Msg(Some(RefMsg::Report(a, s))));
        }
    }
    for a in [own, foreign] {
        for o in 0..N_OPS {
            v.push(Reply::Msg(Some(RefMsg::Ack(a, o))));
        }
    }
    v.push(Reply::Msg(None));
    v.push(Reply::Msg(Some(RefMsg::Goodbye(own))));
    v.push(Reply::Msg(Some(RefMsg::Hello(own))));
    v.push(Reply::Msg(Some(RefMsg::Unknown { addr: own, ty: 0x42, data: vec![0x07] })));
    v.push(Reply::Msg(Some(RefMsg::Data { offset: 0, data: vec![0x0F; 16] })));
    v.push(Reply::BusError);
    // 44: echo (placeholder; the scripted bus substitutes the message just sent); 45: a frame of the state-report type
    // whose state byte is not a documented state (it is an unknown frame, not "busy" and not "received")
    v.push(Reply::Msg(None));
    v.push(Reply::Msg(Some(RefMsg::Unknown { addr: own, ty: 0x04, data: vec![0x17] })));
    assert_eq!(v.len(), N_SYMBOLS);
    v
}

pub struct ScriptBus {
    pub alphabet: Vec<Reply>,
    /// choice per reply position; extended with `pick(depth)` when the controller asks beyond its end
    pub script: Vec<u16>,
    pub pick: Box<dyn FnMut(usize, &'static str) -> u16>,
    /// after this many messages the bus only errors (bounds polling loops and runaway controllers)
    pub max_messages: usize,
    pub forced_errors: usize,
    pub log: Vec<(RefMsg, Reply)>,
    /// symbol index offered at each position (u16::MAX = forced error)
    pub offered: Vec<u16>,
    pub model: Option<RefCtl>,
    pub expect: Option<Step>,
    /// model position name at each reply (for the coverage matrix)
    pub positions: Vec<&'static str>,
    pub divergence: Option<(usize, String)>,
    pub stop_at_divergence: bool,
    /// which kind of error object a bus error is (see doubles::bus_error)
    pub error_flavour: u8,
    /// a bus that does work of its own while it handles a message — it drives ANOTHER sign, through another controller
    /// object on another bus, on the caller's thread (a relay, a gateway, a simulator that mirrors to real hardware)
    pub relay: Option<Box<dyn FnMut(usize)>>,
    pub relayed: usize,
    /// the reply at this depth, if it is a state report or an acknowledgement, is delivered as `Message::Unknown` around
    /// that message's own frame (a bus that hands frames up undecoded): to the controller it is an unknown frame, whatever
    /// it would decode to
    pub wrap_at: Option<usize>,
    pub wrapped: usize,
}

impl ScriptBus {
    pub fn new(alphabet: Vec<Reply>, script: Vec<u16>, max_messages: usize) -> ScriptBus {
        ScriptBus {
            alphabet,
            script,
            pick: Box::new(|_, _| 0),
            max_messages,
            forced_errors: 0,
            log: vec![],
            offered: vec![],
            model: None,
            expect: None,
            positions: vec![],
            divergence: None,
            stop_at_divergence: false,
            error_flavour: 0,
            relay: None,
            relayed: 0,
            wrap_at: None,
            wrapped: 0,
        }
    }
}

impl SignBus for ScriptBus {
    fn process_message<'a>(&mut self, message: Message<'_>) -> Result<Option<Message<'a>>, Box<dyn std::error::Error + Send + Sync>> {
        let got = refs::to_ref(&message);
        let depth = self.log.len();
        if let Some(r) = &mut self.relay {
            r(depth);
            self.relayed += 1;
        }
        if self.model.is_some() && self.divergence.is_none() {
            match &self.expect {
                Some(Step::Emit(e)) if *e == got => {}
                Some(Step::Emit(e)) => self.divergence = Some((depth, format!("emitted {} where the protocol prescribes {}", got.show(), e.show()))),
                Some(Step::Done(o)) => self.divergence = Some((depth, format!("emitted {} although the protocol had finished with {:?}", got.show(), o))),
                None => {}
            }
            if self.divergence.is_some() && self.stop_at_divergence {
                // the conversation has left the protocol: end it (bus error from here on) instead of exploring the
                // reply tree of a controller that is no longer following any script we can compare against
                self.max_messages = depth;
            }
        }
        let (reply, sym) = if depth >= self.max_messages {
            self.forced_errors += 1;
            (Reply::BusError, u16::MAX)
        } else {
            if depth >= self.script.len() {
                let pos = self.model.as_ref().map(|m| m.pos_name()).unwrap_or("");
                let c = (self.pick)(depth, pos);
                self.script.push(c);
            }
            let c = self.script[depth];
            if c == SYM_ECHO { (Reply::Msg(Some(got.clone())), c) } else { (self.alphabet[c as usize].clone(), c) }
        };
        let reply = match (&reply, self.wrap_at) {
            (Reply::Msg(Some(m @ (RefMsg::Report(..) | RefMsg::Ack(..)))), Some(d)) if d == depth => {
                let (addr, ty, data) = refs::build(m);
                self.wrapped += 1;
                Reply::Msg(Some(RefMsg::Unknown { addr, ty, data }))
            }
            _ => reply,
        };
        self.offered.push(sym);
        if let Some(m) = &mut self.model {
            self.positions.push(m.pos_name());
            if self.divergence.is_none() {
                self.expect = Some(m.on_reply(&reply));
            }
        }
        self.log.push((got, reply.clone()));
        match reply {
            Reply::BusError => Err(bus_error(self.error_flavour)),
            Reply::Msg(None) => Ok(None),
            Reply::Msg(Some(m)) => Ok(Some(refs::from_ref(&m))),
        }
    }
}

pub struct Conversation {
    pub op: Op,
    pub own: u16,
    pub log: Vec<(RefMsg, Reply)>,
    pub offered: Vec<u16>,
    pub positions: Vec<&'static str>,
    pub out: SignOut,
    pub script: Vec<u16>,
    pub forced_errors: usize,
    /// lockstep verdict: first divergence between the real controller and the reference machine
    pub divergence: Option<(usize, String)>,
    pub expected_outcome: Option<Outcome>,
    /// what the same `Sign` object did before this call ("operation -> result"), oldest first
    pub prior_calls: Vec<String>,
    /// the kind of error object the scripted bus fails with in this conversation
    pub error_flavour: u8,
}

impl Conversation {
    pub fn show(&self) -> String {
        let prior = if self.prior_calls.is_empty() { String::new() } else { format!("(same Sign object earlier: {}) ", self.prior_calls.join("; ")) };
        let mut s: Vec<String> = self.log.iter().map(|(m, r)| format!("{}=>{}", m.show(), r.show())).collect();
        if s.len() > 30 {
            let n = s.len();
            s.truncate(30);
            s.push(format!("(+{} more)", n - 30));
        }
        format!("{}{}", prior, s.join("  "))
    }
}

/// One real `Sign` object on one scripted bus, used for several calls in a row. The controller is specified call by
/// call (nothing an earlier call saw may stand in for a reply in a later one), so every call gets a fresh reference
/// machine while the `Sign` — and whatever it might remember — stays the same.
pub struct Session {
    pub own: u16,
    pub foreign: u16,
    pub ty: usize,
    bus: Rc<RefCell<ScriptBus>>,
    sign: Sign,
    /// controller objects come and go on a bus: a second one for this address was made and dropped again before the
    /// session's own, and one for the foreign address lives as long as the session does
    _stranger: Sign,
    pub history: Vec<String>,
}

impl Session {
    /// Drops the `Sign` and returns whatever it sent to the bus on its way out (nothing, for a controller that only
    /// talks when asked to).
    pub fn finish(self) -> Vec<RefMsg> {
        let Session { bus, sign, _stranger, .. } = self;
        drop(_stranger);
        {
            let mut b = bus.borrow_mut();
            b.log.clear();
            b.model = None;
            b.max_messages = usize::MAX;
        }
        let _ = catch(std::panic::AssertUnwindSafe(move || drop(sign)));
        let b = bus.borrow();
        b.log.iter().map(|(m, _)| m.clone()).collect()
    }

    /// From now on the scripted bus drives another sign of its own (configure, two pages, a page flip, in turn — one
    /// whole controller call per message it handles) while it handles each message of this session's controller.
    pub fn with_relay(self) -> Session {
        use flipdot_testing::{VirtualSign, VirtualSignBus};
        let inner_bus = Rc::new(RefCell::new(VirtualSignBus::new(vec![VirtualSign::new(Address(0x0055), flipdot::PageFlipStyle::Manual)])));
        let inner = Sign::new(inner_bus, Address(0x0055), TYPES[5].ty);
        let page = inner.create_page(flipdot::PageId(1));
        self.bus.borrow_mut().relay = Some(Box::new(move |k| {
            match k % 3 {
                0 => drop(inner.configure()),
                1 => drop(inner.send_pages(&[page.clone(), page.clone()])),
                _ => drop(inner.show_loaded_page()),
            };
        }));
        self
    }

    /// See `ScriptBus::wrap_at`.
    pub fn with_wrapped_reply_at(self, depth: usize) -> Session {
        self.bus.borrow_mut().wrap_at = Some(depth);
        self
    }

    pub fn wrapped_replies(&self) -> usize {
        self.bus.borrow().wrapped
    }

    pub fn with_error_flavour(self, flavour: u8) -> Session {
        self.bus.borrow_mut().error_flavour = flavour;
        self
    }

    pub fn new(own: u16, foreign: u16, ty: usize) -> Session {
        let bus = Rc::new(RefCell::new(ScriptBus::new(alphabet(own, foreign), vec![], 0)));
        let sign = mk_sign(bus.clone(), own, ty);
        let twin = mk_sign(bus.clone(), own, ty);
        drop(twin);
        let _stranger = mk_sign(bus.clone(), foreign, (ty + 1) % TYPES.len());
        Session { own, foreign, ty, bus, sign, _stranger, history: vec![] }
    }

    /// `pick(depth, position)` chooses the reply symbol beyond the end of `script`.
    pub fn call(&mut self, op: &Op, pages: &[Page<'static>], script: Vec<u16>, max_messages: usize, pick: Box<dyn FnMut(usize, &'static str) -> u16>, stop_at_divergence: bool) -> Conversation {
        let images: Vec<Vec<u8>> = pages.iter().map(|p| p.as_bytes().to_vec()).collect();
        let block = TYPES[self.ty].ty.to_bytes().to_vec();
        let mut model = RefCtl::new(op.clone(), self.own, &block, &images);
        {
            let mut b = self.bus.borrow_mut();
            b.script = script;
            b.max_messages = max_messages;
            b.forced_errors = 0;
            b.log.clear();
            b.offered.clear();
            b.positions.clear();
            b.divergence = None;
            b.expect = Some(model.start());
            b.model = Some(model);
            b.pick = pick;
            b.stop_at_divergence = stop_at_divergence;
        }
        let prior_calls = self.history.clone();
        let out = run_op(&self.sign, op, pages);
        self.history.push(format!("{} -> {}", op.name(), out.show()));
        if self.history.len() > 6 {
            // a long-lived object: remember how many calls there were and what the last few did
            let n = self.history.len() - 5;
            let earlier = self.history[0].strip_prefix("(+").and_then(|r| r.split(' ').next()).and_then(|k| k.parse::<usize>().ok()).unwrap_or(0);
            let dropped = if earlier > 0 { earlier + n - 1 } else { n };
            self.history.drain(..n);
            self.history.insert(0, format!("(+{} earlier calls)", dropped));
        }
        let mut b = self.bus.borrow_mut();
        let mut divergence = b.divergence.take();
        let mut expected_outcome = None;
        if divergence.is_none() {
            match &b.expect {
                Some(Step::Done(o)) => {
                    expected_outcome = Some(o.clone());
                    match out.outcome() {
                        Some(got) if got == *o => {}
                        Some(got) => divergence = Some((b.log.len(), format!("finished with {:?} where the protocol prescribes {:?}", got, o))),
                        None => divergence = Some((b.log.len(), format!("panicked: {}", out.show()))),
                    }
                }
                Some(Step::Emit(e)) => divergence = Some((b.log.len(), format!("stopped with {} while the protocol prescribes sending {}", out.show(), e.show()))),
                None => {}
            }
        }
        Conversation {
            op: op.clone(),
            own: self.own,
            log: std::mem::take(&mut b.log),
            offered: std::mem::take(&mut b.offered),
            positions: std::mem::take(&mut b.positions),
            out,
            script: std::mem::take(&mut b.script),
            forced_errors: b.forced_errors,
            divergence,
            expected_outcome,
            prior_calls,
            error_flavour: b.error_flavour,
        }
    }
}

/// Runs `op` on a fresh real `Sign` talking to a `ScriptBus`; the reference machine runs inside the bus.
pub fn converse(op: &Op, own: u16, foreign: u16, ty: usize, pages: &[Page<'static>], script: Vec<u16>, max_messages: usize, mut pick: Box<dyn FnMut(usize) -> u16>, stop_at_divergence: bool) -> Conversation {
    Session::new(own, foreign, ty).call(op, pages, script, max_messages, Box::new(move |d, _| pick(d)), stop_at_divergence)
}
