//! C05 — every specific message survives the trip through its wire frame; encodings are injective.

use std::collections::HashMap;

use flipdot_core::{Data, Frame, Message, Offset};

use crate::refs::{self, RefMsg};
use crate::util::{Ctx, J, Outcome, Report, catch, floor, fnv, hex, run_sharded, short_loc, show_bytes};

const MON: &str = "message_wire_roundtrip";

/// message -> frame -> bytes -> frame -> message, both terminator variants. Returns the wire bytes (no CRLF).
pub fn check_message(m: &RefMsg, rep: &mut Report) -> Option<Vec<u8>> {
    let sig = m.show();
    rep.case(Some(fnv(sig.as_bytes())));
    rep.count(match m {
        RefMsg::Data { .. } => "kind/SendData",
        RefMsg::Count(_) => "kind/DataChunksSent",
        RefMsg::Hello(_) => "kind/Hello",
        RefMsg::Query(_) => "kind/QueryState",
        RefMsg::Goodbye(_) => "kind/Goodbye",
        RefMsg::Request(..) => "kind/RequestOperation",
        RefMsg::Ack(..) => "kind/AckOperation",
        RefMsg::Report(..) => "kind/ReportState",
        RefMsg::Complete(_) => "kind/PixelsComplete",
        RefMsg::Unknown { .. } => "kind/Unknown",
    });
    if let RefMsg::Data { data, .. } = m {
        rep.seen("data_lengths", data.len() as u64);
    }
    let r = catch(|| {
        let mut bad: Vec<(&'static str, String, String)> = vec![];
        let msg = refs::from_ref(m);
        let frame = Frame::from(msg.clone());
        let wire = frame.to_bytes();
        let wire_nl = frame.to_bytes_with_newline();
        // cross-check against the reference wire form (would also be caught by C01/C04, cheap to keep)
        let (a, t, d) = refs::build(m);
        if wire != refs::enc(a, t, &d) {
            bad.push(("wire_form", show_bytes(&refs::enc(a, t, &d)), show_bytes(&wire)));
        }
        // the same chunk with its data BORROWED from the caller's memory, starting 0..7 bytes past an 8-aligned address
        // (the controller sends slices of a page): the same message, the same wire form
        if let RefMsg::Data { offset, data } = m {
            let lead = (usize::from(*offset >> 2) ^ data.len()) % 8;
            let mut room = vec![0xEEu64; data.len() / 8 + 3];
            let room_bytes: &mut [u8] = unsafe { std::slice::from_raw_parts_mut(room.as_mut_ptr().cast::<u8>(), room.len() * 8) };
            room_bytes[lead..lead + data.len()].copy_from_slice(data);
            let bm = Message::SendData(Offset(*offset), Data::try_new(&room_bytes[lead..lead + data.len()]).expect("<=255"));
            if bm != msg {
                bad.push(("borrowed_chunk_differs", sig.clone(), format!("{:?}", bm)));
            }
            let bw = Frame::from(bm).to_bytes_with_newline();
            if bw != refs::enc_crlf(a, t, &d) {
                bad.push(("wire_form", show_bytes(&refs::enc_crlf(a, t, &d)), format!("{} (data borrowed at +{})", show_bytes(&bw), lead)));
            }
        }
        // a message object that held a NEAR TWIN (same kind, same data / state / operation, another address, offset or
        // count) is refilled with clone_from: it is this message now, in every field and on the wire
        {
            let twin = match m {
                RefMsg::Data { offset, data } => RefMsg::Data { offset: offset.wrapping_add(16), data: data.clone() },
                RefMsg::Count(c) => RefMsg::Count(c.wrapping_add(1)),
                RefMsg::Hello(a) => RefMsg::Hello(a ^ 0x0100),
                RefMsg::Query(a) => RefMsg::Query(a ^ 0x0100),
                RefMsg::Goodbye(a) => RefMsg::Goodbye(a ^ 0x0100),
                RefMsg::Complete(a) => RefMsg::Complete(a ^ 0x0100),
                RefMsg::Request(a, o) => RefMsg::Request(a ^ 0x0100, *o),
                RefMsg::Ack(a, o) => RefMsg::Ack(a ^ 0x0100, *o),
                RefMsg::Report(a, st) => RefMsg::Report(a ^ 0x0100, *st),
                RefMsg::Unknown { addr, ty, data } => RefMsg::Unknown { addr: addr ^ 0x0100, ty: *ty, data: data.clone() },
            };
            let mut scratch = refs::from_ref(&twin);
            scratch.clone_from(&msg);
            if scratch != msg || refs::to_ref(&scratch) != *m {
                bad.push(("refilled_message_differs", sig.clone(), format!("{} (clone_from onto {})", refs::to_ref(&scratch).show(), twin.show())));
            }
            let sw = Frame::from(scratch).to_bytes();
            if sw != wire {
                bad.push(("refilled_message_differs", show_bytes(&wire), format!("{} on the wire (clone_from onto {})", show_bytes(&sw), twin.show())));
            }
        }
        for (label, w) in [("plain", &wire), ("crlf", &wire_nl)] {
            match Frame::from_bytes(w) {
                Ok(f) => {
                    let back = Message::from(f);
                    if back != msg {
                        bad.push(("roundtrip_differs", sig.clone(), format!("{} ({})", refs::to_ref(&back).show(), label)));
                    } else if refs::to_ref(&back) != *m {
                        bad.push(("roundtrip_fields_differ", sig.clone(), format!("{} ({})", refs::to_ref(&back).show(), label)));
                    }
                }
                Err(e) => bad.push(("own_encoding_rejected", "Ok".into(), format!("{:?} ({})", e, label))),
            }
        }
        // "comes back EQUAL" only means something if equality is the equality of kind and fields: a copy is equal and
        // hashes alike; a message that differs in one field, or in kind, is a different message (checked on a sample:
        // equality is cheap, but there are millions of messages)
        if fnv(sig.as_bytes()) % 16 == 0 {
            use std::hash::{Hash, Hasher};
            let h = |x: &Message<'_>| {
                let mut s = std::collections::hash_map::DefaultHasher::new();
                x.hash(&mut s);
                s.finish()
            };
            let copy = msg.clone();
            if copy != msg || h(&copy) != h(&msg) {
                bad.push(("clone_or_hash_differs", sig.clone(), format!("{:?}", copy)));
            }
            for other in neighbours(m) {
                let o = refs::from_ref(&other);
                if o == msg || msg == o {
                    bad.push(("different_messages_compare_equal", format!("{} != {}", sig, other.show()), "equal".into()));
                }
            }
        }
        (bad, wire)
    });
    let det = |exp: &str, obs: &str| J::obj(vec![("message", J::s(sig.clone())), ("expected", J::s(exp)), ("observed", J::s(obs))]);
    let out = match r {
        Ok((bad, wire)) => {
            for (cls, exp, obs) in bad {
                rep.violation(MON, cls, &sig, format!("message {}: {}: expected {} observed {}", sig, cls, exp, obs), det(&exp, &obs));
            }
            Some(wire)
        }
        Err(p) => {
            rep.violation(MON, "panic", &sig, format!("message {}: panic {} at {}", sig, p.msg, short_loc(&p.loc)), det("no panic", &p.msg));
            None
        }
    };
    if rep.wants_sample() {
        rep.sample(|| J::obj(vec![("message", J::s(sig.clone())), ("wire", J::s(out.as_deref().map(show_bytes).unwrap_or_default()))]));
    }
    out
}

/// Messages that differ from `m` in exactly one respect (address / offset, operation, state, one data byte, data length,
/// kind under the same address).
fn neighbours(m: &RefMsg) -> Vec<RefMsg> {
    let bump = |a: u16| [a.wrapping_add(1), a ^ 0x8000, a ^ 0x0100, a.rotate_left(8) ^ 1];
    let mut v = vec![];
    match m {
        RefMsg::Hello(a) => v.extend(bump(*a).into_iter().map(RefMsg::Hello).chain([RefMsg::Query(*a), RefMsg::Goodbye(*a), RefMsg::Complete(*a), RefMsg::Count(*a)])),
        RefMsg::Query(a) => v.extend(bump(*a).into_iter().map(RefMsg::Query).chain([RefMsg::Hello(*a), RefMsg::Goodbye(*a)])),
        RefMsg::Goodbye(a) => v.extend(bump(*a).into_iter().map(RefMsg::Goodbye).chain([RefMsg::Hello(*a), RefMsg::Complete(*a)])),
        RefMsg::Complete(a) => v.extend(bump(*a).into_iter().map(RefMsg::Complete).chain([RefMsg::Hello(*a), RefMsg::Goodbye(*a)])),
        RefMsg::Count(n) => v.extend(bump(*n).into_iter().map(RefMsg::Count).chain([RefMsg::Hello(*n), RefMsg::Data { offset: *n, data: vec![] }])),
        RefMsg::Request(a, o) => {
            v.extend(bump(*a).into_iter().map(|x| RefMsg::Request(x, *o)));
            v.extend((0..refs::N_OPS).filter(|x| x != o).map(|x| RefMsg::Request(*a, x)));
            v.push(RefMsg::Ack(*a, *o));
        }
        RefMsg::Ack(a, o) => {
            v.extend(bump(*a).into_iter().map(|x| RefMsg::Ack(x, *o)));
            v.extend((0..refs::N_OPS).filter(|x| x != o).map(|x| RefMsg::Ack(*a, x)));
            v.push(RefMsg::Request(*a, *o));
        }
        RefMsg::Report(a, s) => {
            v.extend(bump(*a).into_iter().map(|x| RefMsg::Report(x, *s)));
            v.extend((0..refs::N_STATES).filter(|x| x != s).map(|x| RefMsg::Report(*a, x)));
        }
        RefMsg::Data { offset, data } => {
            v.extend(bump(*offset).into_iter().map(|x| RefMsg::Data { offset: x, data: data.clone() }));
            if data.len() < 255 {
                let mut d = data.clone();
                d.push(0);
                v.push(RefMsg::Data { offset: *offset, data: d });
            }
            if !data.is_empty() {
                v.push(RefMsg::Data { offset: *offset, data: data[..data.len() - 1].to_vec() });
                for k in [0, data.len() / 2, data.len() - 1] {
                    let mut d = data.clone();
                    d[k] ^= 0x01;
                    v.push(RefMsg::Data { offset: *offset, data: d.clone() });
                    d[k] ^= 0x81;
                    v.push(RefMsg::Data { offset: *offset, data: d });
                }
            } else {
                v.push(RefMsg::Count(*offset));
            }
        }
        RefMsg::Unknown { .. } => {}
    }
    v
}

/// Injectivity: remembers (hash of wire bytes) -> message; a second, different message with the same bytes is a violation.
struct Injective {
    seen: HashMap<Vec<u8>, String>,
}

impl Injective {
    fn note(&mut self, wire: Option<Vec<u8>>, m: &RefMsg, rep: &mut Report) {
        let Some(w) = wire else { return };
        if self.seen.len() >= 400_000 {
            return;
        }
        let show = m.show();
        if let Some(prev) = self.seen.get(&w) {
            if *prev != show {
                rep.violation(
                    "wire_injective",
                    "two_messages_one_encoding",
                    &format!("{}|{}", prev, show),
                    format!("messages {} and {} share the wire encoding [{}]", prev, show, show_bytes(&w)),
                    J::obj(vec![("message_a", J::s(prev.clone())), ("message_b", J::s(show)), ("wire", J::hex(&w))]),
                );
            }
        } else {
            self.seen.insert(w, show);
            rep.count("injectivity_entries");
        }
    }
}

fn fixed_messages(addr: u16) -> Vec<RefMsg> {
    let mut v = vec![RefMsg::Hello(addr), RefMsg::Query(addr), RefMsg::Goodbye(addr), RefMsg::Complete(addr), RefMsg::Count(addr)];
    for o in 0..refs::N_OPS {
        v.push(RefMsg::Request(addr, o));
        v.push(RefMsg::Ack(addr, o));
    }
    for s in 0..refs::N_STATES {
        v.push(RefMsg::Report(addr, s));
    }
    v
}

pub fn run(ctx: &Ctx) -> Outcome {
    let n_random = ctx.size(2_000_000, 100_000_000);
    let rand_shards = 32usize;
    let mut report = run_sharded(ctx, 256 + 1 + rand_shards, |shard, rep| {
        let mut inj = Injective { seen: HashMap::new() };
        if shard < 256 {
            let hi = (shard as u16) << 8;
            for lo in 0..256u16 {
                let addr = hi | lo;
                let all = fixed_messages(addr);
                // quick: every address for one code per kind (+ count), the rest on a stride; thorough: all 30 codes
                for (i, m) in all.iter().enumerate() {
                    let is_first_of_kind = matches!(i, 0..=4) || i == 5 || i == 6 || i == 17;
                    // (every code at every address in both tiers: 2 million messages cost two seconds)
                    let _ = is_first_of_kind;
                    {
                        let w = check_message(m, rep);
                        inj.note(w, m, rep);
                    }
                }
            }
            rep.add("addresses_swept", 256);
        } else if shard == 256 {
            // data chunks: every length x 5 offsets x 4 fills; all messages of one address into one injectivity map
            let mut rng = ctx.rng("data", 0);
            for m in fixed_messages(0x0010) {
                let w = check_message(&m, rep);
                inj.note(w, &m, rep);
            }
            for len in 0..=255usize {
                for offset in [0u16, 16, 0xFFF0, 0xFFFF, rng.u16()] {
                    for fill in 0..4 {
                        let data = match fill {
                            0 => vec![0u8; len],
                            1 => vec![0xFFu8; len],
                            2 => (0..len).map(|i| i as u8).collect(),
                            _ => rng.bytes(len),
                        };
                        let m = RefMsg::Data { offset, data };
                        let w = check_message(&m, rep);
                        inj.note(w, &m, rep);
                    }
                }
            }
            // one-byte data chunks whose byte equals a protocol code, at addresses used by addressed messages:
            // the encodings most likely to collide with a fixed code
            for b in 0..=255u8 {
                for offset in [0u16, 0x0010] {
                    let m = RefMsg::Data { offset, data: vec![b] };
                    let w = check_message(&m, rep);
                    inj.note(w, &m, rep);
                }
            }
            let m = RefMsg::Data { offset: 0x0010, data: vec![] };
            let w = check_message(&m, rep);
            inj.note(w, &m, rep);
            // chunks that carry a configuration block (exact, and with one byte changed): still just chunks
            for block in refs::BLOCKS.iter() {
                for offset in [0u16, 16, 0xFFF0] {
                    for i in 0..=16usize {
                        let mut data = block.to_vec();
                        if i < 16 {
                            data[i] = data[i].wrapping_add(1);
                        }
                        let m = RefMsg::Data { offset, data };
                        let w = check_message(&m, rep);
                        inj.note(w, &m, rep);
                    }
                }
            }
            // the longest chunks filled with one extreme value under an offset made of the same value: the largest byte
            // sums there are, unsigned (FF) and signed (80 = -128, 7F = +127)
            for len in 250..=255usize {
                for fill in [0xFFu8, 0x80, 0x7F, 0x81, 0xFE, 0x01] {
                    for offset in [u16::from(fill) << 8 | u16::from(fill), u16::from(fill) << 8 | 1, u16::from(fill) << 8, 0] {
                        for last in [fill, fill.wrapping_add(1), 0] {
                            let mut data = vec![fill; len];
                            data[len - 1] = last;
                            let m = RefMsg::Data { offset, data };
                            let w = check_message(&m, rep);
                            inj.note(w, &m, rep);
                            rep.count("extreme_byte_sum_chunks");
                        }
                    }
                }
            }
            // chunks whose bytes are themselves the text of a well-formed frame line (with and without CR LF; a log of the bus
            // shown on a sign, a bridge's tunnel): data is data
            for inner in fixed_messages(0x0011).into_iter().chain([RefMsg::Data { offset: 0x0010, data: vec![1, 2, 3] }, RefMsg::Data { offset: 0, data: (0..100).collect() }]) {
                let (a, t, d) = refs::build(&inner);
                for line in [refs::enc(a, t, &d), refs::enc_crlf(a, t, &d), refs::enc(a, t, &d).to_ascii_lowercase()] {
                    if line.len() <= 255 {
                        for offset in [0u16, 0x0010, a] {
                            let m = RefMsg::Data { offset, data: line.clone() };
                            let w = check_message(&m, rep);
                            inj.note(w, &m, rep);
                            rep.count("chunks_that_spell_a_frame");
                        }
                    }
                }
            }
            for (k, d) in refs::sparse_data().into_iter().enumerate() {
                let m = RefMsg::Data { offset: [0x0000u16, 0x0010, 0xFFF0][k % 3], data: d };
                let w = check_message(&m, rep);
                inj.note(w, &m, rep);
                rep.count("sparse_chunks");
            }
            for (a, _, d) in refs::coincidence_frames() {
                let m = RefMsg::Data { offset: a, data: d };
                let w = check_message(&m, rep);
                inj.note(w, &m, rep);
                rep.count("coincidence_chunks");
            }
            rep.count("data_sweep_done");
        } else {
            let mut rng = ctx.rng("random", (shard - 257) as u64);
            for _ in 0..n_random / rand_shards as u64 {
                let addr = rng.edgy_u16();
                let m = match rng.below(12) {
                    0 => RefMsg::Hello(addr),
                    1 => RefMsg::Query(addr),
                    2 => RefMsg::Goodbye(addr),
                    3 => RefMsg::Complete(addr),
                    4 => RefMsg::Count(addr),
                    5 => RefMsg::Request(addr, rng.usize(refs::N_OPS)),
                    6 => RefMsg::Ack(addr, rng.usize(refs::N_OPS)),
                    7 => RefMsg::Report(addr, rng.usize(refs::N_STATES)),
                    _ => {
                        let len = match rng.below(5) {
                            0 => rng.usize(3),
                            1 => 16,
                            _ => rng.usize(256),
                        };
                        RefMsg::Data { offset: addr, data: rng.bytes(len) }
                    }
                };
                let w = check_message(&m, rep);
                inj.note(w, &m, rep);
            }
        }
    });
    {
        // the same calls from a thread-local destructor while a thread exits (see exitprobe.rs)
        let mut at_exit = Report::new();
        crate::exitprobe::check("message", MON, &mut at_exit);
        crate::exitprobe::check_migration("codec", MON, &mut at_exit);
        report.merge(at_exit);
    }

    let mut floors = vec![
        floor("all 65536 addresses swept", report.get("addresses_swept") == 65_536, report.get("addresses_swept")),
        floor("chunks whose fields coincide (offset bytes and every data byte one value; checksum equal to another field)", report.get("coincidence_chunks") == 2240, report.get("coincidence_chunks")),
        floor("chunks that are all 00 / all FF but for one byte, at every position of every length 1..=40 and 248..=255", report.get("sparse_chunks") > 5_000, report.get("sparse_chunks")),
        floor("chunks whose bytes are the text of a well-formed frame line", report.get("chunks_that_spell_a_frame") > 250, report.get("chunks_that_spell_a_frame")),
        floor("data-chunk sweep done", report.get("data_sweep_done") == 1, report.get("data_sweep_done")),
        floor("longest chunks of FF / 80 / 7F under offsets of the same value (largest unsigned and signed byte sums)", report.get("extreme_byte_sum_chunks") == 6 * 6 * 4 * 3, report.get("extreme_byte_sum_chunks")),
        floor("every data length 0..=255 observed", report.set_len("data_lengths") == 256, report.set_len("data_lengths")),
        floor("injectivity map populated", report.get("injectivity_entries") > 10_000, report.get("injectivity_entries")),
    ];
    for k in ["SendData", "DataChunksSent", "Hello", "QueryState", "Goodbye", "RequestOperation", "AckOperation", "ReportState", "PixelsComplete"] {
        let n = report.get(&format!("kind/{}", k));
        floors.push(floor(&format!("kind {} observed", k), n > 0, n));
    }
    Outcome {
        report,
        level: "exploration",
        rule: "every specific message kind x state/operation x address (quick: all 65536 addresses for one code per kind, stride 251 for the rest; thorough: all addresses for all 30 codes), all 65536 chunk counts, data chunks of every length 0..=255 x 5 offsets x 4 fills, one-byte chunks of every value, plus seeded random messages; distinct by the message's canonical text; every message is non-trivial".into(),
        exhaustive: false,
        floors,
        assumptions: vec![
            "oracle: Message equality after message->frame->bytes->frame->message, plus a per-worker map wire bytes -> message for injectivity".into(),
            "Message::Unknown is outside the property and not generated".into(),
        ],
        extra: vec![],
    }
}

pub fn replay(d: &J, rep: &mut Report) -> bool {
    let Some(m) = d.get("message").and_then(|x| x.as_str()).and_then(RefMsg::parse) else {
        return false;
    };
    check_message(&m, rep);
    true
}

#[allow(dead_code)]
fn _unused(_: &[u8]) -> String {
    hex(&[])
}
