//! 3.4 Sign-side reference machine (Appendix B of DESIGN.md), written from the documentation of `State`,
//! `Operation` and `VirtualSign`. Shares no code with libs/testing.

use crate::refs::*;

#[derive(Clone, Debug, PartialEq, Eq, Hash)]
pub struct RefSign {
    pub addr: u16,
    pub auto: bool,
    pub st: usize,
    pub dims: (u32, u32),
    pub ty: Option<usize>,
    pub pages: Vec<(u32, u32, Vec<u8>)>,
    pub pending: Vec<u8>,
    pub chunks: u16,
}

/// What an observer can see of a sign through its public accessors.
#[derive(Clone, Debug, PartialEq, Eq, Hash)]
pub struct Obs {
    pub st: usize,
    pub ty: Option<usize>,
    pub pages: Vec<(u32, u32, Vec<u8>)>,
}

impl Obs {
    pub fn show(&self) -> String {
        format!(
            "state={} type={} pages=[{}]",
            st_name(self.st),
            self.ty.map(|t| TYPES[t].name).unwrap_or("None"),
            self.pages.iter().map(|(w, h, b)| format!("{}x{}:{}B:id{}", w, h, b.len(), b.first().copied().unwrap_or(0))).collect::<Vec<_>>().join(",")
        )
    }
}

const RECV_PIXELS_LEGAL: [usize; 7] = [S_CFG_RECV, S_PIX_FAIL, S_LOADED, S_LOAD_PROG, S_SHOWN, S_SHOW_PROG, S_SHOWING];

impl RefSign {
    pub fn new(addr: u16, auto: bool) -> RefSign {
        RefSign {
            addr,
            auto,
            st: S_UNCONF,
            dims: (0, 0),
            ty: None,
            pages: vec![],
            pending: vec![],
            chunks: 0,
        }
    }

    pub fn obs(&self) -> Obs {
        Obs {
            st: self.st,
            ty: self.ty,
            pages: self.pages.clone(),
        }
    }

    pub fn receiving(&self) -> bool {
        self.st == S_CFG_PROG || self.st == S_PIX_PROG
    }

    fn blank(&mut self) {
        self.st = S_UNCONF;
        self.dims = (0, 0);
        self.ty = None;
        self.pages.clear();
        self.pending.clear();
        self.chunks = 0;
    }

    fn flush(&mut self) {
        if self.pending.is_empty() {
            return;
        }
        let buf = std::mem::take(&mut self.pending);
        let (w, h) = self.dims;
        if w > 0 && h > 0 && buf.len() == padded_len(w, h) {
            self.pages.push((w, h, buf));
        }
    }

    /// Is `op` legal (i.e. acknowledged) in the current state?
    pub fn legal(&self, op: usize) -> bool {
        match op {
            O_RECV_CFG => self.st == S_UNCONF || self.st == S_CFG_FAIL,
            O_RECV_PIX => RECV_PIXELS_LEGAL.contains(&self.st),
            O_SHOW => self.st == S_LOADED,
            O_LOAD_NEXT => self.st == S_SHOWN,
            O_START_RESET => true,
            O_FINISH_RESET => self.st == S_READY_RESET,
            _ => false,
        }
    }

    pub fn step(&mut self, m: &RefMsg) -> Option<RefMsg> {
        match m {
            RefMsg::Hello(a) | RefMsg::Query(a) if *a == self.addr => {
                let reported = self.st;
                if self.st == S_LOAD_PROG {
                    self.st = S_LOADED;
                } else if self.st == S_SHOW_PROG {
                    self.st = S_SHOWN;
                }
                Some(RefMsg::Report(self.addr, reported))
            }
            RefMsg::Request(a, op) if *a == self.addr => {
                if !self.legal(*op) {
                    return None;
                }
                match *op {
                    O_RECV_CFG => self.st = S_CFG_PROG,
                    O_RECV_PIX => {
                        self.st = S_PIX_PROG;
                        self.pages.clear();
                    }
                    O_SHOW => self.st = S_SHOW_PROG,
                    O_LOAD_NEXT => self.st = S_LOAD_PROG,
                    O_START_RESET => self.st = S_READY_RESET,
                    O_FINISH_RESET => self.blank(),
                    _ => return None,
                }
                Some(RefMsg::Ack(self.addr, *op))
            }
            RefMsg::Data { offset, data } => {
                if self.st == S_CFG_PROG {
                    if *offset == 0 && data.len() == 16 {
                        if let Some(d) = block_dims(data) {
                            self.dims = d;
                            self.ty = lookup_type(data[0], data[1]);
                            self.chunks = self.chunks.wrapping_add(1);
                        }
                    }
                } else if self.st == S_PIX_PROG {
                    if *offset == 0 {
                        self.flush();
                    }
                    self.pending.extend_from_slice(data);
                    self.chunks = self.chunks.wrapping_add(1);
                }
                None
            }
            RefMsg::Count(n) => {
                if self.st == S_CFG_PROG {
                    self.st = if *n == self.chunks { S_CFG_RECV } else { S_CFG_FAIL };
                    self.flush();
                    self.chunks = 0;
                } else if self.st == S_PIX_PROG {
                    self.st = if *n == self.chunks { S_PIX_RECV } else { S_PIX_FAIL };
                    self.flush();
                    self.chunks = 0;
                }
                None
            }
            RefMsg::Complete(a) if *a == self.addr => {
                if self.st == S_PIX_RECV {
                    self.st = if self.auto { S_SHOWING } else { S_LOADED };
                }
                None
            }
            RefMsg::Goodbye(a) if *a == self.addr => {
                self.blank();
                None
            }
            _ => None,
        }
    }
}
