//! C10 — the controller follows the documented protocol for every possible sign reply (lockstep with refctl).
//! C11 — no unconfirmed success, fail-stop, bounded retries, own address only (model-free trace invariants).
//! Both run on the same exhaustively enumerated conversations; each reports only its own monitor.

use flipdot::{Page, PageId};

use crate::ctl::{self, Conversation, N_SYMBOLS};
use crate::refctl::{Op, Reply};
use crate::refs::*;
use crate::util::{Ctx, J, Outcome, Report, Rng, floor, fnv, run_sharded};

const OPS_ALL: [Op; 6] = [Op::Configure, Op::ConfigureIfNeeded, Op::SendPages, Op::Show, Op::LoadNext, Op::ShutDown];

fn op_index(op: &Op) -> u64 {
    OPS_ALL.iter().position(|o| o == op).unwrap() as u64
}

fn conv_json(c: &Conversation, ty: usize, pages: usize) -> J {
    J::obj(vec![
        ("operation", J::s(c.op.name())),
        ("sign_type", J::s(TYPES[ty].name)),
        ("address", J::u(c.own)),
        ("pages", J::us(pages)),
        ("script", J::Arr(c.script.iter().map(|s| J::u(*s)).collect())),
        ("conversation", J::Arr(c.log.iter().map(|(m, r)| J::s(format!("{} => {}", m.show(), r.show()))).collect())),
        ("result", J::s(c.out.show())),
    ])
}

fn sig(c: &Conversation, ty: usize) -> String {
    format!("{}|{}|{:04X}|{}", c.op.name(), TYPES[ty].name, c.own, c.log.iter().map(|(m, r)| format!("{}>{}", m.show(), r.show())).collect::<Vec<_>>().join(";"))
}

// ------------------------------------------------------------------------------------------------
// C11: invariants over one conversation, none of which consult the reference machine

fn is_report(r: &Reply, a: u16, st: &[usize]) -> bool {
    matches!(r, Reply::Msg(Some(RefMsg::Report(x, s))) if *x == a && st.contains(s))
}

fn foreign_report(r: &Reply, own: u16) -> Option<usize> {
    match r {
        Reply::Msg(Some(RefMsg::Report(x, s))) if *x != own => Some(*s),
        _ => None,
    }
}

const READY: [usize; 6] = [S_CFG_RECV, S_SHOWING, S_LOADED, S_SHOW_PROG, S_SHOWN, S_LOAD_PROG];

pub fn invariants(c: &Conversation, rep: &mut Report) -> Vec<(&'static str, String)> {
    let own = c.own;
    let log = &c.log;
    let n = log.len();
    let mut bad: Vec<(&'static str, String)> = vec![];
    let class = c.out.outcome().map(|o| o.class()).unwrap_or("panic");

    // I4: every addressed message emitted carries the controller's own address
    for (i, (m, _)) in log.iter().enumerate() {
        let a = match m {
            RefMsg::Hello(a) | RefMsg::Query(a) | RefMsg::Goodbye(a) | RefMsg::Complete(a) | RefMsg::Request(a, _) | RefMsg::Ack(a, _) | RefMsg::Report(a, _) => Some(*a),
            _ => None,
        };
        if let Some(a) = a {
            rep.count("I4_addressed_messages_seen");
            if a != own {
                bad.push(("I4_foreign_address_emitted", format!("message #{} {} carries {:04X}, the controller is {:04X}", i, m.show(), a, own)));
            }
        }
    }

    // I2: fail-stop
    let mut fatal: Option<(usize, &'static str)> = None;
    for (i, (m, r)) in log.iter().enumerate() {
        let f = if *r == Reply::BusError {
            Some("bus_error")
        } else {
            match m {
                RefMsg::Data { .. } | RefMsg::Count(_) | RefMsg::Complete(_) | RefMsg::Goodbye(_) if *r != Reply::Msg(None) => Some("protocol_error"),
                RefMsg::Request(a, o) if *r != Reply::Msg(Some(RefMsg::Ack(*a, *o))) => Some("protocol_error"),
                _ => None,
            }
        };
        if let Some(f) = f {
            fatal = Some((i, f));
            break;
        }
    }
    if let Some((i, want)) = fatal {
        rep.count(if want == "bus_error" { "I2_bus_errors_seen" } else { "I2_disallowed_replies_seen" });
        if n != i + 1 {
            bad.push(("I2_sent_after_fatal_reply", format!("reply #{} ({} => {}) ends the call, yet {} more message(s) were sent, next: {}", i, log[i].0.show(), log[i].1.show(), n - i - 1, log[i + 1].0.show())));
        }
        if class != want {
            bad.push(("I2_wrong_outcome_after_fatal_reply", format!("reply #{} ({} => {}) must give a {}, the call returned {}", i, log[i].0.show(), log[i].1.show(), want, c.out.show())));
        }
    }

    // I3: at most three transfer attempts, each retry right after the matching 'failed' report
    let reqs: Vec<usize> = log.iter().enumerate().filter(|(_, (m, _))| matches!(m, RefMsg::Request(_, o) if *o == O_RECV_CFG || *o == O_RECV_PIX)).map(|(i, _)| i).collect();
    for opx in [O_RECV_CFG, O_RECV_PIX] {
        let these: Vec<usize> = reqs.iter().copied().filter(|i| matches!(log[*i].0, RefMsg::Request(_, o) if o == opx)).collect();
        if these.len() > 3 {
            bad.push(("I3_more_than_three_attempts", format!("{} {} requests in one call", these.len(), op_name(opx))));
        }
        if these.len() == 3 {
            rep.count("I3_conversations_with_three_attempts");
        }
        for &i in these.iter().skip(1) {
            rep.count("I3_retries_seen");
            let failed = if opx == O_RECV_CFG { S_CFG_FAIL } else { S_PIX_FAIL };
            let ok = i >= 1 && matches!(log[i - 1].0, RefMsg::Query(a) if a == own) && is_report(&log[i - 1].1, own, &[failed]);
            if !ok {
                bad.push(("I3_retry_without_failed_report", format!("retry at message #{} is not preceded by the sign's own {} report (previous: {} => {})", i, st_name(failed), log[i - 1].0.show(), log[i - 1].1.show())));
            }
        }
    }

    // I1: success only after the sign's own 'received' report concluded the last attempt
    if c.out.is_ok() && matches!(c.op, Op::Configure | Op::SendPages | Op::ConfigureIfNeeded) {
        let last_count = log.iter().rposition(|(m, _)| matches!(m, RefMsg::Count(_)));
        match last_count {
            Some(i) => {
                rep.count("I1_successful_transfers_seen");
                let last_req = log[..i].iter().rposition(|(m, _)| matches!(m, RefMsg::Request(_, o) if *o == O_RECV_CFG || *o == O_RECV_PIX));
                let received = match last_req.map(|j| &log[j].0) {
                    Some(RefMsg::Request(_, o)) if *o == O_RECV_CFG => S_CFG_RECV,
                    _ => S_PIX_RECV,
                };
                let ok = i + 1 < n && matches!(log[i + 1].0, RefMsg::Query(a) if a == own) && is_report(&log[i + 1].1, own, &[received]);
                if !ok {
                    bad.push(("I1_unconfirmed_success", format!("returned {} but the result query after the last chunk count was answered {}", c.out.show(), log.get(i + 1).map(|x| x.1.show()).unwrap_or_else(|| "(never asked)".into()))));
                }
            }
            None => {
                if c.op == Op::ConfigureIfNeeded {
                    rep.count("I1_if_needed_skips_seen");
                    if !(n == 1 && is_report(&log[0].1, own, &READY)) {
                        bad.push(("I1_unconfirmed_success", format!("configure_if_needed returned Ok without transferring anything although the sign did not report a ready state itself: {}", c.show())));
                    }
                } else {
                    bad.push(("I1_unconfirmed_success", format!("returned {} without any transfer", c.out.show())));
                }
            }
        }
    }

    // I5: a reply from another address is never treated as the controller's own sign's reply
    // (a) result query answered from a foreign address: no success, no retry, nothing more
    for i in 0..n.saturating_sub(1) {
        if matches!(log[i].0, RefMsg::Count(_)) && matches!(log[i + 1].0, RefMsg::Query(_)) {
            if let Some(s) = foreign_report(&log[i + 1].1, own) {
                rep.count("I5_foreign_reply_at_result_query");
                if n != i + 2 || c.out.is_ok() {
                    bad.push(("I5_foreign_result_report_honoured", format!("result query answered by another address ({}) yet the call went on / succeeded: {}", st_name(s), c.out.show())));
                }
            }
        }
    }
    // (b) reset dance / readiness probe
    let dance_start = match c.op {
        Op::Configure => Some(0),
        Op::ConfigureIfNeeded if n >= 2 => Some(1),
        _ => None,
    };
    if c.op == Op::ConfigureIfNeeded && n >= 1 {
        if let Some(s) = foreign_report(&log[0].1, own) {
            if READY.contains(&s) {
                rep.count("I5_foreign_ready_state_at_probe");
                if n < 2 || log[1].0 != RefMsg::Hello(own) {
                    bad.push(("I5_foreign_ready_report_trusted", format!("another address reported {} and configure_if_needed skipped the configuration", st_name(s))));
                }
            }
        }
    }
    if let Some(d) = dance_start {
        if d < n && log[d].0 == RefMsg::Hello(own) {
            if let Some(s) = foreign_report(&log[d].1, own) {
                if s == S_UNCONF || s == S_READY_RESET {
                    rep.count("I5_foreign_reply_at_reset_probe");
                    if d + 1 >= n || log[d + 1].0 != RefMsg::Request(own, O_START_RESET) {
                        bad.push(("I5_foreign_state_skipped_reset", format!("another address reported {} and the controller did not start its own reset (next: {})", st_name(s), log.get(d + 1).map(|x| x.0.show()).unwrap_or_else(|| "nothing".into()))));
                    }
                }
            }
        }
        // later hellos of the dance: a foreign report must end the call with a protocol error
        for i in d + 1..n {
            if log[i].0 == RefMsg::Hello(own) && foreign_report(&log[i].1, own).is_some() {
                rep.count("I5_foreign_reply_in_reset_dance");
                if n != i + 1 || class != "protocol_error" {
                    bad.push(("I5_foreign_state_accepted_in_reset", format!("hello #{} was answered by another address, yet the call went on / did not fail: {}", i, c.out.show())));
                }
            }
        }
    }
    // I6: fail-stop inside the reset handshake. After an acknowledged StartReset the next hello must be answered by the
    // sign's own ReadyToReset, after an acknowledged FinishReset by its own Unconfigured; anything else is a reply the
    // protocol does not allow at that point: the call must end there with a protocol (or bus) error.
    for i in 0..n.saturating_sub(1) {
        let want = match (&log[i].0, &log[i].1) {
            (RefMsg::Request(a, o), Reply::Msg(Some(RefMsg::Ack(b, p)))) if a == b && o == p && *a == own && *o == O_START_RESET => S_READY_RESET,
            (RefMsg::Request(a, o), Reply::Msg(Some(RefMsg::Ack(b, p)))) if a == b && o == p && *a == own && *o == O_FINISH_RESET => S_UNCONF,
            _ => continue,
        };
        if log[i + 1].0 != RefMsg::Hello(own) {
            continue;
        }
        rep.count("I6_hello_after_reset_step_seen");
        if !is_report(&log[i + 1].1, own, &[want]) {
            rep.count("I6_out_of_sequence_state_after_reset_step");
            let want_class = if log[i + 1].1 == Reply::BusError { "bus_error" } else { "protocol_error" };
            if n != i + 2 || class != want_class {
                bad.push(("I6_reset_handshake_not_fail_stop", format!("after the acknowledged {} the hello was answered {} instead of the sign's own {}, yet the call went on / returned {}", log[i].0.show(), log[i + 1].1.show(), st_name(want), c.out.show())));
            }
        }
    }
    // (c) page switching
    if matches!(c.op, Op::Show | Op::LoadNext) {
        for i in 0..n {
            if matches!(log[i].0, RefMsg::Query(_)) && foreign_report(&log[i].1, own).is_some() {
                rep.count("I5_foreign_reply_in_page_switch");
                if n != i + 1 || class != "protocol_error" {
                    bad.push(("I5_foreign_state_honoured_in_switch", format!("query #{} was answered by another address, yet the call went on / did not fail: {}", i, c.out.show())));
                }
            }
        }
    }
    // (d) flip-style query
    if c.op == Op::SendPages {
        if let Some(i) = log.iter().position(|(m, _)| matches!(m, RefMsg::Complete(_))) {
            if i + 1 < n && foreign_report(&log[i + 1].1, own) == Some(S_SHOWING) {
                rep.count("I5_foreign_showing_pages_at_flip_query");
                if c.out != (ctl::SignOut::OkStyle { automatic: false }) {
                    bad.push(("I5_foreign_flip_style_honoured", format!("another address reported ShowingPages and send_pages returned {}", c.out.show())));
                }
            }
        }
    }
    bad
}

// ------------------------------------------------------------------------------------------------

#[derive(Clone)]
struct Setup {
    ty: usize,
    own: u16,
    foreign: u16,
}

fn mk_pages(ty: usize, n: usize, rng: &mut Rng) -> Vec<Page<'static>> {
    (0..n)
        .map(|i| {
            let mut p = Page::new(PageId(i as u8 + 1), TYPES[ty].w, TYPES[ty].h);
            for _ in 0..20 {
                p.set_pixel(rng.below(u64::from(TYPES[ty].w)) as u32, rng.below(u64::from(TYPES[ty].h)) as u32, true);
            }
            p
        })
        .collect()
}

/// Feeds one finished conversation to the monitors.
fn monitor(c: &Conversation, ty: usize, n_pages: usize, invariants_mode: bool, rep: &mut Report) {
    rep.case(Some(fnv(sig(c, ty).as_bytes())));
    rep.seen("op_x_outcome", op_index(&c.op) * 4 + match c.out.outcome().map(|o| o.class()) { Some("ok") => 0, Some("protocol_error") => 1, Some("bus_error") => 2, _ => 3 });
    for (i, s) in c.offered.iter().enumerate() {
        if *s != u16::MAX {
            if let Some(p) = c.positions.get(i) {
                rep.seen("position_x_symbol", fnv(p.as_bytes()) % 1_000_003 * 64 + u64::from(*s));
                rep.seen("positions", fnv(p.as_bytes()));
            }
        }
    }
    rep.max("longest_conversation", c.log.len() as f64);
    rep.add("messages_observed", c.log.len() as u64);
    if let ctl::SignOut::Panic(p) = &c.out {
        let mon = if invariants_mode { "trace_invariants" } else { "lockstep_refctl" };
        rep.violation(mon, "panic", &sig(c, ty), format!("{} panicked: {} after [{}]", c.op.name(), p, c.show()), conv_json(c, ty, n_pages));
        return;
    }
    if invariants_mode {
        for (class, what) in invariants(c, rep) {
            rep.violation("trace_invariants", class, &sig(c, ty), format!("{} ({} @{:04X}): {} — conversation [{}] returned {}", c.op.name(), TYPES[ty].name, c.own, what, c.show(), c.out.show()), conv_json(c, ty, n_pages));
        }
    } else if let Some((at, what)) = &c.divergence {
        let mut d = conv_json(c, ty, n_pages);
        if let J::Obj(v) = &mut d {
            v.push(("divergence_at_message".into(), J::us(*at)));
            v.push(("observed".into(), J::s(what.clone())));
        }
        rep.violation("lockstep_refctl", "protocol_divergence", &sig(c, ty), format!("{} ({} @{:04X}) at message #{}: {} — conversation so far [{}]", c.op.name(), TYPES[ty].name, c.own, at, what, c.show()), d);
    }
    if rep.wants_sample() {
        rep.sample(|| conv_json(c, ty, n_pages));
    }
}

/// Depth-first enumeration of every reply script whose first symbol is `first`.
fn dfs(setup: &Setup, op: &Op, pages: &[Page<'static>], first: u16, poll_bound: usize, invariants_mode: bool, rep: &mut Report) -> bool {
    // generous cap on conversation length: every protocol conversation is shorter than this
    let chunk_msgs: usize = pages.iter().map(|p| p.as_bytes().len().div_ceil(16)).sum::<usize>() + 1;
    let max_messages = match op {
        Op::Show | Op::LoadNext => poll_bound,
        _ => 12 + 3 * (chunk_msgs + 4) + 4,
    };
    // no subtree of the unchanged controller comes near this; a controller that no longer stops where the protocol
    // says so can make the reply tree explode, and then the run is already a violation
    const CONVERSATION_BUDGET: u64 = 400_000;
    let mut conversations = 0u64;
    let mut script = vec![first];
    loop {
        // C10 ends a conversation where it leaves the protocol (the divergence is the verdict); C11 must not lean on the
        // reference machine, so it lets the conversation run and relies on the conversation budget below
        let c = ctl::converse(op, setup.own, setup.foreign, setup.ty, pages, script.clone(), max_messages, Box::new(|_| 0), !invariants_mode);
        monitor(&c, setup.ty, pages.len(), invariants_mode, rep);
        conversations += 1;
        if conversations > CONVERSATION_BUDGET {
            rep.count("dfs_subtrees_cut_by_budget");
            return false;
        }
        if c.forced_errors > 0 && c.divergence.is_none() {
            rep.count("conversations_cut_by_bound");
            if !matches!(op, Op::Show | Op::LoadNext) {
                let mon = if invariants_mode { "trace_invariants" } else { "lockstep_refctl" };
                rep.violation(mon, "runaway_conversation", &sig(&c, setup.ty), format!("{} sent more than {} messages — longer than any protocol conversation", op.name(), max_messages), conv_json(&c, setup.ty, pages.len()));
            }
        }
        // odometer: next script in depth-first order
        let used = c.offered.iter().filter(|s| **s != u16::MAX).count();
        script = c.script;
        script.truncate(used);
        loop {
            match script.pop() {
                None => {
                    rep.max("largest_dfs_subtree_conversations", conversations as f64);
                    return true;
                }
                Some(last) => {
                    if script.is_empty() {
                        rep.max("largest_dfs_subtree_conversations", conversations as f64);
                        return true; // the first symbol belongs to this shard
                    }
                    if (last as usize) + 1 < N_SYMBOLS {
                        script.push(last + 1);
                        break;
                    }
                }
            }
        }
    }
}

fn random_conversation(ctx: &Ctx, rng: &mut Rng, invariants_mode: bool, rep: &mut Report) {
    let ty = rng.usize(TYPES.len());
    let own = rng.edgy_u16();
    let foreign = loop {
        let f = match rng.below(3) {
            0 => own ^ 1,
            1 => own ^ 0x8000,
            _ => rng.u16(),
        };
        if f != own {
            break f;
        }
    };
    let op = OPS_ALL[rng.usize(6)].clone();
    let pages = if op == Op::SendPages { mk_pages(ty, rng.usize(3), rng) } else { vec![] };
    let seed = rng.next();
    let mut pr = Rng::new(seed);
    // random scripts biased towards replies that keep the conversation going
    let good: Vec<u16> = vec![S_UNCONF as u16, S_READY_RESET as u16, S_CFG_RECV as u16, S_CFG_FAIL as u16, S_PIX_RECV as u16, S_PIX_FAIL as u16, S_LOADED as u16, S_SHOWN as u16, S_LOAD_PROG as u16, S_SHOW_PROG as u16, S_SHOWING as u16, 26, 27, 28, 29, 30, 31, 38];
    let pick = Box::new(move |_d: usize| if pr.chance(4, 5) { *pr.pick(&good) } else { pr.below(N_SYMBOLS as u64) as u16 });
    let c = ctl::converse(&op, own, foreign, ty, &pages, vec![], 400, pick, false);
    let _ = ctx;
    monitor(&c, ty, pages.len(), invariants_mode, rep);
    rep.count("random_conversations");
}

pub fn run(ctx: &Ctx, invariants_mode: bool) -> Outcome {
    let setups: Vec<Setup> = if ctx.quick() {
        vec![
            Setup { ty: 5, own: 3, foreign: 2 },
            Setup { ty: 5, own: 0xFFFF, foreign: 0x7FFF },
            Setup { ty: 8, own: 3, foreign: 0x8003 },
            Setup { ty: 2, own: 0x80, foreign: 0x81 },
            Setup { ty: 3, own: 0, foreign: 1 },
            Setup { ty: 8, own: 0x80, foreign: 0x8080 },
        ]
    } else {
        let mut v = vec![];
        for ty in 0..TYPES.len() {
            for (i, own) in [0u16, 3, 0x80, 0xFFFF].into_iter().enumerate() {
                v.push(Setup { ty, own, foreign: if (ty + i) % 2 == 0 { own ^ 1 } else { own ^ 0x8000 } });
            }
        }
        v
    };
    let poll_bound = if ctx.quick() { 6 } else { 8 };
    // jobs: (setup, op, pages, first symbol)
    struct Job {
        setup: usize,
        op: Op,
        n_pages: usize,
        first: u16,
    }
    let mut jobs = vec![];
    for (si, s) in setups.iter().enumerate() {
        for op in OPS_ALL.iter() {
            let page_counts: Vec<usize> = if *op == Op::SendPages {
                // long transfers make long scripts; the large types get one page, the 3-chunk type also 0 and 2
                if TYPES[s.ty].w * TYPES[s.ty].h <= 300 { vec![0, 1, 2] } else { vec![1] }
            } else {
                vec![0]
            };
            for np in page_counts {
                for first in 0..N_SYMBOLS as u16 {
                    jobs.push(Job { setup: si, op: op.clone(), n_pages: np, first });
                }
            }
        }
    }
    let n_random = if invariants_mode { ctx.size(100_000, 10_000_000) } else { ctx.size(20_000, 1_000_000) };
    let rand_shards = 32usize;
    let nj = jobs.len();
    let report = run_sharded(ctx, nj + rand_shards, |shard, rep| {
        if shard < nj {
            let j = &jobs[shard];
            let s = &setups[j.setup];
            let mut rng = ctx.rng("pages", (j.setup * 16 + j.n_pages) as u64);
            let pages = mk_pages(s.ty, j.n_pages, &mut rng);
            if dfs(s, &j.op, &pages, j.first, poll_bound, invariants_mode, rep) {
                rep.count("dfs_subtrees_completed");
            }
        } else {
            let mut rng = ctx.rng("random", (shard - nj) as u64);
            for _ in 0..n_random / rand_shards as u64 {
                random_conversation(ctx, &mut rng, invariants_mode, rep);
            }
        }
    });

    let n_positions = report.set_len("positions");
    let cells = report.set_len("position_x_symbol");
    let mut floors = vec![
        floor("every DFS subtree enumerated to its end", report.get("dfs_subtrees_completed") == nj as u64, report.get("dfs_subtrees_completed")),
        floor("every reply symbol offered at every protocol position", n_positions >= 16 && cells == n_positions * N_SYMBOLS as u64, format!("{} cells over {} positions", cells, n_positions)),
        floor("ok / protocol error / bus error observed for every operation", (0..6u64).all(|o| (0..3u64).all(|k| report.sets.get("op_x_outcome").map(|s| s.contains(&(o * 4 + k))).unwrap_or(false))), report.set_len("op_x_outcome")),
    ];
    if invariants_mode {
        for k in [
            "I1_successful_transfers_seen",
            "I1_if_needed_skips_seen",
            "I2_bus_errors_seen",
            "I2_disallowed_replies_seen",
            "I3_retries_seen",
            "I3_conversations_with_three_attempts",
            "I4_addressed_messages_seen",
            "I5_foreign_reply_at_result_query",
            "I5_foreign_ready_state_at_probe",
            "I5_foreign_reply_at_reset_probe",
            "I5_foreign_reply_in_reset_dance",
            "I5_foreign_reply_in_page_switch",
            "I5_foreign_showing_pages_at_flip_query",
            "I6_out_of_sequence_state_after_reset_step",
        ] {
            floors.push(floor(&format!("antecedent observed: {}", k), report.get(k) > 0, report.get(k)));
        }
    }
    Outcome {
        report,
        level: "fault_enumeration",
        rule: format!(
            "EVERY reply script over the 44-symbol alphabet (13 states x own/foreign address, 6 acks x own/foreign, none, goodbye, hello, unknown frame, data chunk, bus error), enumerated depth-first to the natural end of configure, configure_if_needed, send_pages (0/1/2 pages), show_loaded_page, load_next_page (polling bounded at {} replies) and shut_down, for {} (sign type, address) setups; plus seeded random scripts with random types/addresses; distinct by (operation, type, address, conversation) hash; all non-trivial. {}",
            poll_bound,
            setups.len(),
            if invariants_mode { "Monitor: trace invariants I1-I5 (no reference conversation consulted)." } else { "Monitor: reference protocol machine in lockstep inside the bus." }
        ),
        exhaustive: false,
        floors,
        assumptions: vec![
            if invariants_mode { "oracle: invariants I1-I5 over the recorded (message, reply) log and the returned value".into() } else { "oracle: refctl (harness/src/refctl.rs, Appendix C of DESIGN.md), a flat protocol-position machine sharing no code with sign.rs".into() },
            "the enumeration is exhaustive for the listed setups and the polling bound; other types/addresses are sampled".into(),
        ],
        extra: vec![("setups".into(), J::us(setups.len())), ("polling_bound".into(), J::us(poll_bound))],
    }
}
