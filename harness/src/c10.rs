//! C10 — the controller follows the documented protocol for every possible sign reply (lockstep with refctl).
//! C11 — no unconfirmed success, fail-stop, bounded retries, own address only (model-free trace invariants).
//! Both run on the same exhaustively enumerated conversations; each reports only its own monitor.

use flipdot::{Page, PageId};

use crate::ctl::{self, Conversation, N_SYMBOLS, Session};
use crate::refctl::{Op, Reply};
use crate::refs::*;
use crate::util::{Ctx, J, Outcome, Report, Rng, floor, fnv, run_sharded};

const OPS_ALL: [Op; 6] = [Op::Configure, Op::ConfigureIfNeeded, Op::SendPages, Op::Show, Op::LoadNext, Op::ShutDown];

fn op_index(op: &Op) -> u64 {
    OPS_ALL.iter().position(|o| o == op).unwrap() as u64
}

fn conv_json(c: &Conversation, ty: usize, pages: usize) -> J {
    J::obj(vec![
        ("operation", J::s(c.op.name())),
        ("sign_type", J::s(TYPES[ty].name)),
        ("address", J::u(c.own)),
        ("pages", J::us(pages)),
        ("script", J::Arr(c.script.iter().map(|s| J::u(*s)).collect())),
        ("conversation", J::Arr(c.log.iter().map(|(m, r)| J::s(format!("{} => {}", m.show(), r.show()))).collect())),
        ("result", J::s(c.out.show())),
        ("earlier_calls_on_the_same_sign_object", J::Arr(c.prior_calls.iter().map(|p| J::s(p.clone())).collect())),
    ])
}

fn sig(c: &Conversation, ty: usize) -> String {
    format!("{}|{}|{:04X}|{}|{}", c.op.name(), TYPES[ty].name, c.own, c.prior_calls.join("+"), c.log.iter().map(|(m, r)| format!("{}>{}", m.show(), r.show())).collect::<Vec<_>>().join(";"))
}

// ------------------------------------------------------------------------------------------------
// C11: invariants over one conversation, none of which consult the reference machine

fn is_report(r: &Reply, a: u16, st: &[usize]) -> bool {
    matches!(r, Reply::Msg(Some(RefMsg::Report(x, s))) if *x == a && st.contains(s))
}

fn foreign_report(r: &Reply, own: u16) -> Option<usize> {
    match r {
        Reply::Msg(Some(RefMsg::Report(x, s))) if *x != own => Some(*s),
        _ => None,
    }
}

const READY: [usize; 6] = [S_CFG_RECV, S_SHOWING, S_LOADED, S_SHOW_PROG, S_SHOWN, S_LOAD_PROG];

pub fn invariants(c: &Conversation, rep: &mut Report) -> Vec<(&'static str, String)> {
    let own = c.own;
    let log = &c.log;
    let n = log.len();
    let mut bad: Vec<(&'static str, String)> = vec![];
    let class = c.out.outcome().map(|o| o.class()).unwrap_or("panic");

    // I4: every addressed message emitted carries the controller's own address
    for (i, (m, _)) in log.iter().enumerate() {
        let a = match m {
            RefMsg::Hello(a) | RefMsg::Query(a) | RefMsg::Goodbye(a) | RefMsg::Complete(a) | RefMsg::Request(a, _) | RefMsg::Ack(a, _) | RefMsg::Report(a, _) => Some(*a),
            _ => None,
        };
        if let Some(a) = a {
            rep.count("I4_addressed_messages_seen");
            if a != own {
                bad.push(("I4_foreign_address_emitted", format!("message #{} {} carries {:04X}, the controller is {:04X}", i, m.show(), a, own)));
            }
        }
    }

    // I2: fail-stop
    let mut fatal: Option<(usize, &'static str)> = None;
    for (i, (m, r)) in log.iter().enumerate() {
        let f = if *r == Reply::BusError {
            Some("bus_error")
        } else {
            match m {
                RefMsg::Data { .. } | RefMsg::Count(_) | RefMsg::Complete(_) | RefMsg::Goodbye(_) if *r != Reply::Msg(None) => Some("protocol_error"),
                RefMsg::Request(a, o) if *r != Reply::Msg(Some(RefMsg::Ack(*a, *o))) => Some("protocol_error"),
                // the query that concludes a transfer attempt (the one right after the chunk count) admits two replies: the
                // sign's own 'received' or 'failed' report of that transfer — anything else (still in progress, another state,
                // another address, another kind of message, silence) is a reply the protocol does not allow there
                RefMsg::Query(a) if *a == own && i >= 1 && matches!(log[i - 1].0, RefMsg::Count(_)) => {
                    let config = log[..i].iter().rev().find_map(|(m, _)| match m {
                        RefMsg::Request(_, o) if *o == O_RECV_CFG => Some(true),
                        RefMsg::Request(_, o) if *o == O_RECV_PIX => Some(false),
                        _ => None,
                    });
                    let allowed: &[usize] = match config {
                        Some(true) => &[S_CFG_RECV, S_CFG_FAIL],
                        Some(false) => &[S_PIX_RECV, S_PIX_FAIL],
                        None => &[],
                    };
                    if config.is_some() && !is_report(r, own, allowed) { Some("protocol_error") } else { None }
                }
                _ => None,
            }
        };
        if let Some(f) = f {
            fatal = Some((i, f));
            break;
        }
    }
    if let Some((i, want)) = fatal {
        rep.count(if want == "bus_error" { "I2_bus_errors_seen" } else { "I2_disallowed_replies_seen" });
        if n != i + 1 {
            bad.push(("I2_sent_after_fatal_reply", format!("reply #{} ({} => {}) ends the call, yet {} more message(s) were sent, next: {}", i, log[i].0.show(), log[i].1.show(), n - i - 1, log[i + 1].0.show())));
        }
        if class != want {
            bad.push(("I2_wrong_outcome_after_fatal_reply", format!("reply #{} ({} => {}) must give a {}, the call returned {}", i, log[i].0.show(), log[i].1.show(), want, c.out.show())));
        }
    }

    // I3: at most three transfer attempts, each retry right after the matching 'failed' report
    let reqs: Vec<usize> = log.iter().enumerate().filter(|(_, (m, _))| matches!(m, RefMsg::Request(_, o) if *o == O_RECV_CFG || *o == O_RECV_PIX)).map(|(i, _)| i).collect();
    for opx in [O_RECV_CFG, O_RECV_PIX] {
        let these: Vec<usize> = reqs.iter().copied().filter(|i| matches!(log[*i].0, RefMsg::Request(_, o) if o == opx)).collect();
        if these.len() > 3 {
            bad.push(("I3_more_than_three_attempts", format!("{} {} requests in one call", these.len(), op_name(opx))));
        }
        if these.len() == 3 {
            rep.count("I3_conversations_with_three_attempts");
        }
        for &i in these.iter().skip(1) {
            rep.count("I3_retries_seen");
            let failed = if opx == O_RECV_CFG { S_CFG_FAIL } else { S_PIX_FAIL };
            let ok = i >= 1 && matches!(log[i - 1].0, RefMsg::Query(a) if a == own) && is_report(&log[i - 1].1, own, &[failed]);
            if !ok {
                bad.push(("I3_retry_without_failed_report", format!("retry at message #{} is not preceded by the sign's own {} report (previous: {} => {})", i, st_name(failed), log[i - 1].0.show(), log[i - 1].1.show())));
            }
        }
    }

    // I1: success only after the sign's own 'received' report concluded the last attempt
    if c.out.is_ok() && matches!(c.op, Op::Configure | Op::SendPages | Op::ConfigureIfNeeded) {
        let last_count = log.iter().rposition(|(m, _)| matches!(m, RefMsg::Count(_)));
        match last_count {
            Some(i) => {
                rep.count("I1_successful_transfers_seen");
                let last_req = log[..i].iter().rposition(|(m, _)| matches!(m, RefMsg::Request(_, o) if *o == O_RECV_CFG || *o == O_RECV_PIX));
                let received = match last_req.map(|j| &log[j].0) {
                    Some(RefMsg::Request(_, o)) if *o == O_RECV_CFG => S_CFG_RECV,
                    _ => S_PIX_RECV,
                };
                let ok = i + 1 < n && matches!(log[i + 1].0, RefMsg::Query(a) if a == own) && is_report(&log[i + 1].1, own, &[received]);
                if !ok {
                    bad.push(("I1_unconfirmed_success", format!("returned {} but the result query after the last chunk count was answered {}", c.out.show(), log.get(i + 1).map(|x| x.1.show()).unwrap_or_else(|| "(never asked)".into()))));
                }
            }
            None => {
                if c.op == Op::ConfigureIfNeeded {
                    rep.count("I1_if_needed_skips_seen");
                    if !(n == 1 && is_report(&log[0].1, own, &READY)) {
                        bad.push(("I1_unconfirmed_success", format!("configure_if_needed returned Ok without transferring anything although the sign did not report a ready state itself: {}", c.show())));
                    }
                } else {
                    bad.push(("I1_unconfirmed_success", format!("returned {} without any transfer", c.out.show())));
                }
            }
        }
    }

    // I5: a reply from another address is never treated as the controller's own sign's reply
    // (a) result query answered from a foreign address: no success, no retry, nothing more
    for i in 0..n.saturating_sub(1) {
        if matches!(log[i].0, RefMsg::Count(_)) && matches!(log[i + 1].0, RefMsg::Query(_)) {
            if let Some(s) = foreign_report(&log[i + 1].1, own) {
                rep.count("I5_foreign_reply_at_result_query");
                if n != i + 2 || c.out.is_ok() {
                    bad.push(("I5_foreign_result_report_honoured", format!("result query answered by another address ({}) yet the call went on / succeeded: {}", st_name(s), c.out.show())));
                }
            }
        }
    }
    // (b) reset dance / readiness probe
    let dance_start = match c.op {
        Op::Configure => Some(0),
        Op::ConfigureIfNeeded if n >= 2 => Some(1),
        _ => None,
    };
    if c.op == Op::ConfigureIfNeeded && n >= 1 {
        if let Some(s) = foreign_report(&log[0].1, own) {
            if READY.contains(&s) {
                rep.count("I5_foreign_ready_state_at_probe");
                if n < 2 || log[1].0 != RefMsg::Hello(own) {
                    bad.push(("I5_foreign_ready_report_trusted", format!("another address reported {} and configure_if_needed skipped the configuration", st_name(s))));
                }
            }
        }
    }
    if let Some(d) = dance_start {
        if d < n && log[d].0 == RefMsg::Hello(own) {
            if let Some(s) = foreign_report(&log[d].1, own) {
                if s == S_UNCONF || s == S_READY_RESET {
                    rep.count("I5_foreign_reply_at_reset_probe");
                    if d + 1 >= n || log[d + 1].0 != RefMsg::Request(own, O_START_RESET) {
                        bad.push(("I5_foreign_state_skipped_reset", format!("another address reported {} and the controller did not start its own reset (next: {})", st_name(s), log.get(d + 1).map(|x| x.0.show()).unwrap_or_else(|| "nothing".into()))));
                    }
                }
            }
        }
        // later hellos of the dance: a foreign report must end the call with a protocol error
        for i in d + 1..n {
            if log[i].0 == RefMsg::Hello(own) && foreign_report(&log[i].1, own).is_some() {
                rep.count("I5_foreign_reply_in_reset_dance");
                if n != i + 1 || class != "protocol_error" {
                    bad.push(("I5_foreign_state_accepted_in_reset", format!("hello #{} was answered by another address, yet the call went on / did not fail: {}", i, c.out.show())));
                }
            }
        }
    }
    // I6: fail-stop inside the reset handshake. After an acknowledged StartReset the next hello must be answered by the
    // sign's own ReadyToReset, after an acknowledged FinishReset by its own Unconfigured; anything else is a reply the
    // protocol does not allow at that point: the call must end there with a protocol (or bus) error.
    for i in 0..n.saturating_sub(1) {
        let want = match (&log[i].0, &log[i].1) {
            (RefMsg::Request(a, o), Reply::Msg(Some(RefMsg::Ack(b, p)))) if a == b && o == p && *a == own && *o == O_START_RESET => S_READY_RESET,
            (RefMsg::Request(a, o), Reply::Msg(Some(RefMsg::Ack(b, p)))) if a == b && o == p && *a == own && *o == O_FINISH_RESET => S_UNCONF,
            _ => continue,
        };
        if log[i + 1].0 != RefMsg::Hello(own) {
            continue;
        }
        rep.count("I6_hello_after_reset_step_seen");
        if !is_report(&log[i + 1].1, own, &[want]) {
            rep.count("I6_out_of_sequence_state_after_reset_step");
            let want_class = if log[i + 1].1 == Reply::BusError { "bus_error" } else { "protocol_error" };
            if n != i + 2 || class != want_class {
                bad.push(("I6_reset_handshake_not_fail_stop", format!("after the acknowledged {} the hello was answered {} instead of the sign's own {}, yet the call went on / returned {}", log[i].0.show(), log[i + 1].1.show(), st_name(want), c.out.show())));
            }
        }
    }
    // (c) page switching
    if matches!(c.op, Op::Show | Op::LoadNext) {
        for i in 0..n {
            if matches!(log[i].0, RefMsg::Query(_)) && foreign_report(&log[i].1, own).is_some() {
                rep.count("I5_foreign_reply_in_page_switch");
                if n != i + 1 || class != "protocol_error" {
                    bad.push(("I5_foreign_state_honoured_in_switch", format!("query #{} was answered by another address, yet the call went on / did not fail: {}", i, c.out.show())));
                }
            }
        }
    }
    // (d) flip-style query
    if c.op == Op::SendPages {
        if let Some(i) = log.iter().position(|(m, _)| matches!(m, RefMsg::Complete(_))) {
            if i + 1 < n && foreign_report(&log[i + 1].1, own) == Some(S_SHOWING) {
                rep.count("I5_foreign_showing_pages_at_flip_query");
                if c.out != (ctl::SignOut::OkStyle { automatic: false }) {
                    bad.push(("I5_foreign_flip_style_honoured", format!("another address reported ShowingPages and send_pages returned {}", c.out.show())));
                }
            }
        }
    }
    bad
}

// ------------------------------------------------------------------------------------------------

#[derive(Clone)]
struct Setup {
    ty: usize,
    own: u16,
    foreign: u16,
    /// kind of error object the scripted bus fails with (custom error, io::Error of several kinds, wrapped io::Error)
    flavour: u8,
}

fn mk_pages(ty: usize, n: usize, rng: &mut Rng) -> Vec<Page<'static>> {
    (0..n)
        .map(|i| {
            let mut p = Page::new(PageId(i as u8 + 1), TYPES[ty].w, TYPES[ty].h);
            for _ in 0..20 {
                p.set_pixel(rng.below(u64::from(TYPES[ty].w)) as u32, rng.below(u64::from(TYPES[ty].h)) as u32, true);
            }
            p
        })
        .collect()
}

/// Feeds one finished conversation to the monitors.
fn monitor(c: &Conversation, ty: usize, n_pages: usize, invariants_mode: bool, rep: &mut Report) {
    rep.case(Some(fnv(sig(c, ty).as_bytes())));
    rep.seen("op_x_outcome", op_index(&c.op) * 4 + match c.out.outcome().map(|o| o.class()) { Some("ok") => 0, Some("protocol_error") => 1, Some("bus_error") => 2, _ => 3 });
    for (i, s) in c.offered.iter().enumerate() {
        if *s != u16::MAX {
            if let Some(p) = c.positions.get(i) {
                rep.seen("position_x_symbol", fnv(p.as_bytes()) % 1_000_003 * 64 + u64::from(*s));
                rep.seen("positions", fnv(p.as_bytes()));
            }
        }
    }
    rep.max("longest_conversation", c.log.len() as f64);
    rep.add("messages_observed", c.log.len() as u64);
    if let ctl::SignOut::Panic(p) = &c.out {
        let mon = if invariants_mode { "trace_invariants" } else { "lockstep_refctl" };
        rep.violation(mon, "panic", &sig(c, ty), format!("{} panicked: {} after [{}]", c.op.name(), p, c.show()), conv_json(c, ty, n_pages));
        return;
    }
    // a bus error reaches the caller as the very error the bus returned: same concrete type, same kind, same text
    if let ctl::SignOut::Bus(got) = &c.out {
        let want = crate::doubles::describe_bus_error(crate::doubles::bus_error(c.error_flavour).as_ref());
        rep.count("bus_errors_compared_with_what_the_bus_returned");
        if *got != want {
            let mon = if invariants_mode { "trace_invariants" } else { "lockstep_refctl" };
            rep.violation(mon, "bus_error_not_handed_up_unchanged", &sig(c, ty), format!("{} ({}): the bus failed with {} but the call returned {}", c.op.name(), TYPES[ty].name, want, got), conv_json(c, ty, n_pages));
        }
    }
    if invariants_mode {
        for (class, what) in invariants(c, rep) {
            rep.violation("trace_invariants", class, &sig(c, ty), format!("{} ({} @{:04X}): {} — conversation [{}] returned {}", c.op.name(), TYPES[ty].name, c.own, what, c.show(), c.out.show()), conv_json(c, ty, n_pages));
        }
    } else if let Some((at, what)) = &c.divergence {
        let mut d = conv_json(c, ty, n_pages);
        if let J::Obj(v) = &mut d {
            v.push(("divergence_at_message".into(), J::us(*at)));
            v.push(("observed".into(), J::s(what.clone())));
        }
        rep.violation("lockstep_refctl", "protocol_divergence", &sig(c, ty), format!("{} ({} @{:04X}) at message #{}: {} — conversation so far [{}]", c.op.name(), TYPES[ty].name, c.own, at, what, c.show()), d);
    }
    if rep.wants_sample() {
        rep.sample(|| conv_json(c, ty, n_pages));
    }
}

// ------------------------------------------------------------------------------------------------
// Calls on a `Sign` object that has already been used: canned earlier calls ("preludes")

const SYM_ACK: u16 = 26;
const SYM_NONE: u16 = 38;
const SYM_BUS_ERROR: u16 = 43;

/// An earlier call on the same `Sign`: every reply is the one that lets the operation proceed, except at the listed
/// (position, occurrence) pairs.
struct Prelude {
    name: &'static str,
    op: Op,
    n_pages: usize,
    overrides: &'static [(&'static str, usize, u16)],
}

const FOREIGN: u16 = N_STATES as u16;

const PRELUDES: &[Prelude] = &[
    Prelude { name: "send_pages ok (page loaded)", op: Op::SendPages, n_pages: 1, overrides: &[] },
    Prelude { name: "send_pages ok, flip-style query unanswered", op: Op::SendPages, n_pages: 1, overrides: &[("flip_style_query", 0, SYM_NONE)] },
    Prelude { name: "send_pages ok, flip-style query answered by another sign", op: Op::SendPages, n_pages: 1, overrides: &[("flip_style_query", 0, FOREIGN + S_SHOWING as u16)] },
    Prelude { name: "send_pages ok, sign flips pages itself", op: Op::SendPages, n_pages: 1, overrides: &[("flip_style_query", 0, S_SHOWING as u16)] },
    Prelude { name: "send_pages gave up after three failed transfers", op: Op::SendPages, n_pages: 1, overrides: &[("pixels_result_query", 0, S_PIX_FAIL as u16), ("pixels_result_query", 1, S_PIX_FAIL as u16), ("pixels_result_query", 2, S_PIX_FAIL as u16)] },
    Prelude { name: "send_pages ok on the third attempt", op: Op::SendPages, n_pages: 1, overrides: &[("pixels_result_query", 0, S_PIX_FAIL as u16), ("pixels_result_query", 1, S_PIX_FAIL as u16)] },
    Prelude { name: "send_pages, bus error at pixels-complete", op: Op::SendPages, n_pages: 1, overrides: &[("pixels_complete", 0, SYM_BUS_ERROR)] },
    Prelude { name: "send_pages, bus error at the result query", op: Op::SendPages, n_pages: 1, overrides: &[("pixels_result_query", 0, SYM_BUS_ERROR)] },
    Prelude { name: "send_pages, transfer request refused", op: Op::SendPages, n_pages: 1, overrides: &[("pixels_request_ack", 0, SYM_NONE)] },
    // one or two failed attempts, then the call is cut short inside the next one (whatever it counted stays behind)
    Prelude { name: "send_pages: failed twice, bus error at the third request", op: Op::SendPages, n_pages: 1, overrides: &[("pixels_result_query", 0, S_PIX_FAIL as u16), ("pixels_result_query", 1, S_PIX_FAIL as u16), ("pixels_request_ack", 2, SYM_BUS_ERROR)] },
    Prelude { name: "send_pages: failed twice, third result query unanswered", op: Op::SendPages, n_pages: 1, overrides: &[("pixels_result_query", 0, S_PIX_FAIL as u16), ("pixels_result_query", 1, S_PIX_FAIL as u16), ("pixels_result_query", 2, SYM_NONE)] },
    Prelude { name: "send_pages: failed twice, bus error at the 8th chunk sent (third attempt of a 3-chunk page)", op: Op::SendPages, n_pages: 1, overrides: &[("pixels_result_query", 0, S_PIX_FAIL as u16), ("pixels_result_query", 1, S_PIX_FAIL as u16), ("pixels_chunk", 7, SYM_BUS_ERROR)] },
    Prelude { name: "send_pages: failed once, second request refused", op: Op::SendPages, n_pages: 1, overrides: &[("pixels_result_query", 0, S_PIX_FAIL as u16), ("pixels_request_ack", 1, SYM_NONE)] },
    Prelude { name: "configure: failed twice, bus error at the third count", op: Op::Configure, n_pages: 0, overrides: &[("config_result_query", 0, S_CFG_FAIL as u16), ("config_result_query", 1, S_CFG_FAIL as u16), ("config_count", 2, SYM_BUS_ERROR)] },
    Prelude { name: "configure: failed twice, third result query answered by another sign", op: Op::Configure, n_pages: 0, overrides: &[("config_result_query", 0, S_CFG_FAIL as u16), ("config_result_query", 1, S_CFG_FAIL as u16), ("config_result_query", 2, FOREIGN + S_CFG_RECV as u16)] },
    Prelude { name: "configure ok", op: Op::Configure, n_pages: 0, overrides: &[] },
    Prelude { name: "configure ok after a reset", op: Op::Configure, n_pages: 0, overrides: &[("reset_hello_1", 0, S_SHOWN as u16)] },
    Prelude { name: "configure gave up after three failed transfers", op: Op::Configure, n_pages: 0, overrides: &[("config_result_query", 0, S_CFG_FAIL as u16), ("config_result_query", 1, S_CFG_FAIL as u16), ("config_result_query", 2, S_CFG_FAIL as u16)] },
    Prelude { name: "configure, reset abandoned (bus error)", op: Op::Configure, n_pages: 0, overrides: &[("reset_hello_1", 0, S_LOADED as u16), ("reset_hello_2", 0, SYM_BUS_ERROR)] },
    Prelude { name: "configure_if_needed skipped (sign ready)", op: Op::ConfigureIfNeeded, n_pages: 0, overrides: &[("if_needed_hello", 0, S_SHOWN as u16)] },
    Prelude { name: "show_loaded_page ok", op: Op::Show, n_pages: 0, overrides: &[] },
    Prelude { name: "show_loaded_page on a self-flipping sign", op: Op::Show, n_pages: 0, overrides: &[("switch_query", 0, S_SHOWING as u16)] },
    Prelude { name: "show_loaded_page, unexpected state", op: Op::Show, n_pages: 0, overrides: &[("switch_query", 0, S_PIX_FAIL as u16)] },
    Prelude { name: "load_next_page ok", op: Op::LoadNext, n_pages: 0, overrides: &[] },
    Prelude { name: "load_next_page, request unanswered", op: Op::LoadNext, n_pages: 0, overrides: &[("switch_request_ack", 0, SYM_NONE)] },
    Prelude { name: "shut_down", op: Op::ShutDown, n_pages: 0, overrides: &[] },
];

/// The reply that lets `op` proceed at `pos` (its `occ`-th visit).
fn proceed(op: &Op, pos: &str, occ: usize) -> u16 {
    match pos {
        "if_needed_hello" | "reset_hello_1" | "reset_hello_3" => S_UNCONF as u16,
        "reset_start_ack" => SYM_ACK + O_START_RESET as u16,
        "reset_hello_2" => S_READY_RESET as u16,
        "reset_finish_ack" => SYM_ACK + O_FINISH_RESET as u16,
        "config_request_ack" => SYM_ACK + O_RECV_CFG as u16,
        "pixels_request_ack" => SYM_ACK + O_RECV_PIX as u16,
        "config_result_query" => S_CFG_RECV as u16,
        "pixels_result_query" => S_PIX_RECV as u16,
        "flip_style_query" => S_LOADED as u16,
        "switch_query" => match (op, occ) {
            (Op::Show, 0) => S_LOADED as u16,
            (Op::Show, _) => S_SHOWN as u16,
            (_, 0) => S_SHOWN as u16,
            (_, _) => S_LOADED as u16,
        },
        "switch_request_ack" => SYM_ACK + if *op == Op::Show { O_SHOW } else { O_LOAD_NEXT } as u16,
        _ => SYM_NONE,
    }
}

fn prelude_policy(p: &'static Prelude) -> Box<dyn FnMut(usize, &'static str) -> u16> {
    let mut visits: Vec<(&'static str, usize)> = vec![];
    Box::new(move |_depth, pos| {
        let occ = match visits.iter_mut().find(|(n, _)| *n == pos) {
            Some((_, k)) => {
                *k += 1;
                *k - 1
            }
            None => {
                visits.push((pos, 1));
                0
            }
        };
        p.overrides.iter().find(|(n, o, _)| *n == pos && *o == occ).map(|(_, _, s)| *s).unwrap_or_else(|| proceed(&p.op, pos, occ))
    })
}

/// A fresh session, with the prelude (if any) already performed on its `Sign`.
fn session_after(setup: &Setup, prelude: Option<(&'static Prelude, &[Page<'static>])>) -> (Session, Option<Conversation>) {
    let mut sess = Session::new(setup.own, setup.foreign, setup.ty).with_error_flavour(setup.flavour);
    let pc = prelude.map(|(p, pages)| sess.call(&p.op, pages, vec![], 400, prelude_policy(p), false));
    (sess, pc)
}

static REFUTATIONS: std::sync::atomic::AtomicUsize = std::sync::atomic::AtomicUsize::new(0);

/// Depth-first enumeration of every reply script whose first symbol is `first`; with a prelude, every conversation is
/// held with a `Sign` object that has performed that earlier call.
fn dfs(setup: &Setup, op: &Op, pages: &[Page<'static>], first: u16, poll_bound: usize, invariants_mode: bool, prelude: Option<&'static Prelude>, rep: &mut Report) -> bool {
    let prelude_pages = prelude.map(|p| mk_pages(setup.ty, p.n_pages, &mut Rng::new(77)));
    let mut prelude_monitored = false;
    // generous cap on conversation length: every protocol conversation is shorter than this
    let chunk_msgs: usize = pages.iter().map(|p| p.as_bytes().len().div_ceil(16)).sum::<usize>() + 1;
    let max_messages = match op {
        Op::Show | Op::LoadNext => poll_bound,
        _ => 12 + 3 * (chunk_msgs + 4) + 4,
    };
    // no subtree of the unchanged controller comes near this; a controller that no longer stops where the protocol
    // says so can make the reply tree explode, and then the run is already a violation
    const CONVERSATION_BUDGET: u64 = 400_000;
    let mut conversations = 0u64;
    let mut script = vec![first];
    loop {
        // Once the run is refuted many times over, enumerating the rest only costs time: a controller that does not stop
        // where it should makes every remaining reply tree larger (and the verdict is already "violation").
        if REFUTATIONS.load(std::sync::atomic::Ordering::Relaxed) >= 40 {
            rep.count("dfs_subtrees_skipped_after_refutation");
            return false;
        }
        let violations_before = rep.violations.len();
        // C10 ends a conversation where it leaves the protocol (the divergence is the verdict); C11 must not lean on the
        // reference machine, so it lets the conversation run and relies on the conversation budget below
        let (mut sess, pc) = session_after(setup, prelude.map(|p| (p, prelude_pages.as_deref().unwrap())));
        if let (Some(pc), false) = (&pc, prelude_monitored) {
            // the earlier call is itself a conversation with a fresh sign: monitored once per subtree
            monitor(pc, setup.ty, prelude.map(|p| p.n_pages).unwrap_or(0), invariants_mode, rep);
            rep.seen("preludes_performed", fnv(format!("{}|{}", prelude.unwrap().name, pc.out.show()).as_bytes()));
            prelude_monitored = true;
        }
        let c = sess.call(op, pages, script.clone(), max_messages, Box::new(|_, _| 0), !invariants_mode);
        monitor(&c, setup.ty, pages.len(), invariants_mode, rep);
        if prelude.is_some() {
            rep.count("conversations_with_a_reused_sign_object");
        }
        let parting = sess.finish();
        if !parting.is_empty() {
            let mon = if invariants_mode { "trace_invariants" } else { "lockstep_refctl" };
            rep.violation(mon, "messages_sent_when_the_sign_object_is_dropped", &sig(&c, setup.ty), format!("{} ({}): dropping the Sign object after the call sent {}", c.op.name(), TYPES[setup.ty].name, parting.iter().map(|m| m.show()).collect::<Vec<_>>().join(" ")), conv_json(&c, setup.ty, pages.len()));
        }
        if rep.violations.len() > violations_before {
            REFUTATIONS.fetch_add(1, std::sync::atomic::Ordering::Relaxed);
        }
        conversations += 1;
        if conversations > CONVERSATION_BUDGET {
            rep.count("dfs_subtrees_cut_by_budget");
            return false;
        }
        if c.forced_errors > 0 && c.divergence.is_none() {
            rep.count("conversations_cut_by_bound");
            if !matches!(op, Op::Show | Op::LoadNext) {
                let mon = if invariants_mode { "trace_invariants" } else { "lockstep_refctl" };
                rep.violation(mon, "runaway_conversation", &sig(&c, setup.ty), format!("{} sent more than {} messages — longer than any protocol conversation", op.name(), max_messages), conv_json(&c, setup.ty, pages.len()));
            }
        }
        // odometer: next script in depth-first order
        let used = c.offered.iter().filter(|s| **s != u16::MAX).count();
        script = c.script;
        script.truncate(used);
        loop {
            match script.pop() {
                None => {
                    rep.max("largest_dfs_subtree_conversations", conversations as f64);
                    return true;
                }
                Some(last) => {
                    if script.is_empty() {
                        rep.max("largest_dfs_subtree_conversations", conversations as f64);
                        return true; // the first symbol belongs to this shard
                    }
                    if (last as usize) + 1 < N_SYMBOLS {
                        script.push(last + 1);
                        break;
                    }
                }
            }
        }
    }
}

/// One `Sign` object used for 70 000 calls in a row (more than a 16-bit counter holds): every call is a conversation of
/// its own against a fresh reference machine, and the 70 000th is judged like the first. Replies let the operation
/// proceed except that every 7th call meets a bus error and every 11th an unexpected reply somewhere along the way.
fn marathon(invariants_mode: bool, rep: &mut Report) {
    let mut sess = Session::new(3, 2, 5).with_error_flavour(1);
    let mut rng = Rng::new(0xC10_C11);
    let page = mk_pages(5, 1, &mut rng);
    for i in 0..70_000usize {
        if i % 256 == 0 && crate::util::soft_deadline_passed() {
            rep.count("loops_cut_short_at_the_soft_deadline");
            break;
        }
        let op = [Op::ShutDown, Op::Show, Op::LoadNext, Op::ConfigureIfNeeded, Op::Show, Op::ShutDown, Op::LoadNext, Op::SendPages][i % 8].clone();
        let pages: &[Page<'static>] = if op == Op::SendPages { &page } else { &[] };
        let upset = if i % 7 == 3 { Some((rng.usize(6), SYM_BUS_ERROR)) } else if i % 11 == 5 { Some((rng.usize(6), rng.below(N_SYMBOLS as u64) as u16)) } else { None };
        let op2 = op.clone();
        let mut visits: Vec<(&'static str, usize)> = vec![];
        let pick = Box::new(move |depth: usize, pos: &'static str| {
            if let Some((at, sym)) = upset {
                if depth == at {
                    return sym;
                }
            }
            let occ = match visits.iter_mut().find(|(n, _)| *n == pos) {
                Some((_, k)) => {
                    *k += 1;
                    *k - 1
                }
                None => {
                    visits.push((pos, 1));
                    0
                }
            };
            // a sign that is ready (so that configure_if_needed has nothing to do)
            if pos == "if_needed_hello" { S_SHOWN as u16 } else { proceed(&op2, pos, occ) }
        });
        let c = sess.call(&op, pages, vec![], 60, pick, false);
        let before = rep.violations.len();
        monitor(&c, 5, pages.len(), invariants_mode, rep);
        rep.count("marathon_calls_on_one_sign_object");
        if rep.violations.len() > before {
            return;
        }
    }
    let parting = sess.finish();
    if !parting.is_empty() {
        rep.count("marathon_parting_messages");
    }
}

/// One `Sign` object whose calls fail in the same way exactly k times in a row (k = 1..3, 62..66, 127..129, 255..257),
/// followed by calls that meet a well-behaved sign: how often an object has failed must not change what it does next.
fn failing_streaks(invariants_mode: bool, rep: &mut Report) {
    let mut rng = Rng::new(0xC10_57EA);
    let page = mk_pages(5, 1, &mut rng);
    for k in [1usize, 2, 3, 62, 63, 64, 65, 66, 127, 128, 129, 255, 256, 257] {
        // (operation that fails, position at which the failure is injected, the reply injected there)
        let failures: [(Op, &'static str, u16); 6] = [
            (Op::Configure, "reset_hello_1", SYM_BUS_ERROR),
            (Op::Configure, "config_result_query", S_CFG_FAIL as u16), // every attempt fails: gives up after three
            (Op::SendPages, "pixels_result_query", S_PIX_FAIL as u16),
            (Op::SendPages, "pixels_request_ack", SYM_NONE),
            (Op::Show, "switch_query", S_PIX_FAIL as u16),
            (Op::LoadNext, "switch_request_ack", SYM_BUS_ERROR),
        ];
        for (fi, (fop, fpos, fsym)) in failures.iter().enumerate() {
            let mut sess = Session::new(3, 2, 5).with_error_flavour((k + fi) as u8);
            // every other streak runs over a bus that drives another sign (a whole controller call of its own) while it
            // handles each message: the outer call's bounds are its own
            if (k + fi) % 2 == 1 {
                sess = sess.with_relay();
                rep.count("failing_streaks_over_a_relaying_bus");
            }
            let mut ok = true;
            for i in 0..k + 4 {
                let failing = i < k;
                let op = if failing { fop.clone() } else { [Op::Configure, Op::SendPages, Op::Show, Op::LoadNext][i - k].clone() };
                let pages: &[Page<'static>] = if op == Op::SendPages { &page } else { &[] };
                let (op2, fpos2, fsym2) = (op.clone(), *fpos, *fsym);
                let mut visits: Vec<(&'static str, usize)> = vec![];
                let pick = Box::new(move |_depth: usize, pos: &'static str| {
                    let occ = match visits.iter_mut().find(|(n, _)| *n == pos) {
                        Some((_, c)) => {
                            *c += 1;
                            *c - 1
                        }
                        None => {
                            visits.push((pos, 1));
                            0
                        }
                    };
                    if failing && pos == fpos2 { fsym2 } else { proceed(&op2, pos, occ) }
                });
                let c = sess.call(&op, pages, vec![], 80, pick, false);
                let before = rep.violations.len();
                monitor(&c, 5, pages.len(), invariants_mode, rep);
                if rep.violations.len() > before {
                    ok = false;
                    break;
                }
            }
            if ok {
                rep.count("failing_streaks_followed_by_ordinary_calls");
            }
        }
    }
}

/// A page flip that takes its time: the sign answers k polls with "in progress" before it reports the new state
/// (k up to 70 000 — hours at the bus's pace). The controller keeps polling, one query per report, and then succeeds.
fn long_polls(invariants_mode: bool, rep: &mut Report) {
    for k in [10usize, 99, 100, 101, 254, 255, 256, 257, 1000, 65_534, 65_535, 65_536, 65_537, 70_000] {
        for op in [Op::Show, Op::LoadNext] {
            let (progress, op2) = (if op == Op::Show { S_SHOW_PROG } else { S_LOAD_PROG } as u16, op.clone());
            let mut polls = 0usize;
            let pick = Box::new(move |_depth: usize, pos: &'static str| {
                if pos == "switch_query" {
                    polls += 1;
                    match polls {
                        1 => proceed(&op2, pos, 0),
                        n if n <= k + 1 => progress,
                        _ => proceed(&op2, pos, 1),
                    }
                } else {
                    proceed(&op2, pos, 0)
                }
            });
            let mut sess = Session::new(3, 2, 5);
            let c = sess.call(&op, &[], vec![], k + 50, pick, false);
            monitor(&c, 5, 0, invariants_mode, rep);
            if c.out.is_ok() && c.log.len() >= k {
                rep.count("long_polls_that_ended_in_success");
            }
        }
    }
}

/// LONG transfers (135 and 300 chunks: 9 and 20 pages of the largest front sign) with every reply symbol in turn at the
/// positions that conclude an attempt (the result query, first and second visit) and at the request's acknowledgement: how
/// much was sent has no bearing on what a reply means.
fn long_transfers(invariants_mode: bool, rep: &mut Report) {
    let mut rng = Rng::new(0xC10_1046);
    for n_pages in [9usize, 20] {
        let pages = mk_pages(0, n_pages, &mut rng);
        for (pos_name, visit) in [("pixels_result_query", 0usize), ("pixels_result_query", 1), ("pixels_request_ack", 0), ("pixels_request_ack", 1)] {
            for sym in 0..N_SYMBOLS as u16 {
                let mut visits = 0usize;
                let mut fails_left = visit; // reach the second visit through one failed attempt
                let pick = Box::new(move |_depth: usize, pos: &'static str| {
                    if pos == pos_name {
                        visits += 1;
                        if visits == visit + 1 {
                            return sym;
                        }
                    }
                    if pos == "pixels_result_query" && fails_left > 0 {
                        fails_left -= 1;
                        return S_PIX_FAIL as u16;
                    }
                    proceed(&Op::SendPages, pos, 0)
                });
                let mut sess = Session::new(3, 2, 0);
                let c = sess.call(&Op::SendPages, &pages, vec![], 1200, pick, false);
                monitor(&c, 0, pages.len(), invariants_mode, rep);
                rep.count("long_transfers_with_every_reply_at_the_concluding_positions");
            }
        }
    }
}

fn random_conversation(ctx: &Ctx, rng: &mut Rng, invariants_mode: bool, rep: &mut Report) {
    let ty = rng.usize(TYPES.len());
    let own = rng.edgy_u16();
    let foreign = loop {
        let f = match rng.below(3) {
            0 => own ^ 1,
            1 => own ^ 0x8000,
            _ => rng.u16(),
        };
        if f != own {
            break f;
        }
    };
    let op = OPS_ALL[rng.usize(6)].clone();
    let pages = if op == Op::SendPages { mk_pages(ty, rng.usize(3), rng) } else { vec![] };
    let seed = rng.next();
    let mut pr = Rng::new(seed);
    // random scripts biased towards replies that keep the conversation going
    let good: Vec<u16> = vec![S_UNCONF as u16, S_READY_RESET as u16, S_CFG_RECV as u16, S_CFG_FAIL as u16, S_PIX_RECV as u16, S_PIX_FAIL as u16, S_LOADED as u16, S_SHOWN as u16, S_LOAD_PROG as u16, S_SHOW_PROG as u16, S_SHOWING as u16, 26, 27, 28, 29, 30, 31, 38];
    let good_for_pick = good.clone();
    let pick = Box::new(move |_d: usize, _p: &'static str| if pr.chance(4, 5) { *pr.pick(&good_for_pick) } else { pr.below(N_SYMBOLS as u64) as u16 });
    let _ = ctx;
    // half of the random conversations are held with a Sign object that has already made one to three random calls
    let flavour = rng.below(u64::from(crate::doubles::N_BUS_ERROR_FLAVOURS)) as u8;
    rep.seen("bus_error_flavours", u64::from(flavour));
    let mut sess = Session::new(own, foreign, ty).with_error_flavour(flavour);
    // one conversation in six runs over a bus that drives another sign of its own while it handles each message
    if rng.chance(1, 6) {
        sess = sess.with_relay();
        rep.count("conversations_over_a_relaying_bus");
    }
    // one conversation in four gets one of its replies (a state report or an acknowledgement, at a random depth) as an
    // UNKNOWN frame wrapped around that very message's bytes
    if rng.chance(1, 4) {
        sess = sess.with_wrapped_reply_at(rng.usize(14));
    }
    if rng.chance(1, 2) {
        for _ in 0..1 + rng.usize(3) {
            let op0 = OPS_ALL[rng.usize(6)].clone();
            let pages0 = if op0 == Op::SendPages { mk_pages(ty, rng.usize(3), rng) } else { vec![] };
            let mut pr0 = Rng::new(rng.next());
            let good0 = good.clone();
            let pick0 = Box::new(move |_d: usize, _p: &'static str| if pr0.chance(9, 10) { *pr0.pick(&good0) } else { pr0.below(N_SYMBOLS as u64) as u16 });
            let c0 = sess.call(&op0, &pages0, vec![], 400, pick0, false);
            monitor(&c0, ty, pages0.len(), invariants_mode, rep);
            rep.count("random_calls_on_a_reused_sign_object");
        }
    }
    let c = sess.call(&op, &pages, vec![], 400, pick, false);
    monitor(&c, ty, pages.len(), invariants_mode, rep);
    rep.add("replies_delivered_as_unknown_frames_around_a_known_message", sess.wrapped_replies() as u64);
    rep.count("random_conversations");
}

pub fn run(ctx: &Ctx, invariants_mode: bool) -> Outcome {
    let setups: Vec<Setup> = if ctx.quick() {
        vec![
            Setup { ty: 5, own: 3, foreign: 2, flavour: 3 },
            Setup { ty: 5, own: 0xFFFF, foreign: 0x7FFF, flavour: 1 },
            Setup { ty: 8, own: 3, foreign: 0x8003, flavour: 0 },
            Setup { ty: 2, own: 0x80, foreign: 0x81, flavour: 2 },
            Setup { ty: 3, own: 0, foreign: 1, flavour: 7 },
            Setup { ty: 8, own: 0x80, foreign: 0x0000, flavour: 6 },
            Setup { ty: 5, own: 3, foreign: 0x0103, flavour: 8 },
            Setup { ty: 2, own: 0xFFFF, foreign: 0, flavour: 9 },
        ]
    } else {
        let mut v = vec![];
        for ty in 0..TYPES.len() {
            for (i, own) in [0u16, 3, 0x80, 0xFFFF].into_iter().enumerate() {
                v.push(Setup { ty, own, foreign: if (ty + i) % 2 == 0 { own ^ 1 } else { own ^ 0x8000 }, flavour: ((ty * 4 + i) % usize::from(crate::doubles::N_BUS_ERROR_FLAVOURS)) as u8 });
            }
        }
        v
    };
    let poll_bound = if ctx.quick() { 6 } else { 8 };
    // jobs: (setup, op, pages, first symbol)
    struct Job {
        setup: usize,
        op: Op,
        n_pages: usize,
        first: u16,
        prelude: Option<&'static Prelude>,
    }
    let mut jobs = vec![];
    for (si, s) in setups.iter().enumerate() {
        for op in OPS_ALL.iter() {
            let page_counts: Vec<usize> = if *op == Op::SendPages {
                // long transfers make long scripts; the large types get one page, the 3-chunk type also 0 and 2
                if TYPES[s.ty].w * TYPES[s.ty].h <= 300 { vec![0, 1, 2] } else { vec![1] }
            } else {
                vec![0]
            };
            for np in page_counts {
                for first in 0..N_SYMBOLS as u16 {
                    jobs.push(Job { setup: si, op: op.clone(), n_pages: np, first, prelude: None });
                }
            }
        }
    }
    // the same enumeration on Sign objects that have been used before (quick: the 3-chunk type; thorough: two types)
    let fresh_jobs = jobs.len();
    let reuse_setups: Vec<usize> = if ctx.quick() { vec![0] } else { vec![20, 9] };
    for si in reuse_setups.iter() {
        for p in PRELUDES.iter() {
            for op in OPS_ALL.iter() {
                for first in 0..N_SYMBOLS as u16 {
                    jobs.push(Job { setup: *si, op: op.clone(), n_pages: if *op == Op::SendPages { 1 } else { 0 }, first, prelude: Some(p) });
                }
            }
        }
    }
    let _ = fresh_jobs;
    let n_random = if invariants_mode { ctx.size(100_000, 10_000_000) } else { ctx.size(20_000, 1_000_000) };
    let rand_shards = 32usize;
    let nj = jobs.len();
    let mut report = run_sharded(ctx, nj + rand_shards, |shard, rep| {
        if shard < nj {
            let j = &jobs[shard];
            let s = &setups[j.setup];
            rep.seen("bus_error_flavours", u64::from(s.flavour));
            let mut rng = ctx.rng("pages", (j.setup * 16 + j.n_pages) as u64);
            let pages = mk_pages(s.ty, j.n_pages, &mut rng);
            if dfs(s, &j.op, &pages, j.first, poll_bound, invariants_mode, j.prelude, rep) {
                rep.count("dfs_subtrees_completed");
            }
        } else {
            let mut rng = ctx.rng("random", (shard - nj) as u64);
            if shard == nj {
                marathon(invariants_mode, rep);
            } else if shard == nj + 1 {
                failing_streaks(invariants_mode, rep);
            } else if shard == nj + 2 {
                long_polls(invariants_mode, rep);
            } else if shard == nj + 3 {
                long_transfers(invariants_mode, rep);
            }
            for _ in 0..n_random / rand_shards as u64 {
                random_conversation(ctx, &mut rng, invariants_mode, rep);
            }
        }
    });
    {
        // the same calls from a thread-local destructor while a thread exits (see exitprobe.rs)
        let mut at_exit = Report::new();
        crate::exitprobe::check("controller", if invariants_mode { "trace_invariants" } else { "lockstep_refctl" }, &mut at_exit);
        report.merge(at_exit);
    }

    let n_positions = report.set_len("positions");
    let cells = report.set_len("position_x_symbol");
    let mut floors = vec![
        floor("every DFS subtree enumerated to its end", report.get("dfs_subtrees_completed") == nj as u64, report.get("dfs_subtrees_completed")),
        floor("every canned earlier call performed, then every operation enumerated on the same Sign object", report.set_len("preludes_performed") >= PRELUDES.len() as u64 && report.get("conversations_with_a_reused_sign_object") > 100_000, format!("{} preludes, {} conversations", report.set_len("preludes_performed"), report.get("conversations_with_a_reused_sign_object"))),
        floor("bus errors of every kind (custom, io::Error Interrupted / TimedOut / WouldBlock, wrapped io::Error, FrameError around an io::Error, a relayed SignError of either variant)", report.set_len("bus_error_flavours") == 10, report.set_len("bus_error_flavours")),
        floor("conversations over a bus that makes controller calls of its own (to another sign) while it handles each message: half of the failing streaks, a sixth of the random conversations", report.get("failing_streaks_over_a_relaying_bus") == 42 && report.get("conversations_over_a_relaying_bus") > 100, format!("{} / {}", report.get("failing_streaks_over_a_relaying_bus"), report.get("conversations_over_a_relaying_bus"))),
        floor("state reports and acknowledgements delivered as Message::Unknown around their own frame", report.get("replies_delivered_as_unknown_frames_around_a_known_message") > 500, report.get("replies_delivered_as_unknown_frames_around_a_known_message")),
        floor("transfers of 135 and 300 chunks with every reply symbol at the result query and at the acknowledgement (first and second visit)", report.get("long_transfers_with_every_reply_at_the_concluding_positions") == 2 * 4 * N_SYMBOLS as u64, report.get("long_transfers_with_every_reply_at_the_concluding_positions")),
        floor("calls that fail exactly k times in a row on one Sign object, then ordinary calls (14 counts x 6 kinds of failure)", report.get("failing_streaks_followed_by_ordinary_calls") == 84, report.get("failing_streaks_followed_by_ordinary_calls")),
        floor("page flips that are polled 10 .. 70 000 times before they complete", report.get("long_polls_that_ended_in_success") == 28, report.get("long_polls_that_ended_in_success")),
        floor("one Sign object used for 70 000 calls", report.get("marathon_calls_on_one_sign_object") == 70_000, report.get("marathon_calls_on_one_sign_object")),
        floor("every reply symbol offered at every protocol position", n_positions >= 16 && cells == n_positions * N_SYMBOLS as u64, format!("{} cells over {} positions", cells, n_positions)),
        floor("ok / protocol error / bus error observed for every operation", (0..6u64).all(|o| (0..3u64).all(|k| report.sets.get("op_x_outcome").map(|s| s.contains(&(o * 4 + k))).unwrap_or(false))), report.set_len("op_x_outcome")),
    ];
    if invariants_mode {
        for k in [
            "I1_successful_transfers_seen",
            "I1_if_needed_skips_seen",
            "I2_bus_errors_seen",
            "I2_disallowed_replies_seen",
            "I3_retries_seen",
            "I3_conversations_with_three_attempts",
            "I4_addressed_messages_seen",
            "I5_foreign_reply_at_result_query",
            "I5_foreign_ready_state_at_probe",
            "I5_foreign_reply_at_reset_probe",
            "I5_foreign_reply_in_reset_dance",
            "I5_foreign_reply_in_page_switch",
            "I5_foreign_showing_pages_at_flip_query",
            "I6_out_of_sequence_state_after_reset_step",
        ] {
            floors.push(floor(&format!("antecedent observed: {}", k), report.get(k) > 0, report.get(k)));
        }
    }
    Outcome {
        report,
        level: "fault_enumeration",
        rule: format!(
            "EVERY reply script over the 46-symbol alphabet (13 states x own/foreign address, 6 acks x own/foreign, none, goodbye, hello, unknown frame, data chunk, bus error, an echo of the message just sent, a state-report-type frame with an undocumented state byte), enumerated depth-first to the natural end of configure, configure_if_needed, send_pages (0/1/2 pages), show_loaded_page, load_next_page (polling bounded at {} replies) and shut_down, for {} (sign type, address) setups; plus seeded random scripts with random types/addresses; distinct by (operation, type, address, conversation) hash; all non-trivial. {}",
            poll_bound,
            setups.len(),
            if invariants_mode { "Monitor: trace invariants I1-I5 (no reference conversation consulted)." } else { "Monitor: reference protocol machine in lockstep inside the bus." }
        ),
        exhaustive: false,
        floors,
        assumptions: vec![
            if invariants_mode { "oracle: invariants I1-I5 over the recorded (message, reply) log and the returned value".into() } else { "oracle: refctl (harness/src/refctl.rs, Appendix C of DESIGN.md), a flat protocol-position machine sharing no code with sign.rs".into() },
            "the enumeration is exhaustive for the listed setups and the polling bound; other types/addresses are sampled".into(),
        ],
        extra: vec![("setups".into(), J::us(setups.len())), ("polling_bound".into(), J::us(poll_bound))],
    }
}
