//! C14 — signs sharing a bus are isolated; replies come only from the addressed sign.
//! Two-run non-interference monitor: the bus of real virtual signs vs. one solo shadow copy per sign.

use std::collections::HashSet;

use flipdot_core::{Address, PageFlipStyle, SignBus};
use flipdot_testing::{VirtualSign, VirtualSignBus};

use crate::refs::{self, *};
use crate::refsign::{Obs, RefSign};
use crate::util::{Ctx, J, Outcome, Report, Rng, catch, floor, fnv, run_sharded, short_loc};
use crate::vsx;

const MON: &str = "bus_noninterference";

#[derive(Clone, Debug, PartialEq, Eq, Hash)]
pub struct Pop {
    pub addrs: Vec<u16>,
    pub autos: Vec<bool>,
    /// What each sign went through ON ITS OWN before the bus was made of it (empty = all fresh): a bus is built from signs
    /// that exist already, and a sign may have been driven directly before (`VirtualSign::process_message` is public).
    /// 0 fresh, 1 configuration requested, 2 + one block delivered, 3 + count (configuration complete),
    /// 4 + pixels requested, 5 + one chunk delivered.
    pub pre: Vec<u8>,
}

/// The messages behind a `pre` code, for the sign at `a`.
pub fn pre_msgs(a: u16, code: u8) -> Vec<RefMsg> {
    let all = [
        RefMsg::Request(a, 0),
        RefMsg::Data { offset: 0, data: vsx::TINY1.to_vec() },
        RefMsg::Count(1),
        RefMsg::Request(a, 1),
        RefMsg::Data { offset: 0, data: vsx::page_chunk(7, 0x5A) },
    ];
    all[..usize::from(code).min(all.len())].to_vec()
}

impl Pop {
    fn show(&self) -> String {
        self.addrs.iter().zip(&self.autos).enumerate().map(|(i, (a, au))| format!("{:04X}{}{}", a, if *au { "a" } else { "m" }, self.pre.get(i).filter(|c| **c != 0).map(|c| c.to_string()).unwrap_or_default())).collect::<Vec<_>>().join(",")
    }
    fn parse(s: &str) -> Option<Pop> {
        let mut p = Pop { addrs: vec![], autos: vec![], pre: vec![] };
        for part in s.split(',') {
            p.addrs.push(u16::from_str_radix(part.get(0..4)?, 16).ok()?);
            p.autos.push(part.get(4..5)? == "a");
            p.pre.push(part.get(5..6).and_then(|c| c.parse().ok()).unwrap_or(0));
        }
        Some(p)
    }
}

fn mk_sign(a: u16, auto: bool) -> VirtualSign<'static> {
    VirtualSign::new(Address(a), if auto { PageFlipStyle::Automatic } else { PageFlipStyle::Manual })
}

#[derive(Clone)]
pub struct World {
    pub pop: Pop,
    pub bus: VirtualSignBus<'static>,
    pub shadows: Vec<VirtualSign<'static>>,
    /// a second copy of every sign that is spared all the traffic it must ignore: it gets the messages addressed to it,
    /// and unaddressed data only while it is itself in a receiving state. "Unaddressed data affects only signs that are
    /// receiving" means that the sign on the bus can never be told apart from this one — not now and not 70 000 chunks later.
    pub quiet: Vec<VirtualSign<'static>>,
    /// reference machines, used only to steer the workload (never as the oracle here)
    pub guides: Vec<RefSign>,
}

impl World {
    pub fn new(pop: &Pop) -> World {
        // every sign (the one that goes into the bus and its two copies alike) first lives through its own past, alone
        let used = |i: usize, a: u16, au: bool| -> VirtualSign<'static> {
            let mut s = mk_sign(a, au);
            for m in pre_msgs(a, pop.pre.get(i).copied().unwrap_or(0)) {
                let _ = s.process_message(&refs::from_ref(&m));
            }
            s
        };
        let signs: Vec<VirtualSign<'static>> = pop.addrs.iter().zip(&pop.autos).enumerate().map(|(i, (a, au))| used(i, *a, *au)).collect();
        World {
            bus: VirtualSignBus::new(signs),
            shadows: pop.addrs.iter().zip(&pop.autos).enumerate().map(|(i, (a, au))| used(i, *a, *au)).collect(),
            quiet: pop.addrs.iter().zip(&pop.autos).enumerate().map(|(i, (a, au))| used(i, *a, *au)).collect(),
            guides: pop
                .addrs
                .iter()
                .zip(&pop.autos)
                .enumerate()
                .map(|(i, (a, au))| {
                    let mut g = RefSign::new(*a, *au);
                    for m in pre_msgs(*a, pop.pre.get(i).copied().unwrap_or(0)) {
                        g.step(&m);
                    }
                    g
                })
                .collect(),
            pop: pop.clone(),
        }
    }
}

/// The address a message is directed at (`None` for unaddressed data messages).
fn target(m: &RefMsg) -> Option<u16> {
    match m {
        RefMsg::Hello(a) | RefMsg::Query(a) | RefMsg::Goodbye(a) | RefMsg::Complete(a) | RefMsg::Request(a, _) => Some(*a),
        _ => None,
    }
}

fn addressed_kind(m: &RefMsg) -> Option<u64> {
    Some(match m {
        RefMsg::Request(_, o) => *o as u64,
        RefMsg::Hello(_) => 6,
        RefMsg::Query(_) => 7,
        RefMsg::Complete(_) => 8,
        RefMsg::Goodbye(_) => 9,
        _ => return None,
    })
}

fn receiving(o: &Obs) -> bool {
    o.st == S_CFG_PROG || o.st == S_PIX_PROG
}

/// Delivers one message to the bus and to the relevant shadows and checks isolation.
/// Returns the violations found as (class, description).
pub fn deliver(w: &mut World, m: &RefMsg, rep: &mut Report) -> Vec<(&'static str, String)> {
    let n = w.pop.addrs.len();
    let before: Vec<Obs> = (0..n).map(|i| vsx::observe(w.bus.sign(i))).collect();
    let lib = refs::from_ref_either(m);
    let bus = &mut w.bus;
    let r = catch(|| bus.process_message(lib).map(|r| r.map(|x| refs::to_ref(&x))).map_err(|e| e.to_string()));
    let mut bad: Vec<(&'static str, String)> = vec![];
    let tgt = target(m);
    let unaddressed_data = matches!(m, RefMsg::Data { .. } | RefMsg::Count(_));
    // shadows: every sign sees its own addressed messages and everything that is not addressed to someone else
    let mut shadow_reply: Vec<Option<RefMsg>> = vec![None; n];
    for i in 0..n {
        let relevant = match tgt {
            Some(a) => a == w.pop.addrs[i],
            None => true,
        };
        if relevant {
            let lm = refs::from_ref(m);
            let sh = &mut w.shadows[i];
            match catch(|| sh.process_message(&lm).map(|x| refs::to_ref(&x))) {
                Ok(r) => shadow_reply[i] = r,
                Err(_) => {} // a panicking sign is C12's business; the bus run below will panic as well
            }
            w.guides[i].step(m);
        }
    }
    let reply = match r {
        Err(p) => {
            bad.push(("panic", format!("bus panicked: {} at {}", p.msg, short_loc(&p.loc))));
            return bad;
        }
        Ok(Err(e)) => {
            bad.push(("bus_error", format!("bus returned an error: {}", e)));
            return bad;
        }
        Ok(Ok(r)) => r,
    };
    let after: Vec<Obs> = (0..n).map(|i| vsx::observe(w.bus.sign(i))).collect();
    // the quiet copies
    for i in 0..n {
        let gets_it = match tgt {
            Some(a) => a == w.pop.addrs[i],
            None => receiving(&vsx::observe(&w.quiet[i])),
        };
        if gets_it {
            let lm = refs::from_ref(m);
            let q = &mut w.quiet[i];
            let _ = catch(|| q.process_message(&lm).map(|x| refs::to_ref(&x)));
        }
        let qo = vsx::observe(&w.quiet[i]);
        if after[i] != qo {
            bad.push(("sign_affected_by_traffic_it_must_ignore", format!("after {} sign {:04X} on the bus: {}; a copy that was spared every message it must ignore: {}", m.show(), w.pop.addrs[i], after[i].show(), qo.show())));
        }
    }
    let owner = tgt.and_then(|a| w.pop.addrs.iter().position(|x| *x == a));
    match (tgt, owner) {
        (Some(a), Some(i)) => {
            if let Some(k) = addressed_kind(m) {
                for j in 0..n {
                    if j != i {
                        rep.seen("matrix_addressed_kind_x_bystander_state", k * 13 + before[j].st as u64);
                    }
                }
            }
            for j in 0..n {
                if j != i && after[j] != before[j] {
                    bad.push(("bystander_changed", format!("message {} for {:04X} changed sign {:04X}: {} -> {}", m.show(), a, w.pop.addrs[j], before[j].show(), after[j].show())));
                }
            }
            if reply != shadow_reply[i] {
                bad.push(("reply_differs_from_solo", format!("bus replied {} to {}, the sign alone replies {}", show_opt(&reply), m.show(), show_opt(&shadow_reply[i]))));
            }
            if let Some(RefMsg::Report(ra, _) | RefMsg::Ack(ra, _)) = &reply {
                if *ra != a {
                    bad.push(("reply_from_wrong_address", format!("reply {} to a message for {:04X}", show_opt(&reply), a)));
                }
            }
            let solo = vsx::observe(&w.shadows[i]);
            if after[i] != solo {
                bad.push(("addressed_sign_differs_from_solo", format!("sign {:04X} on the bus: {}; alone: {}", a, after[i].show(), solo.show())));
            }
            rep.count("delivered/addressed_present");
        }
        (Some(a), None) => {
            if let Some(k) = addressed_kind(m) {
                rep.seen("absent_address_kinds", k);
            }
            if reply.is_some() {
                bad.push(("reply_for_absent_address", format!("{} (nobody has {:04X}) got reply {}", m.show(), a, show_opt(&reply))));
            }
            for j in 0..n {
                if after[j] != before[j] {
                    bad.push(("absent_address_changed_sign", format!("{} (nobody has {:04X}) changed sign {:04X}: {} -> {}", m.show(), a, w.pop.addrs[j], before[j].show(), after[j].show())));
                }
            }
            rep.count("delivered/addressed_absent");
        }
        (None, _) => {
            if reply.is_some() {
                bad.push(("reply_to_unaddressed", format!("{} got reply {}", m.show(), show_opt(&reply))));
            }
            let n_recv = before.iter().filter(|o| receiving(o)).count();
            if unaddressed_data && n_recv >= 2 {
                rep.count("data_while_two_signs_receiving");
            }
            for j in 0..n {
                if unaddressed_data && receiving(&before[j]) {
                    let solo = vsx::observe(&w.shadows[j]);
                    if after[j] != solo {
                        bad.push(("receiving_sign_differs_from_solo", format!("after {} sign {:04X} on the bus: {}; alone: {}", m.show(), w.pop.addrs[j], after[j].show(), solo.show())));
                    }
                } else if after[j] != before[j] {
                    bad.push((
                        if unaddressed_data { "data_changed_non_receiving_sign" } else { "ignored_kind_changed_sign" },
                        format!("{} changed sign {:04X} which was in {}: {} -> {}", m.show(), w.pop.addrs[j], st_name(before[j].st), before[j].show(), after[j].show()),
                    ));
                }
            }
            rep.count(if unaddressed_data { "delivered/unaddressed_data" } else { "delivered/ignored_kinds" });
        }
    }
    bad
}

pub fn run_history(pop: &Pop, history: &[RefMsg]) -> Option<(usize, Vec<(&'static str, String)>)> {
    let mut w = World::new(pop);
    let mut scratch = Report::new();
    for (i, m) in history.iter().enumerate() {
        let bad = deliver(&mut w, m, &mut scratch);
        if !bad.is_empty() {
            return Some((i, bad));
        }
    }
    None
}

fn report(pop: &Pop, history: &[RefMsg], bad: &[(&'static str, String)], rep: &mut Report) {
    for (class, what) in bad {
        let cls = *class;
        if !rep.wants_violation(MON, cls) && crate::util::KNOWN.get().map(|k| k.is_empty()).unwrap_or(true) {
            rep.count(&format!("violations_raised/{}/{}", MON, cls));
            continue;
        }
        let small = vsx::shrink(history, &|h| matches!(run_history(pop, h), Some((_, b)) if b.iter().any(|(c, _)| *c == cls)));
        let what_small = run_history(pop, &small).and_then(|(_, b)| b.into_iter().find(|(c, _)| *c == cls).map(|(_, w)| w)).unwrap_or_else(|| what.clone());
        rep.violation(
            MON,
            cls,
            &format!("{}|{}", pop.show(), small.iter().map(|m| m.show()).collect::<Vec<_>>().join(" ")),
            format!("bus [{}] after [{}]: {}", pop.show(), vsx::show_history(&small), what_small),
            J::obj(vec![
                ("workload", J::s("bus_history")),
                ("population", J::s(pop.show())),
                ("history", J::Arr(small.iter().map(|m| J::s(m.show())).collect())),
                ("observed", J::s(what_small)),
                ("original_history_len", J::us(history.len())),
            ]),
        );
    }
}

fn random_pop(rng: &mut Rng) -> Pop {
    let n = 1 + rng.usize(4);
    // (0x10 and 0x20 are also chunk offsets, 1..3 also plausible chunk counts, 0x0103 shares its low byte with 3)
    let pool = [0u16, 1, 2, 3, 0x10, 0x20, 0x7F, 0x80, 0xFF, 0x0103, 0xFFFF, rng.u16(), rng.u16()];
    let mut addrs: Vec<u16> = vec![];
    while addrs.len() < n {
        let a = *rng.pick(&pool);
        if !addrs.contains(&a) {
            addrs.push(a);
        }
    }
    {
        // one bus in three is made of signs with a past of their own
        let pre: Vec<u8> = if rng.chance(1, 3) { (0..n).map(|_| rng.below(6) as u8).collect() } else { vec![] };
        Pop { autos: (0..n).map(|_| rng.bool()).collect(), addrs, pre }
    }
}

fn absent_addr(rng: &mut Rng, pop: &Pop) -> u16 {
    loop {
        let a = match rng.below(8) {
            0 => rng.u16(),
            1 => pop.addrs[0] ^ 1,
            2 => pop.addrs[0] ^ 0x8000,
            3 => pop.addrs[0] ^ 0x0100, // same low byte
            // addresses somebody might give a special meaning to
            4 => *rng.pick(&[0x0000u16, 0x00FF, 0xFFFF, 0x007F, 0x0080, 0x00FE, 0x0100, 0x0010]),
            // an address equal to a chunk offset or a small chunk count
            5 => 16 * (rng.below(8) as u16),
            6 => rng.below(8) as u16,
            _ => 2,
        };
        if !pop.addrs.contains(&a) {
            return a;
        }
    }
}

/// Sign A receives k chunks in one transfer while sign B sits idle in a settled state; then B gets an ordinary
/// transfer. k runs over the values around 2^8 and 2^16 where a private tally kept by the idle sign would wrap.
fn neighbour_traffic(rep: &mut Report) {
    let pop = Pop { addrs: vec![3, 6], autos: vec![false, true], pre: vec![] };
    for k in [254usize, 255, 256, 257, 65_530, 65_533, 65_534, 65_535, 65_536, 65_537, 65_540] {
        for b_ready in [false, true] {
            let mut history: Vec<RefMsg> = vec![];
            history.extend(vsx::configure_msgs(3, &vsx::TINY1));
            if b_ready {
                history.extend(vsx::configure_msgs(6, &vsx::TINY2));
            }
            history.push(RefMsg::Request(3, O_RECV_PIX));
            // (one-byte chunks at a non-zero offset: they are counted and buffered but never complete a page, so that the
            // per-message snapshots stay small)
            for i in 0..k {
                history.push(RefMsg::Data { offset: if i == 0 { 0 } else { 16 }, data: vec![i as u8] });
            }
            history.push(RefMsg::Count(k as u16));
            history.push(RefMsg::Query(3));
            // B's turn
            if !b_ready {
                history.extend(vsx::configure_msgs(6, &vsx::TINY2));
            }
            history.push(RefMsg::Request(6, O_RECV_PIX));
            history.push(RefMsg::Data { offset: 0, data: vsx::page_chunk(2, 0x11) });
            history.push(RefMsg::Data { offset: 16, data: vec![0x22; 16] });
            history.push(RefMsg::Count(2));
            history.push(RefMsg::Query(6));
            history.push(RefMsg::Query(3));
            rep.case(Some(fnv(format!("neighbour-{}-{}", k, b_ready).as_bytes())));
            let mut w = World::new(&pop);
            let mut upto = 0;
            let mut bad = vec![];
            for (i, m) in history.iter().enumerate() {
                bad = deliver(&mut w, m, rep);
                upto = i + 1;
                if !bad.is_empty() {
                    break;
                }
            }
            if !bad.is_empty() {
                report(&pop, &history[..upto], &bad, rep);
            }
            rep.count("neighbour_traffic_histories");
        }
    }
}

fn random_history(rng: &mut Rng, max_len: usize, rep: &mut Report) {
    let len = 1 + rng.usize(max_len);
    history_of_length(rng, len, rep)
}

fn history_of_length(rng: &mut Rng, len: usize, rep: &mut Report) {
    let pop = random_pop(rng);
    let n = pop.addrs.len();
    let mut w = World::new(&pop);
    rep.max("longest_history", len as f64);
    let mut history: Vec<RefMsg> = Vec::with_capacity(len);
    rep.case(Some(rng.next()));
    rep.seen("population_sizes", n as u64);
    if pop.pre.iter().any(|c| *c != 0) {
        rep.count("buses_made_of_used_signs");
        for c in &pop.pre {
            rep.seen("solo_pasts", u64::from(*c));
        }
    }
    // bias: keep several signs mid-transfer at once by round-robin "advancing" moves
    for step in 0..len {
        let k = if rng.chance(1, 3) { step % n } else { rng.usize(n) };
        let foreign = if rng.bool() && n > 1 { pop.addrs[(k + 1 + rng.usize(n - 1)) % n] } else { absent_addr(rng, &pop) };
        let mut m = vsx::next_msg(rng, &w.guides[k], foreign);
        // keep transfers small so that several complete within a history
        if let RefMsg::Data { offset: 0, data } = &mut m {
            if w.guides[k].st == S_CFG_PROG && data.len() == 16 && rng.chance(2, 3) {
                *data = if rng.bool() { vsx::TINY1.to_vec() } else { vsx::type_block(5) };
            }
        }
        let bad = deliver(&mut w, &m, rep);
        history.push(m);
        if !bad.is_empty() {
            report(&pop, &history, &bad, rep);
            break;
        }
    }
    rep.add("messages_delivered", history.len() as u64);
    if rep.wants_sample() {
        rep.sample(|| J::obj(vec![("population", J::s(pop.show())), ("length", J::us(history.len())), ("first_messages", J::s(vsx::show_history(&history[..history.len().min(10)])))]));
    }
}

/// Exhaustive breadth-first exploration of a 2-sign bus with a narrow alphabet and tiny bounds.
fn explore_two_signs(auto0: bool, auto1: bool, rep: &mut Report) {
    let pop = Pop { addrs: vec![3, 0x80], autos: vec![auto0, auto1], pre: vec![] };
    let absent = 0x0042u16;
    struct N {
        w: World,
        parent: u32,
        via: Option<RefMsg>,
    }
    let mut nodes = vec![N { w: World::new(&pop), parent: 0, via: None }];
    let key = |w: &World| (w.bus.clone(), w.shadows.clone());
    let mut seen: HashSet<(VirtualSignBus<'static>, Vec<VirtualSign<'static>>)> = HashSet::new();
    seen.insert(key(&nodes[0].w));
    let mut i = 0;
    let mut transitions = 0u64;
    while i < nodes.len() {
        let g = &nodes[i].w.guides;
        let mut msgs: Vec<RefMsg> = vec![];
        for a in [3u16, 0x80, absent] {
            msgs.push(RefMsg::Hello(a));
            msgs.push(RefMsg::Complete(a));
            msgs.push(RefMsg::Goodbye(a));
            for o in 0..N_OPS {
                msgs.push(RefMsg::Request(a, o));
            }
        }
        msgs.push(RefMsg::Data { offset: 0, data: vsx::TINY1.to_vec() });
        msgs.push(RefMsg::Data { offset: 0, data: vsx::page_chunk(1, 0x5A) });
        msgs.push(RefMsg::Data { offset: 16, data: vec![7; 15] });
        for c in [g[0].chunks, g[1].chunks, g[0].chunks.wrapping_add(1)] {
            if !msgs.contains(&RefMsg::Count(c)) {
                msgs.push(RefMsg::Count(c));
            }
        }
        for m in msgs {
            let mut w = nodes[i].w.clone();
            let bad = deliver(&mut w, &m, rep);
            transitions += 1;
            rep.case(None);
            if !bad.is_empty() {
                let mut h = vec![m.clone()];
                let mut k = i;
                while let Some(v) = &nodes[k].via {
                    h.push(v.clone());
                    k = nodes[k].parent as usize;
                }
                h.reverse();
                report(&pop, &h, &bad, rep);
                continue;
            }
            if w.guides.iter().any(|g| g.pending.len() > 32 || g.chunks > 2 || g.pages.len() > 1) {
                continue;
            }
            if nodes.len() < 2_000_000 && seen.insert(key(&w)) {
                nodes.push(N { w, parent: i as u32, via: Some(m) });
            }
        }
        i += 1;
    }
    rep.add("bfs_states", nodes.len() as u64);
    rep.add("bfs_transitions", transitions);
    rep.count("bfs_fixed_points");
    for n in &nodes {
        rep.seen("bfs_joint_protocol_states", (n.w.guides[0].st * 13 + n.w.guides[1].st) as u64);
    }
}

pub fn run(ctx: &Ctx) -> Outcome {
    let n_hist = ctx.size(600_000, 6_000_000);
    let max_len = if ctx.quick() { 80 } else { 300 };
    let shards = 64usize;
    let bfs_cfgs: Vec<(bool, bool)> = vec![(false, false), (false, true), (true, false), (true, true)];
    let nb = bfs_cfgs.len();
    let mut report = run_sharded(ctx, nb + shards, |shard, rep| {
        if shard < nb {
            explore_two_signs(bfs_cfgs[shard].0, bfs_cfgs[shard].1, rep);
        } else {
            let mut rng = ctx.rng("hist", (shard - nb) as u64);
            if shard - nb == 3 {
                neighbour_traffic(rep);
            }
            if shard - nb == 4 {
                // the documentation's own example: a bus with a sign at every address 2..=126 (and a few beyond)
                let pop = Pop { addrs: (2..=140u16).collect(), autos: (2..=140u16).map(|a| a % 3 == 0).collect(), pre: (2..=140u16).map(|a| (a % 7) as u8 % 6).collect() };
                let mut w = World::new(&pop);
                let mut history = vec![];
                for step in 0..600usize {
                    let k = if step % 3 == 0 { step % pop.addrs.len() } else { rng.usize(pop.addrs.len()) };
                    let foreign = if rng.bool() { pop.addrs[(k + 1 + rng.usize(pop.addrs.len() - 1)) % pop.addrs.len()] } else { absent_addr(&mut rng, &pop) };
                    let m = vsx::next_msg(&mut rng, &w.guides[k], foreign);
                    let bad = deliver(&mut w, &m, rep);
                    history.push(m);
                    if !bad.is_empty() {
                        report(&pop, &history, &bad, rep);
                        break;
                    }
                }
                rep.count("big_bus_histories");
            }
            if shard - nb < 3 {
                // one bus object living through 100 000 messages
                history_of_length(&mut rng, 100_000, rep);
                rep.count("long_histories");
            }
            for _ in 0..n_hist / shards as u64 {
                random_history(&mut rng, max_len, rep);
            }
        }
    });
    {
        // the same calls from a thread-local destructor while a thread exits (see exitprobe.rs)
        let mut at_exit = Report::new();
        crate::exitprobe::check("virtual_sign", MON, &mut at_exit);
        crate::exitprobe::check_migration("virtual_sign", MON, &mut at_exit);
        report.merge(at_exit);
    }
    let cells = report.set_len("matrix_addressed_kind_x_bystander_state");
    let floors = vec![
        floor("the implementation's equality separates sign states whose futures differ (the explorer's visited set relies on it)", vsx::equality_merges_states_with_different_futures() == 0, vsx::equality_merges_states_with_different_futures()),
        floor("2-sign bus explored to a fixed point", report.get("bfs_fixed_points") == nb as u64, report.get("bfs_fixed_points")),
        floor("(addressed message kind x bystander state) cells observed (of 130)", cells >= 125, cells),
        floor("data delivered while >= 2 signs were receiving", report.get("data_while_two_signs_receiving") > 0, report.get("data_while_two_signs_receiving")),
        floor("absent-address messages of all 10 kinds", report.set_len("absent_address_kinds") == 10, report.set_len("absent_address_kinds")),
        floor("a bus with a sign at every address 2..=140", report.get("big_bus_histories") == 1, report.get("big_bus_histories")),
        floor("neighbour traffic of 254..65540 chunks past an idle sign, then that sign's own transfer", report.get("neighbour_traffic_histories") == 22, report.get("neighbour_traffic_histories")),
        floor("three histories of 100 000 messages on one bus", report.get("long_histories") == 3, report.get("long_histories")),
        floor("buses made of signs with a past of their own (driven directly before the bus existed: mid-configuration, configured, mid-transfer)", report.get("buses_made_of_used_signs") > 100 && report.set_len("solo_pasts") == 6, report.get("buses_made_of_used_signs")),
        floor("populations of 1..4 signs", report.set_len("population_sizes") == 4, report.set_len("population_sizes")),
        floor("unaddressed data and ignored kinds delivered", report.get("delivered/unaddressed_data") > 0 && report.get("delivered/ignored_kinds") > 0, report.get("delivered/ignored_kinds")),
    ];
    let states = report.get("bfs_states");
    let transitions = report.get("bfs_transitions");
    Outcome {
        report,
        level: "exploration",
        rule: "seeded random interleaved histories on buses of 1..4 signs (distinct addresses from {0,1,3,7F,80,FFFF,random}, mixed flip styles, random bus order), steered so several signs are mid-transfer at once; every delivery checked against before/after snapshots of every sign and against one solo shadow copy per sign; plus an exhaustive breadth-first exploration of a 2-sign bus (narrow alphabet, tiny bounds) to a fixed point; distinct_nontrivial counts distinct history seeds".into(),
        exhaustive: false,
        floors,
        assumptions: vec![
            "the real VirtualSign run alone (same history restricted to its own addressed messages plus all unaddressed ones) is the reference for what 'that sign alone would have replied'".into(),
            "hidden-field changes without observable consequence are not violations".into(),
        ],
        extra: vec![("states".into(), J::Int(states as i128)), ("transitions".into(), J::Int(transitions as i128))],
    }
}

pub fn replay(d: &J, rep: &mut Report) -> bool {
    let Some(pop) = d.get("population").and_then(|p| p.as_str()).and_then(Pop::parse) else { return false };
    let mut h = vec![];
    let Some(arr) = d.get("history").and_then(|h| h.as_arr()) else { return false };
    for m in arr {
        let Some(m) = m.as_str().and_then(RefMsg::parse) else { return false };
        h.push(m);
    }
    if let Some((i, bad)) = run_history(&pop, &h) {
        report(&pop, &h[..=i], &bad, rep);
    }
    let _ = fnv(b"");
    true
}
