//! The library used from a thread-local destructor while its thread exits.
//!
//! An application that keeps a connection object in a thread-local says goodbye from that object's destructor; by then
//! the thread's other thread-locals may be gone already (destruction order is the reverse of first use, so it depends on
//! whether the application's thread-local or the library's first call came first). A library that keeps per-thread
//! scratch state must cope (`LocalKey::try_with`), and the result must be what the same calls give anywhere else.
//!
//! `check(kind, ..)` runs one small deterministic workload per property group three times — on the calling thread, and in
//! a destructor at thread exit in both orders of first use — and demands three equal digests.

use std::cell::RefCell;
use std::sync::mpsc;

use flipdot::{Address, Page, PageFlipStyle, Sign, SignType};
use flipdot_core::{Data, Frame, Message, MsgType};
use flipdot_testing::{VirtualSign, VirtualSignBus};

use crate::refs;
use crate::util::{J, Report, fnv, hex};
use crate::vsx;

struct Farewell {
    f: fn() -> String,
    out: mpsc::Sender<Result<String, String>>,
}

impl Drop for Farewell {
    fn drop(&mut self) {
        let f = self.f;
        let r = std::panic::catch_unwind(f).map_err(|p| p.downcast_ref::<String>().cloned().or_else(|| p.downcast_ref::<&str>().map(|s| s.to_string())).unwrap_or_else(|| "panic".into()));
        let _ = self.out.send(r);
    }
}

thread_local! {
    static CONNECTION: RefCell<Option<Farewell>> = const { RefCell::new(None) };
}

/// Runs `f` in a thread-local destructor of a fresh thread. `library_first`: the thread's first library call comes before
/// the application's thread-local is created (so the library's own thread-locals, if any, outlive it) or after.
fn at_thread_exit(f: fn() -> String, library_first: bool) -> Result<String, String> {
    let (tx, rx) = mpsc::channel();
    let t = std::thread::spawn(move || {
        if library_first {
            let _ = f();
            CONNECTION.with(|c| *c.borrow_mut() = Some(Farewell { f, out: tx }));
        } else {
            CONNECTION.with(|c| *c.borrow_mut() = Some(Farewell { f, out: tx }));
            let _ = f();
        }
    });
    if t.join().is_err() {
        return Err("the thread itself panicked".into());
    }
    rx.try_recv().unwrap_or_else(|_| Err("the destructor did not run".into()))
}

/// Runs `f` from a destructor WHILE A PANIC UNWINDS on the current thread (the application failed and its clean-up code
/// says goodbye to the sign), catches that panic, and then runs `f` once more the ordinary way on the same thread.
/// Returns (what the clean-up saw, what the next ordinary run saw).
fn while_unwinding(f: fn() -> String) -> (Result<String, String>, Result<String, String>) {
    struct CleanUp<'a> {
        f: fn() -> String,
        out: &'a RefCell<Option<Result<String, String>>>,
    }
    impl Drop for CleanUp<'_> {
        fn drop(&mut self) {
            let f = self.f;
            let r = if std::thread::panicking() { std::panic::catch_unwind(f).map_err(|_| "panicked".to_string()) } else { Err("the destructor did not run during an unwind".to_string()) };
            *self.out.borrow_mut() = Some(r);
        }
    }
    let slot = RefCell::new(None);
    let _ = std::panic::catch_unwind(std::panic::AssertUnwindSafe(|| {
        let _clean_up = CleanUp { f, out: &slot };
        panic!("the application fails in the middle of its work");
    }));
    let during = slot.borrow_mut().take().unwrap_or_else(|| Err("the destructor did not run".into()));
    let after = std::panic::catch_unwind(f).map_err(|_| "panicked".to_string());
    (during, after)
}

fn codec() -> String {
    let mut out = String::new();
    for (a, t, d) in [(3u16, 2u8, vec![0xFFu8]), (0xFFFF, 0xFF, vec![0xA5; 255]), (0, 0, vec![]), (0x0010, 0, (0..16).collect::<Vec<u8>>())] {
        let f = Frame::new(Address(a), MsgType(t), Data::try_new(d).expect("<=255"));
        let wire = f.to_bytes_with_newline();
        out.push_str(&hex(&wire));
        out.push_str(&format!("|{:?}|", Frame::from_bytes(&wire).map(|g| g == f)));
        let mut sink = vec![];
        out.push_str(&format!("{:?}{}|", f.write(&mut sink).is_ok(), hex(&sink)));
        let mut stream = &sink[..];
        out.push_str(&format!("{:?}{}|", Frame::read(&mut stream).map(|g| g == f).map_err(|e| e.to_string()), stream.len()));
    }
    for bad in [&b":01000302FFFF\r\n"[..], b":0100030", b":01000302FFFB\n\r", b"", b":0200030400F9"] {
        out.push_str(&format!("{:?}|", Frame::from_bytes(bad).map_err(|e| format!("{:?}", e))));
    }
    out
}

fn message() -> String {
    let mut out = String::new();
    for (a, t, d) in [(3u16, 2u8, vec![0xFFu8]), (3, 4, vec![0x0F]), (3, 3, vec![0xA2]), (3, 5, vec![0x91]), (0x0010, 0, vec![1, 2, 3]), (7, 1, vec![]), (9, 0x42, vec![1, 2]), (3, 6, vec![0])] {
        let f = Frame::new(Address(a), MsgType(t), Data::try_new(d).expect("<=255"));
        let m = Message::from(f.clone());
        out.push_str(&refs::to_ref(&m).show());
        let back = Frame::from(m);
        out.push_str(&format!("|{}|{}|", back == f, hex(&back.to_bytes())));
    }
    out
}

fn page() -> String {
    let mut out = String::new();
    for (w, h) in [(1u32, 1u32), (7, 7), (90, 7), (112, 16), (3, 2056)] {
        let mut p = Page::new(flipdot::PageId(5), w, h);
        p.set_pixel(0, 0, true);
        p.set_pixel(w - 1, h - 1, true);
        p.set_pixel(w / 2, h / 2, true);
        p.set_pixel(0, 0, false);
        out.push_str(&format!("{}|{}{}{}|", fnv(p.as_bytes()), p.get_pixel(0, 0), p.get_pixel(w - 1, h - 1), p.get_pixel(w / 2, h / 2)));
        let q = Page::from_bytes(w, h, p.as_bytes().to_vec()).expect("own bytes");
        out.push_str(&format!("{}|", q == p));
        p.set_all_pixels(true);
        out.push_str(&format!("{}|", fnv(p.as_bytes())));
        if w <= 7 {
            out.push_str(&format!("{}|", fnv(format!("{}", p).as_bytes())));
        }
    }
    out.push_str(&format!("{:?}", Page::from_bytes(7, 7, vec![0u8; 3]).map(|_| ()).map_err(|e| e.to_string())));
    out
}

fn sign_type() -> String {
    let mut out = String::new();
    for t in refs::TYPES.iter() {
        let b = t.ty.to_bytes();
        out.push_str(&format!("{}|{:?}|{:?}|", hex(&b), SignType::from_bytes(&b).map(|x| x == t.ty), t.ty.dimensions()));
    }
    out.push_str(&format!("{:?}|{:?}", SignType::from_bytes(&[4u8; 15]).map_err(|e| e.to_string()), SignType::from_bytes(&[0x0F; 16]).map_err(|e| e.to_string())));
    out
}

fn virtual_sign() -> String {
    let mut out = String::new();
    let mut bus = VirtualSignBus::new(vec![VirtualSign::new(Address(3), PageFlipStyle::Manual), VirtualSign::new(Address(6), PageFlipStyle::Automatic)]);
    let mut msgs = vsx::configure_msgs(3, &vsx::type_block(5));
    msgs.extend(vsx::configure_msgs(6, &vsx::TINY1));
    msgs.extend([refs::RefMsg::Request(6, 1), refs::RefMsg::Data { offset: 0, data: vsx::page_chunk(1, 0x55) }, refs::RefMsg::Count(1), refs::RefMsg::Query(6), refs::RefMsg::Complete(6), refs::RefMsg::Query(6), refs::RefMsg::Goodbye(3), refs::RefMsg::Hello(3)]);
    for m in &msgs {
        use flipdot::SignBus;
        let r = bus.process_message(refs::from_ref_either(m)).map(|r| r.map(|x| refs::to_ref(&x).show())).map_err(|e| e.to_string());
        out.push_str(&format!("{:?}|", r));
    }
    for i in 0..2 {
        out.push_str(&vsx::observe(bus.sign(i)).show());
        out.push('|');
    }
    out
}

fn controller() -> String {
    use std::rc::Rc;
    let bus = Rc::new(RefCell::new(VirtualSignBus::new(vec![VirtualSign::new(Address(3), PageFlipStyle::Manual)])));
    let sign = Sign::new(bus.clone(), Address(3), SignType::Max3000Side90x7);
    let mut out = format!("{:?}|", sign.configure().map_err(|e| e.to_string()));
    let mut p = sign.create_page(flipdot::PageId(1));
    p.set_pixel(1, 1, true);
    out.push_str(&format!("{:?}|", sign.send_pages(&[p.clone(), p]).map_err(|e| e.to_string())));
    out.push_str(&format!("{:?}|{:?}|", sign.show_loaded_page().map_err(|e| e.to_string()), sign.load_next_page().map_err(|e| e.to_string())));
    out.push_str(&format!("{:?}|", sign.shut_down().map_err(|e| e.to_string())));
    out.push_str(&vsx::observe(bus.borrow().sign(0)).show());
    out
}

/// `kind`: codec (C01-C03, C15), message (C04, C05), page (C06, C07), sign_type (C19), virtual_sign (C12-C14), controller (C08-C11).
pub fn check(kind: &'static str, monitor: &str, rep: &mut Report) {
    let f: fn() -> String = match kind {
        "codec" => codec,
        "message" => message,
        "page" => page,
        "sign_type" => sign_type,
        "virtual_sign" => virtual_sign,
        "controller" => controller,
        _ => return,
    };
    let here = match std::panic::catch_unwind(f) {
        Ok(s) => s,
        Err(_) => {
            // the workload itself fails on an ordinary thread: that is for the property's own monitors to report
            rep.count("thread_exit_probe_unavailable");
            return;
        }
    };
    {
        rep.case(Some(fnv(kind.as_bytes()) ^ 0x0u64.wrapping_sub(7)));
        let (during, after) = while_unwinding(f);
        for (when, got) in [("from a destructor while another panic was unwinding", during), ("on the same thread right after a panic during which the library was used from a destructor", after)] {
            match got {
                Ok(s) if s == here => rep.count("unwinding_probes_ok"),
                Ok(s) => {
                    let at = s.bytes().zip(here.bytes()).position(|(a, b)| a != b).unwrap_or(s.len().min(here.len()));
                    rep.violation(monitor, "different_result_around_an_unwinding_panic", &format!("unwinding|{}|{}", kind, when.len()), format!("the {} workload run {} gives a different result than at any other time: ..{}.. instead of ..{}..", kind, when, &s[at.saturating_sub(20)..(at + 40).min(s.len())], &here[at.saturating_sub(20)..(at + 40).min(here.len())]), J::obj(vec![("workload", J::s("unwinding")), ("kind", J::s(kind))]));
                }
                Err(e) => rep.violation(monitor, "fails_around_an_unwinding_panic", &format!("unwinding|{}|{}", kind, when.len()), format!("the {} workload run {}: {}", kind, when, e), J::obj(vec![("workload", J::s("unwinding")), ("kind", J::s(kind)), ("observed", J::s(e.clone()))])),
            }
        }
    }
    for library_first in [false, true] {
        rep.case(Some(fnv(kind.as_bytes()) ^ u64::from(library_first)));
        let order = if library_first { "the thread's first library call came before the application's thread-local" } else { "the application's thread-local was created before the thread's first library call" };
        match at_thread_exit(f, library_first) {
            Ok(s) if s == here => rep.count("thread_exit_probes_ok"),
            Ok(s) => {
                let at = s.bytes().zip(here.bytes()).position(|(a, b)| a != b).unwrap_or(s.len().min(here.len()));
                rep.violation(monitor, "different_result_at_thread_exit", &format!("thread-exit|{}|{}", kind, library_first), format!("the {} workload run from a thread-local destructor at thread exit ({}) gives a different result than on an ordinary thread: ..{}.. instead of ..{}..", kind, order, &s[at.saturating_sub(20)..(at + 40).min(s.len())], &here[at.saturating_sub(20)..(at + 40).min(here.len())]), J::obj(vec![("workload", J::s("thread exit")), ("kind", J::s(kind)), ("library_first", J::Bool(library_first))]));
            }
            Err(e) => rep.violation(monitor, "fails_at_thread_exit", &format!("thread-exit|{}|{}", kind, library_first), format!("the {} workload run from a thread-local destructor at thread exit ({}): {}", kind, order, e), J::obj(vec![("workload", J::s("thread exit")), ("kind", J::s(kind)), ("library_first", J::Bool(library_first)), ("observed", J::s(e.clone()))])),
        }
    }
}

// ------------------------------------------------------------------------------------------------
// Objects that change threads: built on one thread, used on a second, used again on a third, read on the caller's.
// Every value type of the library and the virtual bus are `Send`; nothing about them may depend on where they were made.

fn hop<T: Send + 'static, R: Send + 'static>(value: T, f: fn(T) -> R) -> Result<R, String> {
    std::thread::spawn(move || f(value)).join().map_err(|_| "the thread panicked".to_string())
}

type PageStage = (Vec<Page<'static>>, String);

fn page_build(_: ()) -> PageStage {
    (vec![Page::new(flipdot::PageId(5), 90, 7), Page::new(flipdot::PageId(6), 3, 2056), Page::from_bytes(7, 7, vec![0x11u8; 16]).expect("16 bytes")], String::new())
}

fn page_write((mut pages, mut out): PageStage) -> PageStage {
    for p in pages.iter_mut() {
        let (w, h) = (p.width(), p.height());
        p.set_pixel(0, 0, true);
        p.set_pixel(w - 1, h - 1, true);
        p.set_pixel(w / 2, h / 2, true);
        out.push_str(&format!("{}|", fnv(p.as_bytes())));
    }
    let c = pages[0].clone();
    pages.push(c);
    (pages, out)
}

fn page_read((mut pages, mut out): PageStage) -> PageStage {
    for p in pages.iter_mut() {
        let (w, h) = (p.width(), p.height());
        out.push_str(&format!("{}{}{}|", p.get_pixel(0, 0), p.get_pixel(w - 1, h - 1), p.get_pixel(1 % w, 1 % h)));
        p.set_all_pixels(false);
        p.set_pixel(w - 1, 0, true);
        out.push_str(&format!("{}|{}|", fnv(p.as_bytes()), pages_eq(p)));
    }
    (pages, out)
}

fn pages_eq(p: &Page<'_>) -> bool {
    Page::from_bytes(p.width(), p.height(), p.as_bytes().to_vec()).map(|q| q == *p).unwrap_or(false)
}

type BusStage = (VirtualSignBus<'static>, String);

fn bus_drive(bus: &mut VirtualSignBus<'static>, msgs: &[refs::RefMsg], out: &mut String) {
    use flipdot::SignBus;
    for m in msgs {
        let r = bus.process_message(refs::from_ref_either(m)).map(|r| r.map(|x| refs::to_ref(&x).show())).map_err(|e| e.to_string());
        out.push_str(&format!("{:?}|", r));
    }
}

fn bus_build(_: ()) -> BusStage {
    let mut bus = VirtualSignBus::new(vec![VirtualSign::new(Address(3), PageFlipStyle::Manual), VirtualSign::new(Address(6), PageFlipStyle::Automatic)]);
    let mut out = String::new();
    bus_drive(&mut bus, &vsx::configure_msgs(3, &vsx::type_block(5))[..3], &mut out);
    (bus, out)
}

fn bus_middle((mut bus, mut out): BusStage) -> BusStage {
    let mut msgs = vsx::configure_msgs(3, &vsx::type_block(5))[3..].to_vec();
    msgs.extend(vsx::configure_msgs(6, &vsx::TINY1));
    msgs.extend([refs::RefMsg::Request(6, 1), refs::RefMsg::Data { offset: 0, data: vsx::page_chunk(1, 0x55) }]);
    bus_drive(&mut bus, &msgs, &mut out);
    (bus, out)
}

fn bus_end((mut bus, mut out): BusStage) -> BusStage {
    bus_drive(&mut bus, &[refs::RefMsg::Count(1), refs::RefMsg::Query(6), refs::RefMsg::Complete(6), refs::RefMsg::Query(6), refs::RefMsg::Goodbye(3), refs::RefMsg::Hello(3)], &mut out);
    for i in 0..2 {
        out.push_str(&vsx::observe(bus.sign(i)).show());
        out.push('|');
    }
    (bus, out)
}

type CodecStage = (Vec<Frame<'static>>, Vec<Message<'static>>, Vec<u8>, String);

fn codec_build(_: ()) -> CodecStage {
    let frames: Vec<Frame<'static>> = [(3u16, 2u8, vec![0xFFu8]), (0xFFFF, 0xFF, vec![0xA5; 255]), (0, 0, vec![]), (0x0010, 0, (0..16).collect::<Vec<u8>>()), (3, 4, vec![0x0F])].into_iter().map(|(a, t, d)| Frame::new(Address(a), MsgType(t), Data::try_new(d).expect("<=255"))).collect();
    (frames, vec![], vec![], String::new())
}

fn codec_encode((frames, mut msgs, mut sink, mut out): CodecStage) -> CodecStage {
    for f in &frames {
        out.push_str(&format!("{:?}|", f.write(&mut sink).is_ok()));
        msgs.push(Message::from(f.clone()));
    }
    (frames, msgs, sink, out)
}

fn codec_decode((frames, msgs, sink, mut out): CodecStage) -> CodecStage {
    let mut stream = &sink[..];
    for (f, m) in frames.iter().zip(&msgs) {
        out.push_str(&format!("{:?}|{}|{}|", Frame::read(&mut stream).map(|g| g == *f).map_err(|e| e.to_string()), Frame::from(m.clone()) == *f, refs::to_ref(m).show()));
    }
    out.push_str(&hex(&sink));
    (frames, msgs, sink, out)
}

/// `kind`: codec, page, virtual_sign.
pub fn check_migration(kind: &'static str, monitor: &str, rep: &mut Report) {
    let run = |threads: bool| -> Result<String, String> {
        macro_rules! stage {
            ($v:expr, $f:expr) => {
                if threads { hop($v, $f)? } else { $f($v) }
            };
        }
        Ok(match kind {
            "page" => {
                let s = stage!((), page_build);
                let s = stage!(s, page_write);
                let s = stage!(s, page_read);
                page_read(s).1
            }
            "virtual_sign" => {
                let s = stage!((), bus_build);
                let s = stage!(s, bus_middle);
                let s = stage!(s, bus_end);
                bus_end(s).1
            }
            _ => {
                let s = stage!((), codec_build);
                let s = stage!(s, codec_encode);
                let s = stage!(s, codec_decode);
                codec_decode(s).3
            }
        })
    };
    let here = match std::panic::catch_unwind(|| run(false)) {
        Ok(Ok(s)) => s,
        _ => {
            rep.count("migration_probe_unavailable");
            return;
        }
    };
    rep.case(Some(fnv(kind.as_bytes()) ^ 0x316));
    match run(true) {
        Ok(s) if s == here => rep.count("migration_probes_ok"),
        Ok(s) => {
            let at = s.bytes().zip(here.bytes()).position(|(a, b)| a != b).unwrap_or(s.len().min(here.len()));
            rep.violation(monitor, "different_result_when_objects_change_threads", &format!("migration|{}", kind), format!("{} objects built on one thread, used on a second and a third and read on a fourth behave differently than on one thread: ..{}.. instead of ..{}..", kind, &s[at.saturating_sub(20)..(at + 40).min(s.len())], &here[at.saturating_sub(20)..(at + 40).min(here.len())]), J::obj(vec![("workload", J::s("objects change threads")), ("kind", J::s(kind))]));
        }
        Err(e) => rep.violation(monitor, "fails_when_objects_change_threads", &format!("migration|{}", kind), format!("{} objects built on one thread and used on others: {}", kind, e), J::obj(vec![("workload", J::s("objects change threads")), ("kind", J::s(kind)), ("observed", J::s(e.clone()))])),
    }
}
