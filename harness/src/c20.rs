//! C20 — port setup always yields 19200 8N1 without flow control, or an error.

use std::time::Duration;

use flipdot_serial::SerialSignBus;
use flipdot_testing::{Odk, VirtualSignBus};
use serial_core::{BaudRate, CharSize, ErrorKind, FlowControl, Parity, PortSettings, StopBits};

use crate::doubles::{self, FragReader, FragWriter, InstrPort, PortEv, WriteAct};
use crate::util::{Ctx, J, Outcome, Report, catch, floor, fnv, run_sharded, short_loc};

const MON: &str = "port_setup";

const BAUDS: [BaudRate; 15] = [
    // rates outside the named set (a custom divisor; 19200 spelled the long way; an absurd one)
    BaudRate::BaudOther(250_000),
    BaudRate::BaudOther(19_200),
    BaudRate::BaudOther(0),
    BaudRate::Baud110,
    BaudRate::Baud300,
    BaudRate::Baud600,
    BaudRate::Baud1200,
    BaudRate::Baud2400,
    BaudRate::Baud4800,
    BaudRate::Baud9600,
    BaudRate::Baud19200,
    BaudRate::Baud38400,
    BaudRate::Baud57600,
    BaudRate::Baud115200,
    BaudRate::BaudOther(123_456),
];
const SIZES: [CharSize; 4] = [CharSize::Bits5, CharSize::Bits6, CharSize::Bits7, CharSize::Bits8];
const PARITIES: [Parity; 3] = [Parity::ParityNone, Parity::ParityOdd, Parity::ParityEven];
const STOPS: [StopBits; 2] = [StopBits::Stop1, StopBits::Stop2];
const FLOWS: [FlowControl; 3] = [FlowControl::FlowNone, FlowControl::FlowSoftware, FlowControl::FlowHardware];

const TARGET: PortSettings = PortSettings {
    baud_rate: BaudRate::Baud19200,
    char_size: CharSize::Bits8,
    parity: Parity::ParityNone,
    stop_bits: StopBits::Stop1,
    flow_control: FlowControl::FlowNone,
};

#[derive(Clone, Copy, Debug, PartialEq, Eq)]
enum Entry {
    ConfigurePort(Duration), // the caller's timeout
    SerialSignBus,
    Odk,
}

#[derive(Clone, Copy, Debug, PartialEq, Eq)]
#[repr(usize)]
enum Fault {
    None,
    ReadSettings,
    Baud,
    WriteSettings,
    SetTimeout,
}

const FAULT_KINDS: [(ErrorKind, &str); 7] = [
    (ErrorKind::NoDevice, "injected: no such device"),
    (ErrorKind::InvalidInput, "injected: port refuses these settings"),
    (ErrorKind::Io(std::io::ErrorKind::PermissionDenied), "injected: permission denied"),
    (ErrorKind::Io(std::io::ErrorKind::Interrupted), "injected: interrupted system call"),
    (ErrorKind::Io(std::io::ErrorKind::TimedOut), "injected: timed out"),
    (ErrorKind::Io(std::io::ErrorKind::WouldBlock), "injected: would block"),
    (ErrorKind::Io(std::io::ErrorKind::Other), "injected: other i/o error"),
];

thread_local! {
    /// the read timeout the port already has when the call under test starts (None: never set)
    static PRIOR_TIMEOUT: std::cell::Cell<Option<Duration>> = const { std::cell::Cell::new(None) };
}

fn run_case(prior: PortSettings, entry: Entry, fault: Fault, fk: usize, rep: &mut Report) {
    run_case_budget(prior, entry, fault, fk, usize::MAX, rep)
}

/// `budget`: how many times the injected fault fires (usize::MAX = the port keeps refusing). A fault that fires only
/// once or twice may be ridden out by an implementation that retries, so for those the rule is: Ok => fully configured,
/// Err => the injected error.
fn run_case_budget(prior: PortSettings, entry: Entry, fault: Fault, fk: usize, budget: usize, rep: &mut Report) {
    let sig = format!("{:?}|{:?}|{:?}|{}|{}", prior, entry, fault, fk, budget);
    rep.case(Some(fnv(sig.as_bytes())));
    rep.count(&format!("cells/{}/{:?}", match entry { Entry::ConfigurePort(_) => "configure_port", Entry::SerialSignBus => "SerialSignBus", Entry::Odk => "Odk" }, fault));
    let st = doubles::shared(prior);
    let prior_timeout = PRIOR_TIMEOUT.with(|c| c.get());
    st.borrow_mut().timeout = prior_timeout;
    let injected = FAULT_KINDS[fk];
    {
        let mut s = st.borrow_mut();
        s.fault_budget = budget;
        match fault {
            Fault::None => {}
            Fault::ReadSettings => s.fail_read_settings = Some(injected),
            Fault::Baud => s.fail_baud = Some(injected),
            Fault::WriteSettings => s.fail_write_settings = Some(injected),
            Fault::SetTimeout => s.fail_set_timeout = Some(injected),
        }
    }
    let mk_port = || InstrPort::scripted(st.clone(), FragReader::plain(b":0100030400F8\r\n".to_vec()), FragWriter::new(vec![], WriteAct::Accept(usize::MAX)));
    // Result: Ok(()) or Err((kind, description))
    let r = catch(|| -> Result<(), (ErrorKind, String)> {
        match entry {
            Entry::ConfigurePort(timeout) => {
                let mut p = mk_port();
                flipdot_serial::configure_port(&mut p, timeout).map_err(|e| (e.kind(), e.to_string()))
            }
            Entry::SerialSignBus => SerialSignBus::try_new(mk_port()).map(|_| ()).map_err(|e| (e.kind(), e.to_string())),
            Entry::Odk => Odk::try_new(mk_port(), VirtualSignBus::new(vec![])).map(|_| ()).map_err(|e| (e.kind(), e.to_string())),
        }
    });
    let s = st.borrow();
    let fail = |rep: &mut Report, class: &str, what: String| {
        rep.violation(
            MON,
            class,
            &sig,
            format!("{:?} on a port at {:?}, fault {:?}: {}", entry, prior, fault, what),
            J::obj(vec![
                ("prior", J::s(format!("{:?}", prior))),
                ("entry", J::s(format!("{:?}", entry))),
                ("fault", J::s(format!("{:?} {:?}", fault, injected))),
                ("final_settings", J::s(format!("{:?}", s.settings))),
                ("timeout", J::s(format!("{:?}", s.timeout))),
                ("events", J::Arr(s.log.iter().map(|e| J::s(format!("{:?}", e.ev))).collect())),
                ("observed", J::s(what.clone())),
            ]),
        );
    };
    let res = match r {
        Err(p) => {
            fail(rep, "panic", format!("panic {} at {}", p.msg, short_loc(&p.loc)));
            return;
        }
        Ok(res) => res,
    };
    if s.log.iter().any(|e| matches!(e.ev, PortEv::Read { .. } | PortEv::Write { .. })) {
        fail(rep, "data_io_during_setup", "the port was read from or written to during setup".into());
    }
    // which injected fault was actually reached
    let reached = s.log.iter().any(|e| match (&e.ev, fault) {
        (PortEv::ReadSettings { ok: false }, Fault::ReadSettings) => true,
        (PortEv::SetBaud { ok: false, .. }, Fault::Baud) => true,
        (PortEv::WriteSettings { ok: false, .. }, Fault::WriteSettings) => true,
        (PortEv::SetTimeout { ok: false, .. }, Fault::SetTimeout) => true,
        _ => false,
    });
    // a fault the implementation never ran into cannot be expected to surface
    // a transient fault that the implementation rode out (it retried and succeeded) is judged like "no fault"
    let transient_ridden_out = budget != usize::MAX && res.is_ok();
    if budget != usize::MAX {
        rep.count("transient_fault_cases");
    }
    let effective = if reached && !transient_ridden_out { fault } else { Fault::None };
    if reached {
        rep.count("faults_reached");
    }
    match (&res, effective) {
        (Ok(()), Fault::None) => {
            rep.count("outcome/ok");
            if s.settings != TARGET {
                fail(rep, "wrong_final_settings", format!("Ok but the port is at {:?}", s.settings));
            }
            match (s.timeout, entry) {
                (None, _) => fail(rep, "no_timeout_applied", "Ok but no read timeout was applied".into()),
                (Some(t), Entry::ConfigurePort(want)) if t != want => fail(rep, "wrong_timeout", format!("timeout {:?}, the caller asked for {:?}", t, want)),
                (Some(t), _) => rep.seen("timeouts_applied_ms", t.as_millis().min(u128::from(u64::MAX)) as u64),
            }
        }
        (Ok(()), _) => {
            fail(rep, "failure_swallowed", format!("Ok although {:?} failed (fault reached: {})", fault, reached));
        }
        (Err((k, d)), Fault::None) => fail(rep, "spurious_error", format!("Err({:?}, {}) without any injected fault", k, d)),
        (Err((k, d)), _) => {
            rep.count("outcome/error_propagated");
            if *k != injected.0 || d != injected.1 {
                fail(rep, "error_not_the_injected_one", format!("Err({:?}, {:?}) but the port failed with {:?}", k, d, injected));
            }
        }
    }
    if rep.wants_sample() {
        rep.sample(|| J::obj(vec![("prior", J::s(format!("{:?}", prior))), ("entry", J::s(format!("{:?}", entry))), ("fault", J::s(format!("{:?}", fault))), ("result", J::s(format!("{:?}", res))), ("final", J::s(format!("{:?}", s.settings)))]));
    }
}

/// A setup that failed, then the same port set up again (by `configure_port`, or handed to a constructor) once the cause is
/// gone — and a setup on ANOTHER port right after a failed one on this thread: the second attempt is judged like a first.
fn second_attempts(prior: PortSettings, fk: usize, rep: &mut Report) {
    second_attempts_after(prior, fk, false, rep);
    // ... and after a set-up during which the port's driver PANICKED (once): the panic is caught, the thread goes on, and
    // the next set-up — of the same port or of another — does all its work
    second_attempts_after(prior, fk, true, rep);
}

fn second_attempts_after(prior: PortSettings, fk: usize, panics: bool, rep: &mut Report) {
    for fault in [Fault::ReadSettings, Fault::Baud, Fault::WriteSettings, Fault::SetTimeout] {
        for second in 0..4usize {
            let sig = format!("second-attempt|{:?}|{:?}|{}|{}|{}", prior, fault, fk, second, panics);
            rep.case(Some(fnv(sig.as_bytes())));
            let st = doubles::shared(prior);
            {
                let mut s = st.borrow_mut();
                s.fault_budget = if panics { 1 } else { usize::MAX };
                s.panic_on_fault = panics;
                match fault {
                    Fault::None => {}
                    Fault::ReadSettings => s.fail_read_settings = Some(FAULT_KINDS[fk]),
                    Fault::Baud => s.fail_baud = Some(FAULT_KINDS[fk]),
                    Fault::WriteSettings => s.fail_write_settings = Some(FAULT_KINDS[fk]),
                    Fault::SetTimeout => s.fail_set_timeout = Some(FAULT_KINDS[fk]),
                }
            }
            let mut port = InstrPort::scripted(st.clone(), FragReader::plain(vec![]), FragWriter::new(vec![], WriteAct::Accept(usize::MAX)));
            let first = catch(|| flipdot_serial::configure_port(&mut port, Duration::from_millis(40)).is_err());
            // the cause goes away
            {
                let mut s = st.borrow_mut();
                s.fail_read_settings = None;
                s.fail_baud = None;
                s.fail_write_settings = None;
                s.fail_set_timeout = None;
                s.panic_on_fault = false;
                s.log.clear();
            }
            // the second attempt: on the same port (three ways), or on a fresh port with the same prior settings
            let st2 = if second == 3 { doubles::shared(prior) } else { st.clone() };
            let r = catch(|| -> Result<(), String> {
                match second {
                    0 => flipdot_serial::configure_port(&mut port, Duration::from_millis(41)).map_err(|e| e.to_string()),
                    1 => SerialSignBus::try_new(port).map(|_| ()).map_err(|e| e.to_string()),
                    2 => Odk::try_new(port, VirtualSignBus::new(vec![])).map(|_| ()).map_err(|e| e.to_string()),
                    _ => {
                        let mut p2 = InstrPort::scripted(st2.clone(), FragReader::plain(vec![]), FragWriter::new(vec![], WriteAct::Accept(usize::MAX)));
                        flipdot_serial::configure_port(&mut p2, Duration::from_millis(42)).map_err(|e| e.to_string())
                    }
                }
            });
            let s = st2.borrow();
            // (a panicking first attempt counts as a failed one)
            let first = match first {
                Err(_) if panics => Ok(true),
                Ok(_) if panics => Ok(false),
                other => other,
            };
            if panics {
                rep.count("second_attempts_after_a_panicking_setup");
            }
            let what = match (&first, &r) {
                (Ok(true), Ok(Ok(()))) if s.settings == TARGET && s.timeout.is_some() && (second != 0 || s.timeout == Some(Duration::from_millis(41))) => None,
                (Ok(true), Ok(Ok(()))) => Some(format!("the second attempt returned Ok but the port is at {:?}, timeout {:?}", s.settings, s.timeout)),
                (Ok(true), Ok(Err(e))) => Some(format!("the second attempt failed ({}) although the port no longer refuses anything", e)),
                (Ok(false), _) => Some("the first attempt returned although the port refused (or its driver panicked)".to_string()),
                (Err(p), _) | (_, Err(p)) => Some(format!("panic {} at {}", p.msg, short_loc(&p.loc))),
            };
            match what {
                None => rep.count("second_attempts_ok"),
                Some(w) => rep.violation(MON, "second_attempt_after_a_failed_setup", &sig, format!("setup of a port at {:?} failed at {:?} ({:?}); then {}: {}", prior, fault, FAULT_KINDS[fk].0, ["configure_port on the same port", "SerialSignBus::try_new on the same port", "Odk::try_new on the same port", "configure_port on another port"][second], w), J::obj(vec![("workload", J::s("second attempt")), ("prior", J::s(format!("{:?}", prior))), ("fault", J::s(format!("{:?}", fault))), ("second", J::us(second)), ("observed", J::s(w.clone()))])),
            }
        }
    }
}

/// Ports whose present framing the settings enums cannot name (1.5 stop bits, mark parity, 9 data bits — a Windows DCB or a
/// pseudo-terminal can be in such a state): the getters for character size, parity and stop bits answer `None` until
/// something has been set. The port still ends up at 19200 8N1.
fn ports_with_unnameable_framing(prior: PortSettings, rep: &mut Report) {
    for entry in 0..3usize {
        let sig = format!("unnameable-framing|{:?}|{}", prior, entry);
        rep.case(Some(fnv(sig.as_bytes())));
        let st = doubles::shared(prior);
        st.borrow_mut().opaque_framing = true;
        let port = InstrPort::scripted(st.clone(), FragReader::plain(vec![]), FragWriter::new(vec![], WriteAct::Accept(usize::MAX)));
        let r = catch(|| match entry {
            0 => {
                let mut p = port;
                flipdot_serial::configure_port(&mut p, Duration::from_millis(250)).map_err(|e| e.to_string())
            }
            1 => SerialSignBus::try_new(port).map(|_| ()).map_err(|e| e.to_string()),
            _ => Odk::try_new(port, VirtualSignBus::new(vec![])).map(|_| ()).map_err(|e| e.to_string()),
        });
        let s = st.borrow();
        let what = match r {
            Err(p) => Some(format!("panic {} at {}", p.msg, short_loc(&p.loc))),
            Ok(Err(e)) => Some(format!("failed ({}) although the port refuses nothing", e)),
            Ok(Ok(())) if s.settings != TARGET => Some(format!("Ok but the port is at {:?}", s.settings)),
            Ok(Ok(())) if s.timeout.is_none() => Some("Ok but no read timeout was applied".to_string()),
            Ok(Ok(())) => None,
        };
        match what {
            None => rep.count("setups_of_ports_with_unnameable_framing_ok"),
            Some(w) => rep.violation(MON, "wrong_final_settings", &sig, format!("{} on a port at {:?} whose framing getters answer None until something is set: {}", ["configure_port", "SerialSignBus::try_new", "Odk::try_new"][entry], prior, w), J::obj(vec![("workload", J::s("unnameable framing")), ("prior", J::s(format!("{:?}", prior))), ("observed", J::s(w.clone()))])),
        }
    }
}

/// Ports that implement `SerialPort` themselves and call the setup more than once (a rehearsal on scratch settings, then
/// the live run): the last call counts, and the port ends up at 19200 8N1 like any other.
fn careful_ports(prior: PortSettings, rep: &mut Report) {
    for rehearsals in [1usize, 2] {
        for entry in 0..3usize {
            let sig = format!("careful-port|{:?}|{}|{}", prior, rehearsals, entry);
            rep.case(Some(fnv(sig.as_bytes())));
            let st = doubles::shared(prior);
            let port = doubles::CarefulPort { st: st.clone(), rehearsals };
            let r = catch(|| match entry {
                0 => {
                    let mut p = port;
                    flipdot_serial::configure_port(&mut p, Duration::from_millis(250)).map_err(|e| e.to_string())
                }
                1 => SerialSignBus::try_new(port).map(|_| ()).map_err(|e| e.to_string()),
                _ => Odk::try_new(port, VirtualSignBus::new(vec![])).map(|_| ()).map_err(|e| e.to_string()),
            });
            let s = st.borrow();
            let what = match r {
                Err(p) => Some(format!("panic {} at {}", p.msg, short_loc(&p.loc))),
                Ok(Err(e)) => Some(format!("failed ({}) although the port refuses nothing", e)),
                Ok(Ok(())) if s.settings != TARGET => Some(format!("Ok but the port is at {:?}", s.settings)),
                Ok(Ok(())) if s.timeout.is_none() => Some("Ok but no read timeout was applied".to_string()),
                Ok(Ok(())) => None,
            };
            match what {
                None => rep.count("careful_port_setups_ok"),
                Some(w) => rep.violation(MON, "wrong_final_settings", &sig, format!("{} on a port at {:?} that rehearses the setup {} time(s) on scratch settings before it applies it: {}", ["configure_port", "SerialSignBus::try_new", "Odk::try_new"][entry], prior, rehearsals, w), J::obj(vec![("workload", J::s("careful port")), ("prior", J::s(format!("{:?}", prior))), ("rehearsals", J::us(rehearsals)), ("observed", J::s(w.clone()))])),
            }
        }
    }
}

/// Several ports brought up AT THE SAME TIME, each on a thread of its own (a controller's bus and a bridge started
/// together; one process serving several lines), some of them slow to apply settings: each constructor that returns Ok
/// must leave ITS port at 19200 8N1 without flow control with a timeout applied, whatever the others are doing.
fn concurrent_setups(rounds: usize, rep: &mut Report) {
    use std::sync::{Arc, Barrier};
    for round in 0..rounds {
        let n = 2 + round % 3;
        let barrier = Arc::new(Barrier::new(n));
        let handles: Vec<_> = (0..n)
            .map(|t| {
                let barrier = barrier.clone();
                std::thread::spawn(move || -> (String, Result<(), String>, PortSettings, Option<Duration>, usize) {
                    let prior = PortSettings { baud_rate: BAUDS[(round + t) % BAUDS.len()], char_size: SIZES[(round + 2 * t) % SIZES.len()], parity: PARITIES[(round + t) % PARITIES.len()], stop_bits: STOPS[(round / 2 + t) % STOPS.len()], flow_control: FLOWS[(round + t) % FLOWS.len()] };
                    let st = doubles::shared(prior);
                    // thread 0 is the slow one in even rounds, the last thread in odd rounds; every third round nobody is
                    let slow = match round % 3 {
                        0 => t == 0,
                        1 => t == n - 1,
                        _ => false,
                    };
                    st.borrow_mut().settings_stall = slow.then(|| Duration::from_millis(4 + (round % 5) as u64));
                    let port = InstrPort::scripted(st.clone(), FragReader::plain(vec![]), FragWriter::new(vec![], WriteAct::Accept(usize::MAX)));
                    let entry = (round + t) % 3;
                    barrier.wait();
                    // the fast ones start while the slow one is in the middle of its setup
                    if !slow && round % 2 == 0 {
                        std::thread::sleep(Duration::from_millis(1));
                    }
                    let r = std::panic::catch_unwind(std::panic::AssertUnwindSafe(|| match entry {
                        0 => {
                            let mut p = port;
                            flipdot_serial::configure_port(&mut p, Duration::from_millis(1234)).map_err(|e| e.to_string())
                        }
                        1 => SerialSignBus::try_new(port).map(|_| ()).map_err(|e| e.to_string()),
                        _ => Odk::try_new(port, VirtualSignBus::new(vec![])).map(|_| ()).map_err(|e| e.to_string()),
                    }));
                    let r = match r {
                        Ok(r) => r,
                        Err(_) => Err("PANIC".to_string()),
                    };
                    let s = st.borrow();
                    (format!("thread {} ({}, port at {:?}{})", t, ["configure_port", "SerialSignBus::try_new", "Odk::try_new"][entry], prior, if slow { ", slow to apply settings" } else { "" }), r, s.settings, s.timeout, s.log.len())
                })
            })
            .collect();
        for h in handles {
            let sig = format!("concurrent-setups|round {}", round);
            rep.case(Some(fnv(sig.as_bytes()) ^ rep.get("concurrent_setups")));
            rep.count("concurrent_setups");
            let fail = |rep: &mut Report, class: &str, what: String| {
                rep.violation(MON, class, &sig, format!("{} ports set up at the same time, round {}: {}", n, round, what), J::obj(vec![("workload", J::s("concurrent setups")), ("round", J::us(round)), ("observed", J::s(what.clone()))]));
            };
            match h.join() {
                Err(_) => fail(rep, "panic", "a setup thread died".into()),
                Ok((who, Err(e), ..)) => fail(rep, if e == "PANIC" { "panic" } else { "spurious_error" }, format!("{}: {} without any injected fault", who, e)),
                Ok((who, Ok(()), settings, timeout, events)) => {
                    if settings != TARGET {
                        fail(rep, "wrong_final_settings", format!("{}: Ok but the port is at {:?} ({} port calls were made)", who, settings, events));
                    } else if timeout.is_none() {
                        fail(rep, "no_timeout_applied", format!("{}: Ok but no read timeout was applied", who));
                    } else {
                        rep.count("concurrent_setups_ok");
                    }
                }
            }
        }
    }
}

pub fn run(ctx: &Ctx) -> Outcome {
    let mut priors = vec![];
    for b in BAUDS {
        for c in SIZES {
            for p in PARITIES {
                for s in STOPS {
                    for f in FLOWS {
                        priors.push(PortSettings { baud_rate: b, char_size: c, parity: p, stop_bits: s, flow_control: f });
                    }
                }
            }
        }
    }
    let np = priors.len();
    let report = run_sharded(ctx, np, |i, rep| {
        let prior = priors[i];
        let entries = [Entry::ConfigurePort(Duration::from_millis(0)), Entry::ConfigurePort(Duration::from_millis(1)), Entry::ConfigurePort(Duration::from_millis(5_000)), Entry::ConfigurePort(Duration::from_millis(3_600_000)), Entry::SerialSignBus, Entry::Odk];
        for (j, e) in entries.into_iter().enumerate() {
            for fault in [Fault::None, Fault::ReadSettings, Fault::Baud, Fault::WriteSettings, Fault::SetTimeout] {
                run_case(prior, e, fault, (i + j) % FAULT_KINDS.len(), rep);
            }
        }
        // transient refusals: the fault fires only once (or twice), at every fault point, for every entry point
        for (j, e) in [Entry::ConfigurePort(Duration::from_millis(777)), Entry::SerialSignBus, Entry::Odk].into_iter().enumerate() {
            for fault in [Fault::ReadSettings, Fault::Baud, Fault::WriteSettings, Fault::SetTimeout] {
                for budget in [1usize, 2] {
                    run_case_budget(prior, e, fault, (i + j + budget) % FAULT_KINDS.len(), budget, rep);
                }
            }
        }
        // the caller's timeout is applied as given, whatever its magnitude or granularity (no fault, a few priors per shard)
        if i % 8 == 0 {
            for t in [
                Duration::from_nanos(1),
                Duration::from_micros(600),
                Duration::from_micros(1_563),
                Duration::from_millis(1) + Duration::from_nanos(1),
                Duration::from_millis(999) + Duration::from_nanos(999_999),
                Duration::from_secs(24 * 24 * 3600),
                Duration::from_secs(30 * 24 * 3600),
                Duration::from_secs(u64::from(u32::MAX) + 1),
                Duration::new(u64::MAX / 1000, 999_999_999),
                Duration::MAX,
            ] {
                run_case(prior, Entry::ConfigurePort(t), Fault::None, 0, rep);
                rep.count("unusual_timeouts_applied");
            }
        }
        // a port that has been set up before: it already carries a read timeout — the very one the call is going to ask
        // for (5 s for the bus, 10 s for the bridge, the caller's own value), or another one. Every error kind at every
        // fault point must still surface, and the line settings must still be written.
        if i % 4 == 1 {
            for pt in [Duration::from_secs(5), Duration::from_secs(10), Duration::from_millis(777), Duration::from_secs(1)] {
                PRIOR_TIMEOUT.with(|c| c.set(Some(pt)));
                // (a requested timeout of zero is a timeout like any other: it replaces the one the port carries)
                for e in [Entry::ConfigurePort(Duration::from_millis(777)), Entry::ConfigurePort(Duration::ZERO), Entry::SerialSignBus, Entry::Odk] {
                    run_case(prior, e, Fault::None, 0, rep);
                    for fk in 0..FAULT_KINDS.len() {
                        for fault in [Fault::ReadSettings, Fault::Baud, Fault::WriteSettings, Fault::SetTimeout] {
                            run_case(prior, e, fault, fk, rep);
                            rep.count("cases_on_a_port_with_a_timeout_already_set");
                        }
                    }
                }
                PRIOR_TIMEOUT.with(|c| c.set(None));
            }
        }
        // every error kind at every fault point (persistent faults), on a few priors per shard
        if i % 16 == 0 || !ctx.quick() {
            for fk in 0..FAULT_KINDS.len() {
                for e in [Entry::ConfigurePort(Duration::from_millis(250)), Entry::SerialSignBus, Entry::Odk] {
                    for fault in [Fault::ReadSettings, Fault::Baud, Fault::WriteSettings, Fault::SetTimeout] {
                        run_case(prior, e, fault, fk, rep);
                        rep.seen("fault_kind_x_point", (fk * 4 + fault as usize) as u64);
                    }
                }
            }
        }
        if i == 0 {
            // one port object configured 70 000 times in a row (its settings disturbed in between): the last time
            // like the first
            let st = doubles::shared(prior);
            let mut p = InstrPort::scripted(st.clone(), FragReader::plain(vec![]), FragWriter::new(vec![], WriteAct::Accept(usize::MAX)));
            for k in 0..70_000u64 {
                if k % 64 == 0 && crate::util::soft_deadline_passed() {
                    rep.count("loops_cut_short_at_the_soft_deadline");
                    break;
                }
                let t = Duration::from_micros(1 + k * 37);
                let r = catch(|| flipdot_serial::configure_port(&mut p, t).map_err(|e| e.to_string()));
                let ok = {
                    let s = st.borrow();
                    matches!(r, Ok(Ok(()))) && s.settings == TARGET && s.timeout == Some(t)
                };
                if !ok {
                    let s = st.borrow();
                    rep.violation(MON, "repeated_setup", &format!("repeat-{}", k), format!("configure_port call #{} on one port object: result {:?}, settings {:?}, timeout {:?} (asked for {:?})", k, r.map_err(|p| p.msg), s.settings, s.timeout, t), J::obj(vec![("call", J::Int(k as i128))]));
                    break;
                }
                let mut s = st.borrow_mut();
                s.log.clear();
                s.settings = priors[(k as usize * 7) % priors.len()];
                s.timeout = None;
                drop(s);
                rep.count("repeated_setups_of_one_port");
            }
        }
        if i % 8 == 3 || !ctx.quick() {
            second_attempts(prior, i % FAULT_KINDS.len(), rep);
        }
        if i == 2 {
            // prior rates at the ends of what `BaudOther(usize)` can hold, and around every power of two a narrower integer
            // would wrap at: whatever arithmetic is done on the old rate, the port ends up at 19200 8N1 or the call fails
            let mut rates: Vec<usize> = vec![1, 2, 3, 49, 50, 51, 109, 110, 111, 19_199, 19_201, usize::MAX / 2, usize::MAX - 1, usize::MAX];
            for p in [8u32, 15, 16, 24, 31, 32, 33, 40, 48, 63] {
                let b = 1usize << p;
                rates.extend([b - 1, b, b + 1, b + 19_200, b.wrapping_mul(3)]);
            }
            for (k, rate) in rates.into_iter().enumerate() {
                let prior = PortSettings { baud_rate: BaudRate::BaudOther(rate), char_size: SIZES[k % 4], parity: PARITIES[k % 3], stop_bits: STOPS[k % 2], flow_control: FLOWS[k % 3] };
                for e in [Entry::ConfigurePort(Duration::from_millis(250)), Entry::SerialSignBus, Entry::Odk] {
                    for fault in [Fault::None, Fault::Baud, Fault::WriteSettings] {
                        run_case(prior, e, fault, k % FAULT_KINDS.len(), rep);
                    }
                }
                rep.count("extreme_prior_rates");
            }
        }
        if i % 8 == 5 || !ctx.quick() {
            // one- and two-shot refusals of every kind at set_timeout (and the other fault points) under timeouts far beyond what
            // 32 bits of milliseconds hold
            for (j, t) in [Duration::from_millis(u64::from(u32::MAX) + 1), Duration::from_secs(50 * 86_400), Duration::from_secs(1 << 33), Duration::MAX].into_iter().enumerate() {
                for fault in [Fault::SetTimeout, Fault::WriteSettings] {
                    for budget in [1usize, 2] {
                        run_case_budget(prior, Entry::ConfigurePort(t), fault, (i + j) % FAULT_KINDS.len(), budget, rep);
                        rep.count("transient_faults_under_huge_timeouts");
                    }
                }
            }
        }
        careful_ports(prior, rep);
        ports_with_unnameable_framing(prior, rep);
        if i == 1 {
            concurrent_setups(if ctx.quick() { 45 } else { 600 }, rep);
        }
        rep.count("priors_done");
    });
    let mut floors = vec![
        floor("all 1080 prior settings", report.get("priors_done") == 1080, report.get("priors_done")),
        floor("transient (one- and two-shot) refusals at every fault point for every prior", report.get("transient_fault_cases") >= 1080 * 3 * 4 * 2, report.get("transient_fault_cases")),
        floor("sub-millisecond, fractional and very long caller timeouts", report.get("unusual_timeouts_applied") == 135 * 10, report.get("unusual_timeouts_applied")),
        floor("ports that already carry a read timeout (equal to / different from the one asked for), every error kind at every fault point", report.get("cases_on_a_port_with_a_timeout_already_set") == (270 * 4 * 4 * FAULT_KINDS.len() * 4) as u64, report.get("cases_on_a_port_with_a_timeout_already_set")),
        floor("one port object configured 70 000 times", report.get("repeated_setups_of_one_port") == 70_000, report.get("repeated_setups_of_one_port")),
        floor("a setup during which the port's driver panicked once (at each of the four points), then a second attempt on the same thread (same port three ways, another port)", report.get("second_attempts_after_a_panicking_setup") >= 135 * 16 && report.get("second_attempts_ok") >= 135 * 32, format!("{} after a panic, {} second attempts in order", report.get("second_attempts_after_a_panicking_setup"), report.get("second_attempts_ok"))),
        floor("a failed setup followed by a second attempt (same port three ways, another port) once the cause is gone", report.get("second_attempts_ok") >= 135 * 16, report.get("second_attempts_ok")),
        floor("prior rates at the ends of usize and around 2^8 .. 2^63", report.get("extreme_prior_rates") == 64, report.get("extreme_prior_rates")),
        floor("ports that implement SerialPort themselves and rehearse the setup on scratch settings before applying it (all 1080 priors x 1 or 2 rehearsals x 3 entry points)", report.get("careful_port_setups_ok") == 1080 * 6, report.get("careful_port_setups_ok")),
        floor("ports whose framing getters answer None until something is set (all 1080 priors x 3 entry points)", report.get("setups_of_ports_with_unnameable_framing_ok") == 1080 * 3, report.get("setups_of_ports_with_unnameable_framing_ok")),
        floor("one- and two-shot refusals at set_timeout / write_settings under timeouts beyond 2^32 ms", report.get("transient_faults_under_huge_timeouts") >= 135 * 16, report.get("transient_faults_under_huge_timeouts")),
        floor("two to four ports set up at the same time on threads of their own, one of them slow to apply settings", report.get("concurrent_setups_ok") >= 100, report.get("concurrent_setups_ok")),
        floor("every error kind (7, incl. Interrupted) at every fault point (4)", report.set_len("fault_kind_x_point") == 28, report.set_len("fault_kind_x_point")),
    ];
    for e in ["configure_port", "SerialSignBus", "Odk"] {
        for f in ["None", "ReadSettings", "Baud", "WriteSettings", "SetTimeout"] {
            let n = report.get(&format!("cells/{}/{}", e, f));
            floors.push(floor(&format!("cell {} x fault {}", e, f), n >= 1080, n));
        }
    }
    Outcome {
        report,
        level: "fault_enumeration",
        rule: "complete product: 15 baud values (the 12 named rates and BaudOther(250000), BaudOther(19200), BaudOther(0)) x 4 character sizes x 3 parities x 2 stop bits x 3 flow controls = 1080 prior settings x 3 entry points (configure_port with timeouts 0, 1 ms, 5 s, 1 h, and on every 8th prior 1 ns, 600 us, 1563 us, 1 ms + 1 ns, 999.999999 ms, 24 and 30 days, 2^32 s, Duration::MAX; SerialSignBus::try_new; Odk::try_new) x (no fault + a persistent failure of read_settings / baud-rate setter / write_settings / set_timeout), plus one- and two-shot refusals at every fault point for every prior, plus all 7 error kinds (NoDevice, InvalidInput, Io(PermissionDenied / Interrupted / TimedOut / WouldBlock / Other)) at every fault point on a sample of priors; distinct by (prior, entry, fault); all non-trivial".into(),
        exhaustive: true,
        floors,
        assumptions: vec![
            "the instrumented device's log lives in an Rc<RefCell> and survives the port being moved into (and dropped by) the constructor".into(),
            "the constructors' own timeout values are recorded, not asserted".into(),
        ],
        extra: vec![],
    }
}
