#!/usr/bin/env python3
"""Generates seeded/README.md from seeded/*/meta.json and mutants/RESULTS.md from mutants/RESULTS.txt."""
import json, glob, os, re
here=os.path.dirname(os.path.dirname(os.path.abspath(__file__)))
rows=[]
for m in sorted(glob.glob(os.path.join(here,'seeded','*','meta.json'))):
    d=json.load(open(m)); sid=d['seed_id']
    notes=os.path.join(os.path.dirname(m),'NOTES.md')
    what=d.get('summary','')
    if not what and os.path.exists(notes):
        txt=open(notes).read()
        mm=re.search(r'## The change\s+(.*?)\n\s*\n', txt, re.S)
        what=(mm.group(1) if mm else txt[:300]).replace('\n',' ')
        what=re.sub(r'\s+',' ',what)[:260]
    caught=[c['property'] for c in d['check_results'] if c['exit']==1]
    silent=[c['property'] for c in d['check_results'] if c['exit']==0]
    inconc=[c['property'] for c in d['check_results'] if c['exit'] not in (0,1)]
    rows.append((sid,(d['effective_property']+' (seeded as '+d['breaks_property']+')') if d.get('effective_property') else d['breaks_property'],'yes' if d['confirmed_by_us'] else 'NO',', '.join(caught) or '—',', '.join(silent) or '—',', '.join(inconc) or '—',what,d.get('needs_to_manifest','')))
out=["# Independently seeded changes and which checks catch them","",
"Each directory holds `patch.diff` (the change to alusch/flipdot), the demonstration test, the author's `NOTES.md` (what is needed for it to manifest) and `meta.json` (what we ran).",
"Written by fresh sub-agents that saw only the property text and a scratch worktree; confirmed by `seeded/verify.sh` (demo fails with the patch and passes without it, the existing suite passes with it); then applied to /repo, the quick checks run, and undone.","",
"| seed | property | confirmed | checks that report a VIOLATION | checks run that stay silent | inconclusive | the change | what it needs to manifest |","|---|---|---|---|---|---|---|---|"]
for r in rows: out.append("| %s | %s | %s | %s | %s | %s | %s | %s |"%r)
missed=[r for r in rows if r[1].split(' ')[0] not in [c.split(' ')[0] for c in r[3].split(', ')]]
out+=["","Seeds not caught by the check of the property they target (quick tier, unless the entry says thorough): %s"%(', '.join(r[0] for r in missed) or 'none'),""]
open(os.path.join(here,'seeded','README.md'),'w').write('\n'.join(out))
print('seeded/README.md:',len(rows),'seeds;',len(missed),'missed by own property check')
resfiles=[f for f in sorted(glob.glob(os.path.join(here,'mutants','RESULTS*.txt')))]
if resfiles:
    latest={}
    import itertools
    for l in itertools.chain.from_iterable(open(f) for f in resfiles):
        l=l.rstrip('\n')
        if not l or ' ' not in l: continue
        name,rest=l.split(' ',1)
        if '__' not in name: continue
        latest[name]=rest
    out=["# Monitor self-test: hand-written mutants","",
    "`mutants/run.sh` applies each patch to a scratch copy of /repo's HEAD, runs the repository's own suite (mutants it catches are DISCARDED), then runs the quick checks of the properties named in the file name against the copy.","",
    "| mutant | outcome | detail |","|---|---|---|"]
    k=s=d=0
    for name in sorted(latest):
        rest=latest[name]
        oc=rest.split(' ',1)[0]
        if oc=='KILLED': k+=1
        elif oc=='SURVIVED': s+=1
        elif oc.startswith('DISCARDED'): d+=1
        out.append("| %s | %s | %s |"%(name,oc,rest[len(oc):].strip().replace('|','\\|')[:300]))
    out+=["","killed %d, survived %d, discarded by the repository's own tests %d, other %d"%(k,s,d,len(latest)-k-s-d),""]
    open(os.path.join(here,'mutants','RESULTS.md'),'w').write('\n'.join(out))
    print('mutants/RESULTS.md: killed',k,'survived',s,'discarded',d)

# ---- systematic mutants (mutants/AUTO_RESULTS.*.txt)
auto=sorted(glob.glob(os.path.join(here,'mutants','AUTO_RESULTS.*.txt')))
if auto:
    tri=json.load(open(os.path.join(here,'mutants','auto_triage.json')))['patterns']
    latest={}
    for f in auto:
        for l in open(f):
            l=l.rstrip('\n')
            if ' ' not in l or '__auto_' not in l.split(' ',1)[0]: continue
            name,rest=l.split(' ',1); latest[name]=rest
    k=sum(1 for r in latest.values() if r.startswith('KILLED'))
    d=[n for n,r in latest.items() if r.startswith('DISCARDED')]
    nocompile=[n for n in d if 'rc=2' in latest[n] and 'rc=0' not in latest[n] and 'rc=1' not in latest[n]]
    sv=[n for n,r in latest.items() if r.startswith('SURVIVED')]
    out=["# Systematic mutants (tools/automut.py)","",
    "One operator application per mutant (relational / boolean / arithmetic operator swaps, integer literal + 1, `?` dropped, address guard removed) on every code line of the library sources outside doc comments and test modules. `mutants/run.sh --checks-first` runs the checks of the properties anchored in the mutated file against a scratch copy; only mutants that survive them are run through the repository's own suite.","",
    "* generated: %d (in `mutants/auto/`), results recorded: %d"%(len(os.listdir(os.path.join(here,'mutants','auto'))),len(latest)),
    "* **killed by a check: %d**"%k,
    "* discarded: %d (of which %d do not compile — harness build fails too; the rest are caught by the repository's suite but change nothing our properties speak about, see below)"%(len(d),len(nocompile)),
    "* survived checks and suite: %d — each triaged below"%len(sv),"",
    "## Survivors","","| mutant | triage |","|---|---|"]
    def why(n):
        for t in tri:
            if t['match'] in n and (not t.get('files') or any('auto_'+f+'_' in n for f in t['files'])): return t['reason']
        return 'UNTRIAGED'
    for n in sorted(sv): out.append("| %s | %s |"%(n,why(n)))
    caught_by_suite_only=[n for n in d if n not in nocompile]
    out+=["","## Caught by the repository's suite but not by our checks","","| mutant | our checks | triage |","|---|---|---|"]
    for n in sorted(caught_by_suite_only): out.append("| %s | %s | %s |"%(n,latest[n][latest[n].find('our checks'):].rstrip(')')[:80],why(n)))
    out.append("")
    open(os.path.join(here,'mutants','AUTO_RESULTS.md'),'w').write('\n'.join(out))
    print('mutants/AUTO_RESULTS.md: killed',k,'discarded',len(d),'(no-compile',len(nocompile),') survived',len(sv),'untriaged',sum(1 for n in sv+caught_by_suite_only if why(n)=='UNTRIAGED'))

# ---- second systematic set (mutants/AUTO2_RESULTS.*.txt, tools/automut2.py)
auto2=sorted(glob.glob(os.path.join(here,'mutants','AUTO2_RESULTS.*.txt')))
if auto2:
    tri=json.load(open(os.path.join(here,'mutants','auto_triage.json')))['patterns']
    latest={}
    for f in auto2:
        for l in open(f):
            l=l.rstrip('\n')
            if ' ' not in l or '__auto2_' not in l.split(' ',1)[0]: continue
            name,rest=l.split(' ',1); latest[name]=rest
    def why2(n):
        for t in tri:
            if t['match'] in n: return t['reason']
        return 'UNTRIAGED'
    k=[n for n,r in latest.items() if r.startswith('KILLED')]
    d=[n for n,r in latest.items() if r.startswith('DISCARDED')]
    nocompile=[n for n in d if 'rc=2' in latest[n] and 'rc=0' not in latest[n] and 'rc=1' not in latest[n]]
    sv=[n for n,r in latest.items() if r.startswith('SURVIVED')]
    out=["# Second systematic mutant set (tools/automut2.py)","",
    "Statement deletion (one-line statements other than declarations and log macros), `break`/`continue` deletion, negated `if` conditions and `wrapping_add(1)` dropped, on the same nine source files. Run with `mutants/run.sh --checks-first`.","",
    "* generated: %d (in `mutants/auto2/`), results recorded: %d"%(len(os.listdir(os.path.join(here,'mutants','auto2'))),len(latest)),
    "* **killed by a check: %d**"%len(k),
    "* discarded: %d (of which %d do not compile)"%(len(d),len(nocompile)),
    "* survived checks and suite: %d"%len(sv),"",
    "## Survivors","","| mutant | triage |","|---|---|"]
    for n in sorted(sv): out.append("| %s | %s |"%(n,why2(n)))
    rest=[n for n in d if n not in nocompile]
    out+=["","## Caught by the repository's suite but not by our checks","","| mutant | triage |","|---|---|"]
    for n in sorted(rest): out.append("| %s | %s |"%(n,why2(n)))
    out.append("")
    open(os.path.join(here,'mutants','AUTO2_RESULTS.md'),'w').write('\n'.join(out))
    print('mutants/AUTO2_RESULTS.md: killed',len(k),'discarded',len(d),'(no-compile',len(nocompile),') survived',len(sv),'untriaged',sum(1 for n in sv+rest if why2(n)=='UNTRIAGED'))
