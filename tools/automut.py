#!/usr/bin/env python3
"""Systematic mutant generator: applies simple operators to every code line of the library sources (doc comments,
attribute strings and the #[cfg(test)] modules excluded) and writes one patch per mutant to mutants/auto/.
File name = <props>__auto_<file>_<line>_<op>.diff so that mutants/run.sh knows which checks to run."""
import os, re, difflib, sys

HERE = os.path.dirname(os.path.dirname(os.path.abspath(__file__)))
OUT = os.path.join(HERE, 'mutants', 'auto')
os.makedirs(OUT, exist_ok=True)
for f in os.listdir(OUT):
    os.remove(os.path.join(OUT, f))

FILES = {
    'libs/core/src/frame.rs': 'C01-C02-C03-C15',
    'libs/core/src/message.rs': 'C04-C05',
    'libs/core/src/page.rs': 'C06-C07',
    'libs/core/src/sign_type.rs': 'C19',
    'src/sign.rs': 'C09-C10-C11-C08',
    'libs/testing/src/virtual_sign_bus.rs': 'C13-C12-C14-C08',
    'libs/serial/src/serial_sign_bus.rs': 'C16-C18-C20',
    'libs/serial/src/serial_port.rs': 'C20',
    'libs/testing/src/odk.rs': 'C17-C20',
}

OPS = [
    ('eq2ne', r'(?<![=!<>])==(?!=)', '!='),
    ('ne2eq', r'!=(?!=)', '=='),
    ('lt2le', r'(?<![<-])<(?![<=])(?=\s)', '<='),
    ('gt2ge', r'(?<![->=])>(?![>=])(?=\s)', '>='),
    ('ge2gt', r'>=', '>'),
    ('le2lt', r'<=', '<'),
    ('and2or', r'&&', '||'),
    ('or2and', r'\|\|', '&&'),
    ('plus2minus', r'(?<=\s)\+(?=\s)', '-'),
    ('minus2plus', r'(?<=\s)-(?=\s)', '+'),
    ('mul2div', r'(?<=\s)\*(?=\s)', '/'),
    ('div2mul', r'(?<=\s)/(?=\s)', '*'),
    ('rem2div', r'(?<=\s)%(?=\s)', '/'),
    ('true2false', r'\btrue\b', 'false'),
    ('false2true', r'\bfalse\b', 'true'),
    ('some2none_guard', r'\bif address == self\.address\b', 'if true'),
    ('dropq', r'\)\?;', ').ok();'),
]

def int_mutations(line):
    """n -> n+1 for decimal / hex literals that are not part of identifiers, one at a time."""
    out = []
    for m in re.finditer(r'(?<![\w.])(0x[0-9A-Fa-f]+|\d+)(?![\w.]|\s*\.\.)', line):
        tok = m.group(1)
        try:
            v = int(tok, 16) if tok.startswith('0x') else int(tok)
        except ValueError:
            continue
        new = ('0x%X' % (v + 1)) if tok.startswith('0x') else str(v + 1)
        out.append(('int+1@%d' % m.start(), line[:m.start(1)] + new + line[m.end(1):]))
    return out

count = 0
for rel, props in FILES.items():
    src = open(os.path.join('/repo', rel)).read().split('\n')
    end = len(src)
    for i, l in enumerate(src):
        if l.strip() == '#[cfg(test)]':
            end = i
            break
    in_attr = False
    for i in range(end):
        line = src[i]
        st = line.strip()
        if not st or st.startswith('//') or st.startswith('#[') or st.startswith('#!['):
            in_attr = st.startswith('#[') and not st.endswith(']')
            continue
        if in_attr:
            if st.endswith(']') or st.endswith(')]'):
                in_attr = False
            continue
        if st.startswith('"') or 'Regex::new' in line or st.startswith('use ') or st.startswith('pub use'):
            continue
        # big literal tables (type blocks): mutate at most the first literal on the line
        cands = []
        for name, pat, rep in OPS:
            for k, m in enumerate(re.finditer(pat, line)):
                cands.append(('%s%d' % (name, k), line[:m.start()] + rep + line[m.end():]))
        ints = int_mutations(line)
        if line.count('0x') > 4:
            ints = ints[:2]
        cands += ints
        for name, new in cands:
            if new == line:
                continue
            mutated = src[:]
            mutated[i] = new
            diff = ''.join(difflib.unified_diff([x + '\n' for x in src], [x + '\n' for x in mutated], 'a/' + rel, 'b/' + rel))
            base = os.path.basename(rel)[:-3]
            fn = '%s__auto_%s_%d_%s.diff' % (props, base, i + 1, re.sub(r'[^A-Za-z0-9+]', '', name))
            open(os.path.join(OUT, fn), 'w').write(diff)
            count += 1
print(count, 'mutants written to', OUT)
