#!/usr/bin/env python3
"""Second systematic mutant set (mutants/auto2/): statement deletion, break/continue deletion, negated if-conditions,
wrapping_add(1) dropped. Same naming convention as automut.py; run with mutants/run.sh --checks-first."""
import os, re, difflib
HERE = os.path.dirname(os.path.dirname(os.path.abspath(__file__)))
OUT = os.path.join(HERE, 'mutants', 'auto2')
os.makedirs(OUT, exist_ok=True)
for f in os.listdir(OUT):
    os.remove(os.path.join(OUT, f))
FILES = {
    'libs/core/src/frame.rs': 'C01-C02-C03-C15',
    'libs/core/src/message.rs': 'C04-C05',
    'libs/core/src/page.rs': 'C06-C07',
    'libs/core/src/sign_type.rs': 'C19',
    'src/sign.rs': 'C09-C10-C11-C08',
    'libs/testing/src/virtual_sign_bus.rs': 'C13-C12-C14-C08',
    'libs/serial/src/serial_sign_bus.rs': 'C16-C18-C20',
    'libs/serial/src/serial_port.rs': 'C20',
    'libs/testing/src/odk.rs': 'C17-C20',
}
count = 0
for rel, props in FILES.items():
    src = open(os.path.join('/repo', rel)).read().split('\n')
    end = len(src)
    for i, l in enumerate(src):
        if l.strip() == '#[cfg(test)]':
            end = i
            break
    for i in range(end):
        line = src[i]
        st = line.strip()
        if not st or st.startswith('//') or st.startswith('#'):
            continue
        cands = []
        if (st.endswith(';') and not re.match(r'(let |use |pub |const |static |type |return\b|break\b|continue\b|\}|\))', st)
                and not any(m in st for m in ('debug!', 'warn!', 'info!', 'trace!')) and st.count('(') == st.count(')')):
            cands.append(('delstmt', ''))
        if st in ('break;', 'continue;'):
            cands.append(('del' + st[:-1], ''))
        m = re.search(r'\.wrapping_add\(1\)', line)
        if m:
            cands.append(('nowrapadd', line[:m.start()] + line[m.end():]))
        m = re.match(r'(\s*)(\}?\s*else\s+)?if (?!let )(.*) \{\s*$', line)
        if m and '&&' not in m.group(3) and '||' not in m.group(3):
            cands.append(('negif', '%s%sif !(%s) {' % (m.group(1), m.group(2) or '', m.group(3))))
        for name, new in cands:
            if new == line:
                continue
            mutated = src[:]
            mutated[i] = new
            diff = ''.join(difflib.unified_diff([x + '\n' for x in src], [x + '\n' for x in mutated], 'a/' + rel, 'b/' + rel))
            base = os.path.basename(rel)[:-3]
            open(os.path.join(OUT, '%s__auto2_%s_%d_%s.diff' % (props, base, i + 1, name)), 'w').write(diff)
            count += 1
print(count, 'mutants written to', OUT)
