#!/usr/bin/env python3
"""mkmut.py NAME FILE OLD NEW [FILE OLD NEW ...] — writes mutants/patches/NAME.diff replacing OLD by NEW (exactly one
occurrence each; prefix OLD with 'N:' to replace the N-th occurrence) in /repo's FILE, without touching /repo."""
import sys, difflib, os, re
here=os.path.dirname(os.path.dirname(os.path.abspath(__file__)))
name=sys.argv[1]; args=sys.argv[2:]
assert len(args)%3==0 and args
out=[]
files={}
for i in range(0,len(args),3):
    f,old,new=args[i:i+3]
    s=files.get(f) or open('/repo/'+f).read()
    files.setdefault(f+'#orig', open('/repo/'+f).read())
    m=re.match(r'^(\d+):',old)
    if m:
        n=int(m.group(1)); old=old[m.end():]
        idx=-1
        for _ in range(n):
            idx=s.index(old,idx+1)
        s=s[:idx]+new+s[idx+len(old):]
    else:
        assert s.count(old)==1, (f, old, s.count(old))
        s=s.replace(old,new)
    files[f]=s
for f in [k for k in files if not k.endswith('#orig')]:
    a=files[f+'#orig'].splitlines(keepends=True); b=files[f].splitlines(keepends=True)
    out+=list(difflib.unified_diff(a,b,'a/'+f,'b/'+f))
open(os.path.join(here,'mutants','patches',name+'.diff'),'w').write(''.join(out))
print(name, len(out),'diff lines')
