#!/usr/bin/env python3
"""Comments in/out `mod x;` lines and dispatch arms in main.rs according to which module files exist."""
import re,os
d=os.path.join(os.path.dirname(os.path.dirname(os.path.abspath(__file__))),'harness','src')
have={f[:-3] for f in os.listdir(d) if f.endswith('.rs')}
m=open(os.path.join(d,'main.rs')).read()
out=[]
for line in m.split('\n'):
    mm=re.match(r'^(// )?mod (\w+);$',line)
    if mm:
        name=mm.group(2)
        line=('mod %s;'%name) if name in have else ('// mod %s;'%name)
    mm=re.match(r'^(\s*)(// )?("C\d\d"( \| "C\d\d")?) => (\w+)::(run|replay)\((.*)\),$',line)
    if mm:
        name=mm.group(5)
        body='%s => %s::%s(%s),'%(mm.group(3),name,mm.group(6),mm.group(7))
        line=mm.group(1)+(body if name in have else '// '+body)
    out.append(line)
open(os.path.join(d,'main.rs'),'w').write('\n'.join(out))
