#!/usr/bin/env python3
"""Generates /verif/MANIFEST.json from the table below.  BUILT lists the properties whose check exists."""
import json, os, sys

HERE = os.path.dirname(os.path.dirname(os.path.abspath(__file__)))

BUILT = os.environ.get("BUILT", "").split() or [l.strip() for l in open(os.path.join(HERE, "tools", "built.txt")) if l.strip()]

P = {
 "C01": dict(cat="exploration", sec="4/C01", tech="runtime monitoring: reference-codec oracle over exhaustive field sweeps + seeded random frames",
   text="Every frame from complete sweeps of each field (all 65536 addresses, all 256 types, all 256 lengths, all byte values), the frames with the largest possible byte sums, and 2e5/2e7 random frames is encoded and decoded by the real codec while a hand-written Intel-HEX codec checks every observable (bytes, byte sum, CRLF variant, decoded frame, accessors, owned vs borrowed). Equality itself is checked (clones equal and hash alike; a frame differing in any one field compares unequal). Data::try_new is tried at every length 0..=300 and around every multiple of 2^8, 2^16, 2^24 (thorough: 2^32); Data::from(&[u8; N]) is probed for N up to 256. Held-on-observed, not a proof: the product space is sampled, each field is swept completely.",
   note="Trusted: the reference codec (harness/src/refs.rs, ~80 lines, no shared code); the checked build profile."),
 "C02": dict(cat="fault_enumeration", sec="4/C02", tech="runtime monitoring: exhaustive single-fault injection on wire strings, Err-or-original oracle",
   text="For each base frame every single-character substitution (all 256 values at every position), deletion, duplication, adjacent transposition and proper prefix is decoded by the real decoder - twice in a row, and a sample also through Frame::read over a fragmenting reader; the oracle accepts only Err or the original frame, and the same verdict both times. Wrong-length and wrong-checksum strings of valid shape must be rejected with the matching error kind. The fault space per base frame is enumerated completely; base frames are hand-picked, seeded random and 'nested' frames whose suffix is itself a valid frame; generated wrong-length strings include over-long ones whose length field is right modulo 256.",
   note="Trusted: equality on Frame; reference encoder for base strings. Multi-error corruptions are outside the statement."),
 "C03": dict(cat="exploration", sec="4/C03", tech="runtime monitoring: differential oracle (independent parser) over exhaustive short strings + mutated long strings; Miri and ASan legs in the thorough tier",
   text="Every byte string over a 13-symbol structural alphabet up to length 6/7, every string over a 5-symbol alphabet up to length 11/13 (reaches accepted frames), single- and pair-perturbations of templates, 26 multi-byte (non-ASCII digit / letter / space / line-separator / ill-formed) sequences substituted and inserted at every template position, lines with the largest possible byte sums, and generated strings up to 100 kB are decoded under catch_unwind and compared with an independent parser: result class, error fields, precedence, and re-encoding of accepted strings. Every fourth generated string also goes through Frame::read, back to back on one thread. Thorough adds a Miri leg and an AddressSanitizer leg over the decoder workload.",
   note="Trusted: the reference parser; regex crate is executed, not modelled. Sanitizer legs cover only the inputs they run."),
 "C04": dict(cat="exploration", sec="4/C04", tech="runtime monitoring: code-table oracle + identity check over an exhaustive (type, first byte, length) sweep",
   text="All 256 types x 256 first bytes x lengths {0,1,2,3,16,255} x 8 addresses, every one-byte code (and its first byte under the neighbouring types) at every data length 2..=255, and all 65536 addresses for each of the 30 codes are converted Frame->Message->Frame by the real code; the monitor checks identity and compares the classification with the harness's own transcription of the protocol table.",
   note="Trusted: the table in harness/src/refs.rs (Appendix A of DESIGN.md)."),
 "C05": dict(cat="exploration", sec="4/C05", tech="runtime monitoring: wire round-trip oracle over all specific messages + injectivity map",
   text="Every specific message kind x state/operation x address (all 65536 for every code in thorough), all chunk counts, data chunks of every length 0..=255 go message->frame->bytes->frame->message through the real code and must come back equal; a map from wire bytes to message detects two messages sharing an encoding.",
   note="Trusted: Message equality; reference wire encoder used as a cross-check."),
 "C06": dict(cat="exploration", sec="4/C06", tech="runtime monitoring: lockstep bit-level page model, full pixel scan after every operation, catch_unwind for bounds",
   text="On every page size in an exhaustive box (incl. 0 and heights not a multiple of 8), the 11 real sizes, and random op sequences on fresh and borrowed pages (four of them 100 000 operations long), each set/clear/set-all is mirrored in a boolean-matrix model; after every operation all pixels, id, dims, length and padding are compared. Out-of-bounds coordinates (incl. the unused high bits of a column and u32::MAX) must panic and leave every byte unchanged, and the page stays usable afterwards. A fill or clear after exactly 255..131072 writes (the values where a narrow tally of writes returns to zero) must do what it always does.",
   note="Trusted: the page model in refs.rs. Unused high bits after set_all_pixels are deliberately not constrained."),
 "C07": dict(cat="exploration", sec="4/C07", tech="runtime monitoring: independent layout oracle over an exhaustive size box, every pixel individually",
   text="For every size in the box (q 101x49, t 257x137) plus real and large sizes (up to 70000 columns / 4000 rows, and 1 MiB pages), the new page's bytes, the exact byte/bit of every pixel (on blank pages and over borrowed bytes), and from_bytes acceptance for every length around the expected one and for lengths that match only modulo 2^8 / 2^16 / 2^24 (Vec and slice) are compared with an independent layout formula; from_bytes is probed with dimensions up to u32::MAX. Equality with from_bytes(as_bytes()) and with a new page is checked after set/clear/fill histories, clones are equal and independent, and a page is intact after refused out-of-bounds accesses.",
   note="Trusted: refs.rs layout arithmetic."),
 "C08": dict(cat="exploration", sec="4/C08", tech="runtime monitoring: postcondition monitor on the real controller driving real virtual signs from explored prior states",
   text="Prior states are the states reached by the C13 breadth-first explorer (all 13 protocol states, half-finished transfers, other types) and by abandoning real controller calls at every message index; from each the real Sign configures and sends page lists to the real VirtualSign, and the monitor checks the postconditions of the statement on the sign's accessors. Page lists just below and just above 65536 chunks (where the 16-bit chunk count wraps) are sent for every sign type. Other signs on the bus are idle or themselves left in the middle of a transfer. Runs with a Trace-level log sink installed (thorough: again with logging off).",
   note="Trusted: VirtualSign accessors; forged blocks (genuine id, other dims) are outside the contract clause."),
 "C09": dict(cat="exploration", sec="4/C09", tech="runtime monitoring: online trace automaton over the recorded bus log",
   text="A recording bus logs every message the real controller emits for many types/addresses/page lists/retry patterns; a trace checker verifies request-ack-before-data, per-item offsets 0,16,32.., chunk sizes, concatenation == item bytes, count == chunks since the request, query right after count, the config block == the type's block, and nothing of a transfer after a request that was NOT acknowledged (on attempts 1, 2 and 3). Transfers just below and above 65536 chunks are included. The same predicates are applied to calls made with a Sign object that has already performed another call (succeeded or given up; often the same pages again). Runs with a Trace-level log sink installed (thorough: again with logging off).",
   note="Trusted: the trace automaton; the harness's transcription of the 11 blocks."),
 "C10": dict(cat="fault_enumeration", sec="4/C10", tech="runtime monitoring: lockstep reference protocol machine inside an adversarial scripted bus, exhaustive reply-script DFS",
   text="Every reply script over a 44-symbol alphabet is enumerated depth-first to the natural end of each controller operation (polling bounded); at every step the message the real controller emits and its final outcome are compared with an independent flat-state-machine model of the documented protocol. The same enumeration is repeated on Sign objects that have already performed one of 26 canned earlier calls (successful, given up after three failures, abandoned on a bus error, flip-style query unanswered, ...), each later call against a fresh reference machine, so that nothing a call leaves behind in the object can stand in for a reply. Bus errors come as six kinds of error object (custom, io::Error Interrupted / TimedOut / WouldBlock, wrapped io::Errors). One Sign object is used for 70 000 calls in a row, and nothing may be sent when a Sign is dropped. Runs with a Trace-level log sink installed (thorough: again with logging off).",
   note="Trusted: refctl (Appendix C). Polling loops explored to a bound."),
 "C11": dict(cat="fault_enumeration", sec="4/C11", tech="runtime monitoring: model-free trace invariants on the same exhaustive reply-script conversations + random scripts",
   text="Invariants I1-I6 (no unconfirmed success, fail-stop, <=3 attempts each after a failed report, own address on everything emitted, foreign replies never treated as own, fail-stop inside the reset handshake) are evaluated on every enumerated conversation (fresh Sign objects, and Sign objects reused after each of 26 canned earlier calls) and on random scripts / random call sequences on one object, without consulting the reference machine. Bus errors of six kinds, 70 000 calls on one object, silence on drop and the logging modes as for C10.",
   note="Trusted: the invariant checker only."),
 "C12": dict(cat="exploration", sec="4/C12", tech="runtime monitoring: catch_unwind around every delivery in a BFS over real sign states + long hostile random walks, checked and plain profiles",
   text="Every transition of the breadth-first state exploration and of long random/directed walks (all chunk lengths, arbitrary config blocks, counter saturation, lost/extra/duplicate chunks, buses of 1-3 signs, a trace-level log sink) runs under catch_unwind in a build with overflow checks on; a panic is the violation. The thorough tier repeats the quick workload in the plain release profile and with logging off.",
   note="Trusted: nothing beyond catch_unwind; bounded exploration + random walks."),
 "C13": dict(cat="exploration", sec="4/C13", tech="runtime monitoring: lockstep reference state machine during BFS over the real implementation's state to a fixed point under bounds",
   text="The real VirtualSign is explored breadth-first (its own Hash/Eq) to a fixed point under bounds with a wide alphabet; after every transition reply, state, type and pages are compared with an independent sign-side machine, plus model-free page invariants. Random walks cover beyond the bounds. After a goodbye or a completed reset the sign must equal (and hash like) a newly made one. Two walks of 200 000 messages keep one sign object alive far beyond any 16-bit counter. Runs with a Trace-level log sink installed, so that log-statement arguments are evaluated (thorough: again with logging off).",
   note="Trusted: refsign (Appendix B); in undocumented corners it encodes pinned behaviour (regression oracle)."),
 "C14": dict(cat="exploration", sec="4/C14", tech="runtime monitoring: two-run non-interference monitor (bus vs solo shadow signs) over random interleavings + BFS of a 2-sign bus",
   text="Buses of 1-4 real virtual signs receive interleaved histories; before/after snapshots and solo shadow copies check that only the addressed sign changes, replies match the solo sign and carry its address, absent addresses get silence, and unaddressed data affects only receiving signs. Three histories of 100 000 messages keep one bus alive; logging modes as for C13.",
   note="Trusted: VirtualSign as its own solo reference."),
 "C15": dict(cat="fault_enumeration", sec="4/C15", tech="runtime monitoring: instrumented Read/Write doubles with scripted fragmentation and faults, conservation checker on the tape",
   text="Streams of 1-4 lines with trailing bytes are read through a scripted reader: every composition of short streams, interrupts/errors/EOF at every call index; the checker verifies bytes consumed == first line exactly, result == decode(line), order, and error surfacing; maximum-length (255-byte) frames back to back are included. Writes go through a scripted sink (short writes, interrupts, Ok(0), hard error at every index). Lines that repeat the previous line's frame in another spelling, wrong terminators made of CR / blank / tab, maximum-length lines through 1..6 interrupted reads, hard errors of all 17 stable io::ErrorKinds, sessions of several frames written to one sink, and 70 000 lines through one reader / 70 000 frames into one sink are included.",
   note="Trusted: the tape bookkeeping; reference codec."),
 "C16": dict(cat="fault_enumeration", sec="4/C16", tech="runtime monitoring: instrumented serial port event log + trace predicates, fault at every port call",
   text="Every message kind with parameter sweeps goes through the real SerialSignBus on an instrumented port; the log checker verifies bytes written == reference encoding exactly once, a read iff a reply is due, exactly one line consumed, reply == reference classification, and errors for write/read failures and undecodable replies. Sessions of several messages through ONE bus instance (write failure at every call index) catch anything a message leaves behind for the next one. Replies equal to the request's own frame, replies cut short mid-session (the session goes on), hard errors of all io::ErrorKinds, the bus's drop as part of the record, and one bus instance used for 70 000 messages are included. Logging modes as for C13.",
   note="Trusted: refcodec + reftable."),
 "C17": dict(cat="exploration", sec="4/C17", tech="runtime monitoring: two-run transparency monitor (serial duplex path vs direct path) + bridge trace predicates",
   text="Operation sequences run once through Sign->SerialSignBus->byte duplex->Odk->VirtualSignBus and once directly; success/failure, flip style and all sign observables must agree after every operation; the bridge log must forward exactly the decoded frames, consume exactly the line that was sent and write back exactly when the bus replied; raw messages (incl. 255-byte frames) go down both paths; undecodable lines give Communication errors without touching the bus. Every 16th scenario runs over a line whose writes block longer than the pacing pause; 70 000 unpaced messages go down both paths through one serial bus and one bridge. Logging modes as for C13.",
   note="Trusted: the in-process duplex; only success/failure (not error class) compared across paths."),
 "C18": dict(cat="exploration", sec="4/C18", tech="runtime monitoring: monotonic timestamps at the port boundary; lower bounds on paced gaps, min-over-trials upper bound on unpaced gaps",
   text="Instant timestamps taken inside the port's read/write and around process_message give the gaps; paced exchanges (data chunks; in-progress reports received in answer to ANY request kind) must show >=30 ms / >=100 ms on every trial; every other sent kind and every other (request, reply) pair must show a minimum over trials below 30 ms; a data chunk after which the port's flush fails must still be followed by 30 ms of silence. Random sessions of 3-6 mixed messages through one bus instance check that pacing depends on the current exchange only; ports whose write / read calls block for 10-120 ms check that the delays run from the END of the write / read. Lower bounds cannot false-alarm; the upper side uses min over repeated trials. Look-alike replies (0x13 / 0x11 in frames that are not state reports) must not be delayed; two sessions keep one bus alive through 300 messages. Logging modes as for C13.",
   note="Trusted: std Instant monotonicity and thread::sleep never returning early."),
 "C19": dict(cat="exploration", sec="4/C19", tech="runtime monitoring: field-arithmetic oracle on all types + exhaustive (family,id) sweep + virtual sign as downstream consumer",
   text="All 11 types: block length, round trip, field arithmetic vs dimensions, and a virtual sign configured with the block — freshly, after a failed configuration as any other type, or after another block in the same transfer — accepts exactly a page of dimensions(); an unsupported block after a supported one leaves the sign without a recorded type. All 65536 (family,id) pairs x tails and all lengths 0..=40 are decoded under catch_unwind and compared with the harness's own list. The recorded type is followed through failed, abandoned and completed pixel transfers; lengths that are 16 only modulo 2^8 / 2^16 / 2^24 are rejected.",
   note="Trusted: harness list of 11 (family,id,w,h)."),
 "C20": dict(cat="fault_enumeration", sec="4/C20", tech="runtime monitoring: instrumented serial device recording settings calls, exhaustive prior settings x fault points",
   text="All 864 prior settings x 3 entry points x (no fault + 4 fault points), and all 7 error kinds (incl. Interrupted) at every fault point, are executed on an instrumented device whose log survives the move into the constructor; final settings, applied timeout, error propagation and absence of data I/O are checked; sub-millisecond, fractional and very long caller timeouts must be applied exactly; one-shot and two-shot (transient) refusals at every fault point must end either in an error or in the full required configuration. Complete enumeration. One port object is configured 70 000 times in a row.",
   note="Trusted: the instrumented device."),
}

def main():
    checks = []
    na = []
    for pid in sorted(P):
        p = P[pid]
        if pid in BUILT:
            checks.append({
                "property_id": pid,
                "quick_cmd": f"./check {pid} quick",
                "thorough_cmd": f"./check {pid} thorough",
                "evidence_file": f"/verif/evidence/{pid}.json",
                "replay_cmd_template": f"./check {pid} --replay {{path}}",
                "engine": "fdmon",
                "level_claimed": {"category": p["cat"], "text": p["text"], "design_ref": f"DESIGN.md section {p['sec']}"},
                "level_note": p["note"],
                "technique": p["tech"],
            })
        else:
            na.append({"property_id": pid, "reason": "check under construction in this round (design in DESIGN.md section %s); not claimed until it is built and silent" % p["sec"]})
    m = {
        "version": 1,
        "setup_cmd": "./check --build",
        "hooks": {
            "guard": "--cfg flipdot_verif",
            "enable": "no hooks are needed: every observation point is public API (traits Read/Write/SerialDevice/SignBus implemented by the harness); the guard name is reserved",
            "baseline_off_cmd": "cd /repo && cargo test --workspace --no-fail-fast --offline",
            "source_commits": [],
            "add_only": True,
        },
        "engines": [{
            "name": "fdmon",
            "path": "/verif/harness",
            "serves_properties": sorted(BUILT),
            "kind_free_text": "Rust binary linking the repository's crates from its current working tree; reference-model monitors, trace checkers over recorded event logs and two-run monitors driven by exhaustive enumerations and seeded hostile workloads; built with overflow-checks and debug-assertions",
        }],
        "checks": checks,
        "not_applicable": na,
        "notes": "exit 2 + an INCONCLUSIVE line = coverage floor missed / build failure / watchdog; never a VIOLATION. Known findings: /verif/known_findings.json.",
    }
    json.dump(m, open(os.path.join(HERE, "MANIFEST.json"), "w"), indent=1)
    print("MANIFEST.json: %d checks, %d not_applicable" % (len(checks), len(na)))

main()
