#!/usr/bin/env bash
exec "$(dirname "${BASH_SOURCE[0]}")/loglevel.sh" C18 "$@"
