#!/usr/bin/env bash
# Sanitizer legs for C03 (thorough tier only): the decoder workload under Miri and under AddressSanitizer.
# A report whose cause is the decoder is a C03 violation; a leg that cannot run is recorded as not_run and
# does not change the verdict of the primary monitors.
set -u
TIER="$1"; SEED="$2"
[ "$TIER" = thorough ] || exit 0
VERIF="$(cd "$(dirname "${BASH_SOURCE[0]}")/.." && pwd)"
OUT="${VERIF_OUT:-$VERIF}"
EV="$OUT/evidence/C03.json"
LOGS="$FDMON_TARGET/legs-logs"; mkdir -p "$LOGS"
rc=0
note() { # key value
  [ -f "$EV" ] && jq --arg k "$1" --arg v "$2" '.coverage.sanitizer_legs[$k]=$v' "$EV" > "$EV.tmp" && mv "$EV.tmp" "$EV"
}
[ -f "$EV" ] && jq '.coverage.sanitizer_legs={}' "$EV" > "$EV.tmp" && mv "$EV.tmp" "$EV"

# ---- Miri: 16 shards x ~120 generated strings through Frame::from_bytes
if cargo +nightly miri --version >/dev/null 2>&1; then
  export MIRIFLAGS="-Zmiri-disable-isolation"
  # build once (first shard), then the rest in parallel
  pids=(); fails=0; ub=0; viol=0
  run_shard() { cargo +nightly miri run --offline --quiet --manifest-path "$FDMON_WORK/Cargo.toml" --target-dir "$FDMON_TARGET/miri" -- C03 --miri --seed "$1" --no-evidence >"$LOGS/miri-$1.log" 2>&1; echo $? >"$LOGS/miri-$1.rc"; }
  run_shard $((SEED*100))
  for i in $(seq 1 15); do run_shard $((SEED*100+i)) & pids+=($!); done
  wait "${pids[@]}" 2>/dev/null
  total=0
  for i in $(seq 0 15); do
    s=$((SEED*100+i)); r=$(cat "$LOGS/miri-$s.rc" 2>/dev/null || echo 99)
    if grep -q "Undefined Behavior" "$LOGS/miri-$s.log" 2>/dev/null; then ub=$((ub+1));
    elif [ "$r" = 1 ] && grep -q '^VIOLATION property=C03' "$LOGS/miri-$s.log"; then viol=$((viol+1));
    elif [ "$r" != 0 ]; then fails=$((fails+1));
    else n=$(grep -o 'evaluations=[0-9]*' "$LOGS/miri-$s.log" | head -1 | cut -d= -f2); total=$((total+${n:-0})); fi
  done
  if [ $ub -gt 0 ] || [ $viol -gt 0 ]; then
    f=$(grep -l "Undefined Behavior\|^VIOLATION" "$LOGS"/miri-*.log | head -1)
    mkdir -p "$OUT/replays"; cp "$f" "$OUT/replays/C03-miri-$SEED.log"
    note miri "REPORT: $ub shard(s) with undefined behaviour, $viol with oracle violations"
    echo "  [miri] undefined behaviour / violation while decoding (see log)"
    echo "VIOLATION property=C03 replay=$OUT/replays/C03-miri-$SEED.log"
    rc=1
  elif [ $fails -eq 16 ]; then note miri "not_run (tool error, see $LOGS)"; echo "C03 miri leg: not_run"
  else note miri "clean: $((16-fails)) shard(s), $total decoder inputs interpreted, 0 reports"; echo "C03 miri leg: clean ($total inputs, $fails shard(s) not run)"; fi
else
  note miri "not_run (miri unavailable)"; echo "C03 miri leg: not_run"
fi

# ---- AddressSanitizer: the quick-tier C03 workload scaled down, in an ASan-instrumented build
if RUSTFLAGS="-Zsanitizer=address -Cforce-frame-pointers=yes" cargo +nightly build --offline --quiet --manifest-path "$FDMON_WORK/Cargo.toml" --target x86_64-unknown-linux-gnu --target-dir "$FDMON_TARGET/asan" --profile release >"$LOGS/asan-build.log" 2>&1; then
  ASAN_BIN="$FDMON_TARGET/asan/x86_64-unknown-linux-gnu/release/fdmon"
  ASAN_OPTIONS="halt_on_error=1:detect_leaks=0:exitcode=77:abort_on_error=0" VERIF_SCALE=0.05 VERIF_TIER=quick "$ASAN_BIN" C03 --tier quick --seed "$SEED" --no-evidence >"$LOGS/asan-run.log" 2>&1
  r=$?
  n=$(grep -o 'evaluations=[0-9]*' "$LOGS/asan-run.log" | head -1 | cut -d= -f2)
  if [ $r -eq 77 ] || grep -q "ERROR: AddressSanitizer" "$LOGS/asan-run.log"; then
    mkdir -p "$OUT/replays"; cp "$LOGS/asan-run.log" "$OUT/replays/C03-asan-$SEED.log"
    note asan "REPORT: AddressSanitizer error"
    echo "  [asan] AddressSanitizer report while decoding (see log)"
    echo "VIOLATION property=C03 replay=$OUT/replays/C03-asan-$SEED.log"
    rc=1
  elif [ $r -eq 1 ] && grep -q '^VIOLATION property=C03' "$LOGS/asan-run.log"; then
    mkdir -p "$OUT/replays"; cp "$LOGS/asan-run.log" "$OUT/replays/C03-asan-$SEED.log"
    note asan "oracle violation in the instrumented build"
    echo "VIOLATION property=C03 replay=$OUT/replays/C03-asan-$SEED.log"
    rc=1
  elif [ $r -eq 0 ] || { [ $r -eq 2 ] && grep -q 'reason=coverage_floor' "$LOGS/asan-run.log" && ! grep -q 'reason=harness' "$LOGS/asan-run.log"; }; then
    # exit 2 here only means that the 5 % workload is below the coverage floors of the full one; the sanitizer ran to the end
    note asan "clean: ${n:-?} decoder inputs in an ASan build, 0 reports"; echo "C03 asan leg: clean (${n:-?} inputs)"
  else note asan "not_run (exit $r, see $LOGS/asan-run.log)"; echo "C03 asan leg: not_run (exit $r)"; fi
else
  note asan "not_run (instrumented build failed, see $LOGS/asan-build.log)"; echo "C03 asan leg: not_run (build)"
fi
exit $rc
