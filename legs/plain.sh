#!/usr/bin/env bash
# Plain-profile leg (thorough tier): repeats the quick workload of a property in a build WITHOUT overflow checks
# and debug assertions — what a user's release build does — so that a wrap-around cannot hide a panic (C12), a debug-only check cannot stand in for a real one (C08-C11, C13, C14, C16) or
# silently change a value (C19).
set -u
ID="$1"; TIER="$2"; SEED="$3"
[ "$TIER" = thorough ] || exit 0
VERIF="$(cd "$(dirname "${BASH_SOURCE[0]}")/.." && pwd)"
OUT="${VERIF_OUT:-$VERIF}"
EV="$OUT/evidence/$ID.json"
if ! cargo build --offline --quiet --manifest-path "$FDMON_WORK/Cargo.toml" --target-dir "$FDMON_TARGET" --profile plain >"$FDMON_WORK/build-plain.log" 2>&1; then
  [ -f "$EV" ] && jq '.coverage.plain_profile_leg="not_run (build failed)"' "$EV" > "$EV.tmp" && mv "$EV.tmp" "$EV"
  echo "$ID plain-profile leg: not_run (build)"; exit 0
fi
mkdir -p "$OUT/replays"
log="$FDMON_WORK/plain-$ID.log"
VERIF_OUT="$OUT/plain-leg" "$FDMON_TARGET/plain/fdmon" "$ID" --tier quick --seed "$SEED" --no-evidence >"$log" 2>&1
r=$?
if [ $r -eq 1 ] && grep -q "^VIOLATION property=$ID" "$log"; then
  grep '^  \[' "$log" | head -5
  sed -n "s/^VIOLATION property=$ID replay=\(.*\)$/\1/p" "$log" | while read -r f; do echo "VIOLATION property=$ID replay=$f"; done
  [ -f "$EV" ] && jq '.coverage.plain_profile_leg="VIOLATION in the plain release profile"' "$EV" > "$EV.tmp" && mv "$EV.tmp" "$EV"
  exit 1
fi
n=$(grep -o 'evaluations=[0-9]*' "$log" | head -1 | cut -d= -f2)
[ -f "$EV" ] && jq --arg v "clean: quick workload repeated in the plain release profile (${n:-?} evaluations, exit $r)" '.coverage.plain_profile_leg=$v' "$EV" > "$EV.tmp" && mv "$EV.tmp" "$EV"
echo "$ID plain-profile leg: exit $r (${n:-?} evaluations)"
exit 0
