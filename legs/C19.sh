#!/usr/bin/env bash
exec "$(dirname "${BASH_SOURCE[0]}")/plain.sh" C19 "$@"
