#!/usr/bin/env bash
D="$(dirname "${BASH_SOURCE[0]}")"
"$D/plain.sh" C12 "$@" || exit $?
exec "$D/loglevel.sh" C12 "$@"
