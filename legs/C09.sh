#!/usr/bin/env bash
# thorough tier: the quick workload again in the plain release profile (no overflow checks, no debug assertions:
# what a user's release build does) and with logging off
D="$(dirname "${BASH_SOURCE[0]}")"
"$D/plain.sh" C09 "$@" || exit $?
exec "$D/loglevel.sh" C09 "$@"
