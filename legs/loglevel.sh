#!/usr/bin/env bash
# Logging-off leg (thorough tier): the main run has a Trace-level log sink installed, so every log statement of the
# library is evaluated and formatted. This leg repeats the property's quick workload with logging OFF (FDMON_LOG=off) —
# what an application that never installs a logger gets — so that behaviour which depends on whether a log statement's
# arguments are evaluated shows up in one of the two.
set -u
ID="$1"; TIER="$2"; SEED="$3"
[ "$TIER" = thorough ] || exit 0
VERIF="$(cd "$(dirname "${BASH_SOURCE[0]}")/.." && pwd)"
OUT="${VERIF_OUT:-$VERIF}"
EV="$OUT/evidence/$ID.json"
mkdir -p "$OUT/replays"
log="$FDMON_WORK/logoff-$ID.log"
FDMON_LOG=off VERIF_OUT="$OUT/logoff-leg" "$FDMON_BIN" "$ID" --tier quick --seed "$SEED" --no-evidence >"$log" 2>&1
r=$?
if [ $r -eq 1 ] && grep -q "^VIOLATION property=$ID" "$log"; then
  grep '^  \[' "$log" | head -5
  sed -n "s/^VIOLATION property=$ID replay=\(.*\)$/\1/p" "$log" | while read -r f; do echo "VIOLATION property=$ID replay=$f"; done
  [ -f "$EV" ] && jq '.coverage.logging_off_leg="VIOLATION with logging off"' "$EV" > "$EV.tmp" && mv "$EV.tmp" "$EV"
  exit 1
fi
n=$(grep -o 'evaluations=[0-9]*' "$log" | head -1 | cut -d= -f2)
[ -f "$EV" ] && jq --arg v "clean: quick workload repeated with logging off (${n:-?} evaluations, exit $r)" '.coverage.logging_off_leg=$v' "$EV" > "$EV.tmp" && mv "$EV.tmp" "$EV"
echo "$ID logging-off leg: exit $r (${n:-?} evaluations)"
exit 0
